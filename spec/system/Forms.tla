------------------------------- MODULE Forms -------------------------------
(* C05 - the result does not depend on how source, stylesheet and output are supplied.               *)
(*                                                                                                   *)
(* A form is a record cfg = [src, ss, out, api].  For one input (S, D, P) - stylesheet, document,    *)
(* parameters - the XSLT Recommendation defines ONE outcome r = R(S, D, P): failure, or a result     *)
(* tree together with the output method.  The single action Run(cfg) delivers an observation of r;   *)
(* nothing in its definition but Supported(cfg) and the chunk protocol of the callback target        *)
(* mentions cfg: the outcome is independent of the form by construction.                             *)
(*                                                                                                   *)
(* The module is constant-level (no VARIABLES): MC_Forms builds the state machine from it, Trace_C05 *)
(* validates recorded runs of the real forms against the same definitions.                           *)
EXTENDS Integers, Sequences, FiniteSets, TLC

(* ---------------------------------------------------------------- the space of forms ------------ *)
SrcSeq == <<"file", "stream", "parsedNative", "parsedXerces", "wrappedXercesDOM", "builderSAX">>
SsSeq  == <<"inputSource", "compiled", "PI">>
OutSeq == <<"file", "stream", "callback", "cData", "xercesDOM", "sourceTree">>
ApiSeq == <<"cpp", "c", "cli">>

SeqRange(s) == {s[i] : i \in DOMAIN s}
Srcs == SeqRange(SrcSeq)   \* file name | std::istream | parseSource() | parseSource(.., useXercesDOM = true) |
                           \* XercesDOMWrapperParsedSource over the caller's DOMDocument | XalanDocumentBuilder fed by SAX2 events
Sss  == SeqRange(SsSeq)    \* XSLTInputSource | compileStylesheet() | xml-stylesheet processing instruction of the source
Outs == SeqRange(OutSeq)   \* file name | std::ostream (stdout for the CLI) | XalanTransformerOutputStream handler |
                           \* XalanTransformToData buffer | FormatterToXercesDOM | FormatterToSourceTree
Apis == SeqRange(ApiSeq)   \* XalanTransformer (C++) | XalanCAPI.h | the Xalan command-line program

Cfgs == [src : Srcs, ss : Sss, out : Outs, api : Apis]
Dims == {"src", "ss", "out", "api"}

TreeOuts == {"xercesDOM", "sourceTree"}
DomSrcs  == {"parsedXerces", "wrappedXercesDOM"}

(* ---- what the real API surface does not offer: every exclusion with its reason ------------------ *)
(* C API (XalanCAPI.h) and XalanExe only produce bytes: XSLTResultTarget(FormatterListener&) is C++ only *)
X_treeTargetNeedsCpp(c)   == c.api # "cpp" /\ c.out \in TreeOuts
(* XalanTransformToData / ...Prebuilt (char** buffer) exists in the C API only *)
X_cDataIsCApiOnly(c)      == c.out = "cData" /\ c.api # "c"
(* the C API has no std::ostream; its targets are a file name, the data buffer and the handler *)
X_cApiHasNoOstream(c)     == c.api = "c" /\ c.out = "stream"
(* XalanExe writes to -o FILE or to stdout; it has no handler target *)
X_cliFileOrStdout(c)      == c.api = "cli" /\ c.out \notin {"file", "stream"}
(* XalanParseSource / XalanParseSourceFromStream have no useXercesDOM argument; wrappers and the document *)
(* builder are C++ classes; XalanExe reads a file or stdin ("-"), with -t it calls parseSource() itself   *)
X_cApiSources(c)          == c.api = "c" /\ c.src \notin {"file", "stream", "parsedNative"}
X_cliSources(c)           == c.api = "cli" /\ c.src \notin {"file", "stream", "parsedNative"}
(* C API: the file-name functions take (xml name, xsl name | NULL = use the PI); the ...Prebuilt functions *)
(* take (parsed source handle, compiled stylesheet handle) - there is no mixed signature.  A stream can    *)
(* only enter through XalanParseSourceFromStream, i.e. together with a compiled stylesheet.               *)
X_cApiFileNamePair(c)     == c.api = "c" /\ c.src = "file" /\ c.ss = "compiled"
X_cApiPrebuiltPair(c)     == c.api = "c" /\ c.src \in {"stream", "parsedNative"} /\ c.ss # "compiled"
(* XalanTransformToHandler passes theXSLFileName on without the NULL test ToFile / ToData have: no PI form *)
X_cApiHandlerNoPI(c)      == c.api = "c" /\ c.out = "callback" /\ c.ss = "PI"
(* XalanExe: plain run = transform(source, stylesheet file | -a) on a file or stdin; with -t (timing) it   *)
(* runs parseSource + compileStylesheet + transform(parsed, compiled) (or transform(parsed, target), -a)  *)
X_cliPlainPair(c)         == c.api = "cli" /\ c.src \in {"file", "stream"} /\ c.ss = "compiled"
X_cliTimingPair(c)        == c.api = "cli" /\ c.src = "parsedNative" /\ c.ss = "inputSource"
(* the PI's href is resolved against the base URI of the source: stdin has none (C++ streams are given a  *)
(* system id by the caller, the document builder and the DOM wrapper take a URI argument)                *)
X_piNeedsBaseURI(c)       == c.ss = "PI" /\ c.api = "cli" /\ c.src = "stream"

ExclusionNames == {"treeTargetNeedsCpp", "cDataIsCApiOnly", "cApiHasNoOstream", "cliFileOrStdout", "cApiSources", "cliSources",
                   "cApiFileNamePair", "cApiPrebuiltPair", "cApiHandlerNoPI", "cliPlainPair", "cliTimingPair", "piNeedsBaseURI"}
Hits(c, name) == CASE name = "treeTargetNeedsCpp" -> X_treeTargetNeedsCpp(c)
                   [] name = "cDataIsCApiOnly"    -> X_cDataIsCApiOnly(c)
                   [] name = "cApiHasNoOstream"   -> X_cApiHasNoOstream(c)
                   [] name = "cliFileOrStdout"    -> X_cliFileOrStdout(c)
                   [] name = "cApiSources"        -> X_cApiSources(c)
                   [] name = "cliSources"         -> X_cliSources(c)
                   [] name = "cApiFileNamePair"   -> X_cApiFileNamePair(c)
                   [] name = "cApiPrebuiltPair"   -> X_cApiPrebuiltPair(c)
                   [] name = "cApiHandlerNoPI"    -> X_cApiHandlerNoPI(c)
                   [] name = "cliPlainPair"       -> X_cliPlainPair(c)
                   [] name = "cliTimingPair"      -> X_cliTimingPair(c)
                   [] name = "piNeedsBaseURI"     -> X_piNeedsBaseURI(c)
ExclusionsOf(c) == {n \in ExclusionNames : Hits(c, n)}

Supported(c) == c \in Cfgs /\ ExclusionsOf(c) = {}
SupportedCfgs == {c \in Cfgs : Supported(c)}

(* Input-dependent exclusions.  feat = [utf16, srcbase, method]:                                              *)
(*  utf16    the stylesheet asks for a UTF-16 encoding: XalanTransformToData returns a NUL-terminated char*,   *)
(*           which cannot carry UTF-16                                                                         *)
(*  srcbase  the stylesheet resolves a URI against the base URI of the SOURCE document (document(x, /)):       *)
(*           stdin (CLI) and XalanParseSourceFromStream (C API) cannot be given a system id                    *)
(* Preconditions on the input itself (not on cfg): a DOM handed to the wrapper is namespace-aware and in      *)
(* XPath-normal form (no CDATA sections, no entity-reference nodes); every stream is given a system id where  *)
(* the API allows one.                                                                                        *)
SupportedFor(c, feat) ==
  /\ Supported(c)
  /\ ~(feat.utf16 /\ c.out = "cData")
  /\ ~(feat.srcbase /\ c.src = "stream" /\ c.api \in {"c", "cli"})

(* The input sources the caller builds besides a direct src = file / stream (the stylesheet for              *)
(* ss \in {inputSource, compiled}, the document for parseSource) are file names or streams with a system id. *)
(* The choice is a function of cfg so that a run is determined by cfg; C API and CLI can only name files     *)
(* (their stream entry points cannot carry a system id).                                                     *)
Idx(s, v) == CHOOSE i \in DOMAIN s : s[i] = v
Via(c) == IF c.api = "cpp" /\ (Idx(SrcSeq, c.src) + Idx(OutSeq, c.out)) % 2 = 1 THEN "stream" ELSE "file"

(* ---------------------------------------------------------------- outcomes ----------------------- *)
(* r = [ok |-> BOOLEAN, tree |-> sequence of nodes]; nodes are records                                *)
(*   [k |-> "elem", name, ns, attrs (sorted <<name, ns, value>>), kids] | [k |-> "text", v]           *)
(*   [k |-> "comment", v] | [k |-> "pi", name, v]                                                     *)
(* Byte targets carry Serialize(method, encoding, tree); what they carry back is the tree for the     *)
(* xml and html methods and only the string-value for the text method.                                *)
RECURSIVE StrVal(_)
StrVal(t) == IF t = <<>> THEN ""
             ELSE LET n == Head(t)
                      s == IF n.k = "text" THEN n.v ELSE IF n.k = "elem" THEN StrVal(n.kids) ELSE ""
                  IN s \o StrVal(Tail(t))

SameTree(method, t1, t2) == IF method = "text" THEN StrVal(t1) = StrVal(t2) ELSE t1 = t2
Agree(method, o1, o2) == o1.ok = o2.ok /\ (o1.ok => SameTree(method, o1.tree, o2.tree))

(* ---------------------------------------------------------------- callback target ---------------- *)
(* The handler-side log of one run: a sequence of entries n >= 0 (outputHandler called with n bytes)  *)
(* and -1 (flushHandler called).                                                                      *)
Writes(wlog) == SelectSeq(wlog, LAMBDA x : x >= 0)
RECURSIVE Sum(_)
Sum(s) == IF s = <<>> THEN 0 ELSE Head(s) + Sum(Tail(s))
RECURSIVE Concat(_)
Concat(ss) == IF ss = <<>> THEN <<>> ELSE Head(ss) \o Concat(Tail(ss))

FlushOnlyAfterLastChunk(wlog) == \A i \in DOMAIN wlog : wlog[i] = -1 => \A j \in i + 1..Len(wlog) : wlog[j] = -1
(* a successful run: the chunks are the bytes (here: their lengths add up), no empty chunk, the flush  *)
(* handler ran, and only after the last chunk; a failed run never flushes after the failing chunk     *)
ChunkLogOK(wlog, nbytes, ok) ==
  /\ FlushOnlyAfterLastChunk(wlog)
  /\ ok => /\ Sum(Writes(wlog)) = nbytes
           /\ \A i \in DOMAIN wlog : wlog[i] # 0
           /\ (nbytes > 0 => wlog # <<>> /\ wlog[Len(wlog)] = -1)

(* ---------------------------------------------------------------- the single action -------------- *)
(* Run(cfg): running the form cfg on an input with features feat whose defined outcome is r delivers  *)
(* the observation obs = [ok, tree, wlog, nbytes].                                                    *)
Run(cfg, feat, r, obs) ==
  /\ SupportedFor(cfg, feat)
  /\ Agree(feat.method, r, obs)
  /\ (cfg.out = "callback" => ChunkLogOK(obs.wlog, obs.nbytes, obs.ok))

(* A handler that reports a short count at its k-th call: if the run gets that far it must fail.       *)
RunShort(cfg, feat, k, obs) ==
  /\ SupportedFor(cfg, feat) /\ cfg.out = "callback" /\ k >= 1
  /\ (Len(Writes(obs.wlog)) >= k => ~obs.ok /\ Len(Writes(obs.wlog)) = k /\ FlushOnlyAfterLastChunk(obs.wlog))

(* ---------------------------------------------------------------- pairwise covering -------------- *)
(* pairs of (dimension = value) that co-occur in a set of forms                                       *)
PairsOf(c) == {<<d1, c[d1], d2, c[d2]>> : d1, d2 \in Dims} \ {<<d, c[d], d, c[d]>> : d \in Dims}
Pairs(S) == UNION {PairsOf(c) : c \in S}
PairwiseCovering(Q) == Q \subseteq SupportedCfgs /\ Pairs(SupportedCfgs) \subseteq Pairs(Q)
=============================================================================
