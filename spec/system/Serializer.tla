----------------------------- MODULE Serializer -----------------------------
(* C04 - the XML output method, abstractly.                                                           *)
(*                                                                                                    *)
(* INPUT   a result tree given as a script of SAX-like events (startDocument / endDocument implicit): *)
(*           [k |-> "S", n |-> name, a |-> <<<<name, value>>, ...>>]   startElement                    *)
(*           [k |-> "T", v |-> string]     characters                                                  *)
(*           [k |-> "D", v |-> string]     characters inside a cdata-section-elements element          *)
(*           [k |-> "C", v |-> string]     comment                                                     *)
(*           [k |-> "P", n |-> target, v |-> data]   processingInstruction                             *)
(*           [k |-> "E", n |-> name]       endElement                                                  *)
(*         (every record carries all of k, n, v, a; unused fields are <<>>), and an option vector      *)
(*         [enc, ver].  A string is a run-length coded sequence of CODE POINTS <<<<cp, count>>, ...>>  *)
(*         in canonical form (no empty run, no two adjacent runs of the same code point).              *)
(* OUTPUT  status ("ok" / "error") and, outside TLA+, bytes; the bytes are decoded in the requested    *)
(*         encoding and parsed by an independent XML parser (expat) into the same node-list form.      *)
(*                                                                                                    *)
(* OBLIGATION (Obligation below):  status = "error" and ~Representable(script, opts),  or              *)
(*         status = "ok", the bytes decode and are well-formed, and the parsed tree = Tree(script).    *)
(*                                                                                                    *)
(* The second half of the module is an abstract XML parser over TOKENS (literal character, character  *)
(* reference, CDATA open/close) with XML's normalisations: line ends (CR, CR LF, and in XML 1.1 NEL,    *)
(* LSEP, CR NEL -> LF for LITERAL characters), attribute values (literal TAB / LF -> space), CDATA      *)
(* sections merged into the text.  MC_Serializer checks with it that Representable is exactly "some    *)
(* token sequence parses back to the string", and checks the implementation-shaped escaping rules       *)
(* (SerializerImpl.tla) against it.                                                                    *)
EXTENDS Naturals, Sequences, FiniteSets, TLC

(* ---- code points --------------------------------------------------------------------------------- *)
TAB == 9      LF == 10      CR == 13      SP == 32     QUOT == 34    AMP == 38    APOS == 39
DASH == 45    LT == 60      GT == 62      QM == 63     RSB == 93     NEL == 133   LSEP == 8232
V10 == "1.0"  V11 == "1.1"

IsSurrogate(c) == c >= 55296 /\ c <= 57343
Char10(c) == \/ c \in {TAB, LF, CR}
             \/ c >= 32 /\ c <= 55295
             \/ c >= 57344 /\ c <= 65533
             \/ c >= 65536 /\ c <= 1114111
Char11(c) == \/ c >= 1 /\ c <= 55295
             \/ c >= 57344 /\ c <= 65533
             \/ c >= 65536 /\ c <= 1114111
(* XML 1.1 RestrictedChar: may only appear as a character reference *)
Restricted11(c) == \/ c >= 1 /\ c <= 8
                   \/ c \in {11, 12}
                   \/ c >= 14 /\ c <= 31
                   \/ c >= 127 /\ c <= 132
                   \/ c >= 134 /\ c <= 159
CharOK(c, ver) == IF ver = V11 THEN Char11(c) ELSE Char10(c)
(* a LITERAL occurrence of these is turned into LF by the parser (so it does not come back)           *)
LitLineEnd(c, ver) == c = CR \/ (ver = V11 /\ c \in {NEL, LSEP})
IsWs(c) == c \in {SP, TAB, LF, CR}

(* ---- encodings ----------------------------------------------------------------------------------- *)
Cp1252High == {8364, 8218, 402, 8222, 8230, 8224, 8225, 710, 8240, 352, 8249, 338, 381, 8216, 8217,
               8220, 8221, 8226, 8211, 8212, 732, 8482, 353, 8250, 339, 382, 376}
Encodings == {"UTF-8", "UTF-16", "UTF-16BE", "ISO-8859-1", "US-ASCII", "windows-1252", "GB18030", "X-UNKNOWN-ENC"}    \* UTF-16BE: the byte order that is not the machine's, no byte order mark
Encodable(c, enc) ==
  CASE enc \in {"UTF-8", "UTF-16", "UTF-16BE", "GB18030", "X-UNKNOWN-ENC"} -> ~IsSurrogate(c)     \* an unknown name: UTF-8 is written (16.1)
    [] enc = "ISO-8859-1"   -> c <= 255
    [] enc = "US-ASCII"     -> c <= 127
    [] enc = "windows-1252" -> c <= 127 \/ (c >= 160 /\ c <= 255) \/ c \in Cp1252High
    [] OTHER -> FALSE

(* ---- run-length coded strings -------------------------------------------------------------------- *)
Cps(s) == {s[i][1] : i \in DOMAIN s}
RCanonical(s) == /\ \A i \in DOMAIN s : s[i][2] >= 1
                 /\ \A i \in 1..(Len(s) - 1) : s[i][1] # s[i + 1][1]
RLen(s) == LET RECURSIVE F(_)
               F(i) == IF i = 0 THEN 0 ELSE s[i][2] + F(i - 1)
           IN F(Len(s))
RCat(a, b) == IF a = <<>> THEN b
              ELSE IF b = <<>> THEN a
              ELSE IF a[Len(a)][1] = b[1][1]
                   THEN SubSeq(a, 1, Len(a) - 1) \o <<<<b[1][1], a[Len(a)][2] + b[1][2]>>>> \o Tail(b)
                   ELSE a \o b
RFirst(s) == s[1][1]
RLast(s) == s[Len(s)][1]
(* c1 immediately followed by c2 somewhere in s *)
HasPair(s, c1, c2) == IF c1 = c2 THEN \E i \in DOMAIN s : s[i][1] = c1 /\ s[i][2] >= 2
                      ELSE \E i \in 1..(Len(s) - 1) : s[i][1] = c1 /\ s[i + 1][1] = c2
RECURSIVE Rle(_)
Rle(p) == IF p = <<>> THEN <<>> ELSE RCat(<<<<p[1], 1>>>>, Rle(Tail(p)))      \* plain sequence -> run-length form

(* ---- names ---------------------------------------------------------------------------------------- *)
(* the model's name alphabet: ASCII letters, '_', digits, '-', '.', and two non-ASCII letters that are  *)
(* name characters in every edition of XML 1.0 / 1.1 (U+00E9, U+0416).  Validity of a Name is the      *)
(* caller's obligation (the XSLT engine checks QNames); whether it can be ENCODED is the serializer's.  *)
NameStart(c) == (c >= 97 /\ c <= 122) \/ (c >= 65 /\ c <= 90) \/ c = 95 \/ c \in {233, 1046}
NameChar(c) == NameStart(c) \/ (c >= 48 /\ c <= 57) \/ c \in {45, 46}
ValidName(s) == s # <<>> /\ NameStart(RFirst(s)) /\ \A c \in Cps(s) : NameChar(c)
IsXmlTarget(s) == Len(s) = 3 /\ s[1] \in {<<120, 1>>, <<88, 1>>} /\ s[2] \in {<<109, 1>>, <<77, 1>>} /\ s[3] \in {<<108, 1>>, <<76, 1>>}

(* ---- what can be represented ---------------------------------------------------------------------- *)
(* character data and attribute values: character references exist, so only XML's Char production binds  *)
(* (for a cdata-section-elements element too: the section can be closed around a reference, XSLT 16.1)  *)
TextOK(s, o) == \A c \in Cps(s) : CharOK(c, o.ver)
(* comments, PI data, names: literal characters only *)
LitOK(c, o) == /\ CharOK(c, o.ver)
               /\ ~(o.ver = V11 /\ Restricted11(c))
               /\ ~LitLineEnd(c, o.ver)
               /\ Encodable(c, o.enc)
CommentShape(s) == ~HasPair(s, DASH, DASH) /\ (s # <<>> => RLast(s) # DASH)
PIShape(s) == ~HasPair(s, QM, GT) /\ (s # <<>> => ~IsWs(RFirst(s)))
CommentOK(s, o) == CommentShape(s) /\ \A c \in Cps(s) : LitOK(c, o)
PIDataOK(s, o) == PIShape(s) /\ \A c \in Cps(s) : LitOK(c, o)
NameOK(s, o) == ValidName(s) /\ \A c \in Cps(s) : Encodable(c, o.enc)

AttrNames(n) == {n.a[i][1] : i \in DOMAIN n.a}
NodeOK(n, o) ==
  CASE n.k = "S" -> /\ NameOK(n.n, o)
                    /\ Cardinality(AttrNames(n)) = Len(n.a)
                    /\ \A i \in DOMAIN n.a : NameOK(n.a[i][1], o) /\ TextOK(n.a[i][2], o)
    [] n.k = "E" -> TRUE
    [] n.k \in {"T", "D"} -> TextOK(n.v, o)
    [] n.k = "C" -> CommentOK(n.v, o)
    [] n.k = "P" -> NameOK(n.n, o) /\ ~IsXmlTarget(n.n) /\ PIDataOK(n.v, o)
    [] OTHER -> FALSE

(* a document: one root element, balanced tags, character data only inside elements *)
RECURSIVE Balanced(_, _, _, _)
Balanced(sc, i, stack, roots) ==
  IF i > Len(sc) THEN stack = <<>> /\ roots = 1
  ELSE LET n == sc[i] IN
       CASE n.k = "S" -> Balanced(sc, i + 1, <<n.n>> \o stack, IF stack = <<>> THEN roots + 1 ELSE roots)
         [] n.k = "E" -> stack # <<>> /\ stack[1] = n.n /\ Balanced(sc, i + 1, Tail(stack), roots)
         [] n.k \in {"T", "D"} -> stack # <<>> /\ Balanced(sc, i + 1, stack, roots)
         [] OTHER -> Balanced(sc, i + 1, stack, roots)
DocShape(sc) == Balanced(sc, 1, <<>>, 0)

Representable(sc, o) == DocShape(sc) /\ \A i \in DOMAIN sc : NodeOK(sc[i], o)

(* What the caller of a FormatterListener guarantees (the XSLT engine establishes it before the          *)
(* serializer is reached: QName checks of xsl:element / xsl:attribute / xsl:processing-instruction, the   *)
(* "--" / trailing "-" repair of xsl:comment and the "?>" repair of xsl:processing-instruction in         *)
(* ElemTemplateElement::childrenToResultComment / childrenToResultPI).  Scripts outside it are not legal  *)
(* input of the direct serializer interface; end to end they are judged after the repair.                *)
CallerContract(sc) ==
  /\ DocShape(sc)
  /\ \A i \in DOMAIN sc :
       LET n == sc[i] IN
       CASE n.k \in {"S", "E"} -> ValidName(n.n) /\ \A j \in DOMAIN n.a : ValidName(n.a[j][1])
         [] n.k = "C" -> CommentShape(n.v)
         [] n.k = "P" -> ValidName(n.n) /\ ~IsXmlTarget(n.n) /\ PIShape(n.v)
         [] OTHER -> TRUE
  /\ \A i \in DOMAIN sc : sc[i].k = "S" => Cardinality(AttrNames(sc[i])) = Len(sc[i].a)

(* ---- the abstract result tree --------------------------------------------------------------------- *)
(* node list in document order: adjacent character events merged ("D" is character data), empty           *)
(* character events dropped, attributes as a set of <<name, value>> pairs                               *)
TNode(n) == [k |-> IF n.k = "D" THEN "T" ELSE n.k, n |-> n.n, v |-> n.v,
             a |-> {<<n.a[j][1], n.a[j][2]>> : j \in DOMAIN n.a}]
RECURSIVE TreeFrom(_, _, _)
TreeFrom(sc, i, acc) ==
  IF i > Len(sc) THEN acc
  ELSE LET n == TNode(sc[i]) IN
       IF n.k = "T" /\ n.v = <<>> THEN TreeFrom(sc, i + 1, acc)
       ELSE IF n.k = "T" /\ acc # <<>> /\ acc[Len(acc)].k = "T"
            THEN TreeFrom(sc, i + 1, [acc EXCEPT ![Len(acc)].v = RCat(@, n.v)])
            ELSE TreeFrom(sc, i + 1, Append(acc, n))
Tree(sc) == TreeFrom(sc, 1, <<>>)

FirstDiff(a, b) == LET m == IF Len(a) < Len(b) THEN Len(a) ELSE Len(b)
                       d == {i \in 1..m : a[i] # b[i]}
                   IN IF d = {} THEN m + 1 ELSE CHOOSE i \in d : \A j \in d : i <= j

(* ---- the obligation -------------------------------------------------------------------------------- *)
(* r = [status, perr (parse / decode error, "" if none), tree (parsed node list)]                       *)
Obligation(sc, o, r) ==
  IF r.status = "error" THEN ~Representable(sc, o)
  ELSE r.perr = "" /\ r.tree = Tree(sc)

Why(sc, o, r) ==
  IF r.status = "error" THEN "the serializer reported an error although the tree is representable"
  ELSE IF r.perr # "" THEN "the output is not a well-formed document in the requested encoding (" \o r.perr \o ")"
                           \o (IF Representable(sc, o) THEN "" ELSE "; the tree is not representable: an error was required")
  ELSE LET w == Tree(sc)
           d == FirstDiff(w, r.tree) IN
       "the output parses back to a different tree, node " \o ToString(d) \o ": want "
         \o (IF d <= Len(w) THEN ToString(w[d]) ELSE "(end)") \o " got " \o (IF d <= Len(r.tree) THEN ToString(r.tree[d]) ELSE "(end)")
         \o (IF Representable(sc, o) THEN "" ELSE "; the tree is not representable: an error was required")

(* the two serializers shipped in the library agree: both fail, or both produce the same tree *)
Agree(r1, r2) == \/ r1.status = "error" /\ r2.status = "error"
                 \/ /\ r1.status = "ok" /\ r2.status = "ok"
                    /\ r1.perr = "" /\ r2.perr = "" /\ r1.tree = r2.tree

(* ==================================================================================================== *)
(* Abstract parser over tokens (plain sequences; used for short strings only)                           *)
(*   <<"lit", c>>  literal character      <<"ref", c>>  character / predefined entity reference          *)
(*   <<"cdo">>     <![CDATA[              <<"cdc">>     ]]>                                              *)
Bad == <<9999999>>        \* not a code point sequence of any document
Lit(c) == <<"lit", c>>
Ref(c) == <<"ref", c>>
CDO == <<"cdo">>
CDC == <<"cdc">>
LitAllowed(c, ver) == CharOK(c, ver) /\ ~(ver = V11 /\ Restricted11(c))

(* line-end normalisation of the literal characters; references are untouched.  out is built in reverse *)
(* order of processing: i runs over the tokens                                                         *)
RECURSIVE ParseContentFrom(_, _, _, _, _)
ParseContentFrom(t, i, inCd, out, ver) ==
  IF i > Len(t) THEN (IF inCd THEN Bad ELSE out)
  ELSE LET k == t[i][1] IN
       CASE k = "cdo" -> IF inCd THEN Bad ELSE ParseContentFrom(t, i + 1, TRUE, out, ver)
         [] k = "cdc" -> IF inCd THEN ParseContentFrom(t, i + 1, FALSE, out, ver) ELSE Bad
         [] k = "ref" -> IF inCd \/ ~CharOK(t[i][2], ver) THEN Bad
                         ELSE ParseContentFrom(t, i + 1, inCd, Append(out, t[i][2]), ver)
         [] k = "lit" ->
              LET c == t[i][2]
                  nextLit(j) == j <= Len(t) /\ t[j][1] = "lit"
                  endsSection == c = RSB /\ nextLit(i + 1) /\ t[i + 1][2] = RSB /\ nextLit(i + 2) /\ t[i + 2][2] = GT
              IN IF ~LitAllowed(c, ver) THEN Bad
                 ELSE IF ~inCd /\ c \in {LT, AMP} THEN Bad
                 ELSE IF endsSection THEN Bad               \* a literal "]]>": not allowed in content, ends the section early inside one
                 ELSE IF c = CR /\ nextLit(i + 1) /\ (t[i + 1][2] = LF \/ (ver = V11 /\ t[i + 1][2] = NEL))
                      THEN ParseContentFrom(t, i + 2, inCd, Append(out, LF), ver)
                 ELSE IF LitLineEnd(c, ver) THEN ParseContentFrom(t, i + 1, inCd, Append(out, LF), ver)
                 ELSE ParseContentFrom(t, i + 1, inCd, Append(out, c), ver)
         [] OTHER -> Bad
ParseContent(t, ver) == ParseContentFrom(t, 1, FALSE, <<>>, ver)

(* attribute value between double quotes *)
RECURSIVE ParseAttrFrom(_, _, _, _)
ParseAttrFrom(t, i, out, ver) ==
  IF i > Len(t) THEN out
  ELSE LET k == t[i][1] IN
       CASE k = "ref" -> IF ~CharOK(t[i][2], ver) THEN Bad ELSE ParseAttrFrom(t, i + 1, Append(out, t[i][2]), ver)
         [] k = "lit" ->
              LET c == t[i][2]
                  nextLit(j) == j <= Len(t) /\ t[j][1] = "lit"
              IN IF ~LitAllowed(c, ver) \/ c \in {LT, AMP, QUOT} THEN Bad
                 ELSE IF c = CR /\ nextLit(i + 1) /\ (t[i + 1][2] = LF \/ (ver = V11 /\ t[i + 1][2] = NEL))
                      THEN ParseAttrFrom(t, i + 2, Append(out, SP), ver)
                 ELSE IF LitLineEnd(c, ver) \/ c \in {TAB, LF} THEN ParseAttrFrom(t, i + 1, Append(out, SP), ver)
                 ELSE ParseAttrFrom(t, i + 1, Append(out, c), ver)
         [] OTHER -> Bad
ParseAttr(t, ver) == ParseAttrFrom(t, 1, <<>>, ver)

(* comment / PI data: literal characters only *)
RECURSIVE ParseLitFrom(_, _, _, _)
ParseLitFrom(t, i, out, ver) ==
  IF i > Len(t) THEN out
  ELSE IF t[i][1] # "lit" THEN Bad
  ELSE LET c == t[i][2]
           nextLit(j) == j <= Len(t) /\ t[j][1] = "lit"
       IN IF ~LitAllowed(c, ver) THEN Bad
          ELSE IF c = CR /\ nextLit(i + 1) /\ (t[i + 1][2] = LF \/ (ver = V11 /\ t[i + 1][2] = NEL))
               THEN ParseLitFrom(t, i + 2, Append(out, LF), ver)
          ELSE IF LitLineEnd(c, ver) THEN ParseLitFrom(t, i + 1, Append(out, LF), ver)
          ELSE ParseLitFrom(t, i + 1, Append(out, c), ver)
ParseLit(t, ver) == ParseLitFrom(t, 1, <<>>, ver)

HasSub(p, q) == \E i \in 1..(Len(p) - Len(q) + 1) : SubSeq(p, i, i + Len(q) - 1) = q
ParseComment(t, ver) == LET p == ParseLit(t, ver) IN
                        IF p = Bad THEN Bad
                        ELSE IF HasSub(p, <<DASH, DASH>>) \/ (p # <<>> /\ p[Len(p)] = DASH) THEN Bad ELSE p
ParsePI(t, ver) == LET p == ParseLit(t, ver) IN
                   IF p = Bad THEN Bad
                   ELSE IF HasSub(p, <<QM, GT>>) \/ (p # <<>> /\ IsWs(p[1])) THEN Bad ELSE p

Contexts == {"text", "cdata", "attr", "comment", "pi"}
Parse(ctx, t, ver) == CASE ctx \in {"text", "cdata"} -> ParseContent(t, ver)
                        [] ctx = "attr" -> ParseAttr(t, ver)
                        [] ctx = "comment" -> ParseComment(t, ver)
                        [] ctx = "pi" -> ParsePI(t, ver)
(* the tokens that can be BYTES at all: a literal must be encodable *)
Writable(t, enc) == \A i \in DOMAIN t : t[i][1] = "lit" => Encodable(t[i][2], enc)

(* Representable, for one plain string in one context *)
RepresentableStr(ctx, p, o) ==
  CASE ctx \in {"text", "cdata", "attr"} -> TextOK(Rle(p), o)
    [] ctx = "comment" -> CommentOK(Rle(p), o)
    [] ctx = "pi" -> PIDataOK(Rle(p), o)

(* a reference serializer: the obligation can be met for every representable string *)
RefContent(p, o) == [i \in DOMAIN p |->
    IF p[i] \in {LT, AMP, GT} \/ LitLineEnd(p[i], o.ver) \/ (o.ver = V11 /\ Restricted11(p[i])) \/ ~Encodable(p[i], o.enc)
    THEN Ref(p[i]) ELSE Lit(p[i])]
RefAttr(p, o) == [i \in DOMAIN p |->
    IF p[i] \in {LT, AMP, QUOT, TAB, LF} \/ LitLineEnd(p[i], o.ver) \/ (o.ver = V11 /\ Restricted11(p[i])) \/ ~Encodable(p[i], o.enc)
    THEN Ref(p[i]) ELSE Lit(p[i])]
RefLit(p) == [i \in DOMAIN p |-> Lit(p[i])]
RefSer(ctx, p, o) == CASE ctx \in {"text", "cdata"} -> RefContent(p, o)
                       [] ctx = "attr" -> RefAttr(p, o)
                       [] OTHER -> RefLit(p)
=============================================================================
