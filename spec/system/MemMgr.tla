------------------------------- MODULE MemMgr -------------------------------
(* The pluggable memory-manager contract of XalanTransformer (property C19) as a state machine. *)
(*                                                                                               *)
(* The application supplies a MemoryManager in two stages (docs/programming.md): to the process-  *)
(* level XalanTransformer::initialize(manager) and to each XalanTransformer(manager).  The state  *)
(* of ONE supplied manager and of the objects created on it is a record:                          *)
(*   live     blocks handed out and not yet returned that belong to a transformer instance        *)
(*   plive    the same for blocks of the process-level data (obtained inside initialize/terminate)*)
(*   call     the library call in progress ("none" between calls)                                 *)
(*   tr       "none" | "alive" | "gone"     the transformer instance                              *)
(*   proc     "off" | "on" | "elsewhere"    process-level data: absent / on this manager / on     *)
(*                                          some other manager (not observed)                     *)
(*   nreq     number of allocate() requests so far;  failAt: the request that is refused (0: none)*)
(*   failed   a request has been refused;  failedInCall: ... during the call in progress          *)
(*   mgr      "open" | "discarded";  probe "none" | "ok";  done                                   *)
(*                                                                                               *)
(* Actions (X_Enabled(s, ...) is the guard = the obligation, X_Do(s, ...) the effect):            *)
(*   Call(c)  Alloc(b)  Fail(k)  Free(b)  ApiReturn(status)  DestroyTransformer  Shutdown         *)
(*   DiscardManager(n)  Probe(good)  Exit(clean)          and Terminate, which is never enabled.  *)
(* Obligations of the property carried by the guards:                                             *)
(*   - Free(b) only for a block that is live on this manager (no foreign, no double free);        *)
(*   - without a refused request, live = {} at DestroyTransformer and plive = {} at Shutdown;     *)
(*   - a refused request is followed by an ApiReturn with status error/exception (or, inside a    *)
(*     destructor, by the normal completion of the destruction) - never by Terminate;             *)
(*   - DiscardManager reclaims exactly what is still outstanding, after which the manager is      *)
(*     never used again, and a Probe transformation on a fresh manager gives the right result.    *)
EXTENDS Naturals, Sequences, FiniteSets, SequencesExt

CallKinds == {"initialize", "create", "use", "destroy", "terminate"}
Statuses  == {"ok", "error", "exception"}

Start(failAt, procElsewhere) ==
  [live |-> {}, plive |-> {}, call |-> "none", tr |-> "none",
   proc |-> IF procElsewhere THEN "elsewhere" ELSE "off",
   nreq |-> 0, failAt |-> failAt, failed |-> FALSE, failedInCall |-> FALSE,
   mgr |-> "open", probe |-> "none", done |-> FALSE]

Outstanding(s) == s.live \cup s.plive
Usable(s)      == s.mgr = "open" /\ ~s.done
InCall(s)      == Usable(s) /\ s.call # "none"
ProcessCall(s) == s.call \in {"initialize", "terminate"}

(* ---- calls ------------------------------------------------------------------------------- *)
Call_Enabled(s, c) ==
  /\ Usable(s) /\ s.call = "none"
  /\ CASE c = "initialize" -> s.proc = "off" /\ s.tr # "alive"
       [] c = "create"     -> s.proc # "off" /\ s.tr # "alive"
       [] c = "use"        -> s.tr = "alive"
       [] c = "destroy"    -> s.tr = "alive"
       [] c = "terminate"  -> s.proc = "on" /\ s.tr # "alive"
       [] OTHER            -> FALSE
Call_Do(s, c) == [s EXCEPT !.call = c, !.failedInCall = FALSE]

(* ---- the manager's side: a request is granted (Alloc) or refused (Fail) -------------------- *)
Alloc_Enabled(s, b) == InCall(s) /\ b \notin Outstanding(s) /\ s.nreq + 1 # s.failAt
Alloc_Do(s, b) == IF ProcessCall(s) THEN [s EXCEPT !.plive = @ \cup {b}, !.nreq = @ + 1]
                                    ELSE [s EXCEPT !.live  = @ \cup {b}, !.nreq = @ + 1]

Fail_Enabled(s, k) == InCall(s) /\ k = s.nreq + 1 /\ k = s.failAt
Fail_Do(s) == [s EXCEPT !.nreq = @ + 1, !.failed = TRUE, !.failedInCall = TRUE]

(* ---- the library's side ------------------------------------------------------------------- *)
Free_Enabled(s, b) == InCall(s) /\ b \in Outstanding(s)          \* never foreign, never twice
Free_Do(s, b) == [s EXCEPT !.live = @ \ {b}, !.plive = @ \ {b}]

(* a refused request surfaces: the call in which it happened does not report success *)
Return_Enabled(s, status) ==
  /\ InCall(s) /\ s.call \in {"initialize", "create", "use"} /\ status \in Statuses
  /\ (s.failedInCall => status # "ok")
  \* a constructor / initialize() that gives up (for whatever reason) leaves nothing behind - unless memory ran out
  /\ (s.call = "create" /\ status # "ok" /\ ~s.failed => s.live = {})
  /\ (s.call = "initialize" /\ status # "ok" /\ ~s.failed => s.plive = {})
Return_Do(s, status) ==
  LET t == [s EXCEPT !.call = "none"] IN
  CASE s.call = "create"     -> [t EXCEPT !.tr   = IF status = "ok" THEN "alive" ELSE s.tr]
    [] s.call = "initialize" -> [t EXCEPT !.proc = IF status = "ok" THEN "on" ELSE "off"]
    [] OTHER                 -> t

(* balanced use: everything obtained for the instance is back no later than its destruction *)
Destroy_Enabled(s) == InCall(s) /\ s.call = "destroy" /\ (~s.failed => s.live = {})
Destroy_Do(s) == [s EXCEPT !.call = "none", !.tr = "gone"]

Shutdown_Enabled(s) == InCall(s) /\ s.call = "terminate" /\ (~s.failed => Outstanding(s) = {})
Shutdown_Do(s) == [s EXCEPT !.call = "none", !.proc = "off"]

(* the documented recovery model: drop the manager with whatever is still outstanding *)
Discard_Enabled(s, n) == /\ Usable(s) /\ s.call = "none" /\ s.tr # "alive" /\ s.proc # "on"
                         /\ n = Cardinality(Outstanding(s))
Discard_Do(s) == [s EXCEPT !.live = {}, !.plive = {}, !.mgr = "discarded"]

Probe_Enabled(s, good) == s.mgr = "discarded" /\ ~s.done /\ s.probe = "none" /\ good
Probe_Do(s) == [s EXCEPT !.probe = "ok"]

Exit_Enabled(s, clean) == s.probe = "ok" /\ ~s.done /\ clean
Exit_Do(s) == [s EXCEPT !.done = TRUE]

Terminate_Enabled(s) == FALSE       \* std::terminate, a fatal signal, abort(): never a step of the contract

(* ---- runs of requests / releases (how recorded executions are logged) ---------------------- *)
(* Alloc of the blocks lo..hi one after the other, none of them refused *)
AllocRun_Enabled(s, lo, hi) ==
  /\ InCall(s) /\ lo <= hi
  /\ (lo..hi) \cap Outstanding(s) = {}
  /\ ~(s.failAt \in (s.nreq + 1)..(s.nreq + (hi - lo) + 1))
AllocRun_Do(s, lo, hi) ==
  IF ProcessCall(s) THEN [s EXCEPT !.plive = @ \cup (lo..hi), !.nreq = @ + (hi - lo) + 1]
                    ELSE [s EXCEPT !.live  = @ \cup (lo..hi), !.nreq = @ + (hi - lo) + 1]

(* Free of the blocks ids[1], ids[2], ... in this order *)
NoDup(q) == Cardinality(Range(q)) = Len(q)
FreeRun_Enabled(s, ids) == InCall(s) /\ NoDup(ids) /\ Range(ids) \subseteq Outstanding(s)
FreeRun_Do(s, ids) == [s EXCEPT !.live = @ \ Range(ids), !.plive = @ \ Range(ids)]

(* the same, one action at a time (MC_MemMgr checks that both formulations agree) *)
RECURSIVE AllocEach(_, _, _)
AllocEach(s, lo, hi) ==          \* [ok, st]
  IF lo > hi THEN [ok |-> TRUE, st |-> s]
  ELSE IF Alloc_Enabled(s, lo) THEN AllocEach(Alloc_Do(s, lo), lo + 1, hi) ELSE [ok |-> FALSE, st |-> s]
RECURSIVE FreeEach(_, _, _)
FreeEach(s, ids, i) ==
  IF i > Len(ids) THEN [ok |-> TRUE, st |-> s]
  ELSE IF Free_Enabled(s, ids[i]) THEN FreeEach(Free_Do(s, ids[i]), ids, i + 1) ELSE [ok |-> FALSE, st |-> s]

(* ---- the next-state relation as a whole (for a finite block universe B) --------------------- *)
NextRel(s, t, B, MaxReclaim) ==
  \/ \E c \in CallKinds : Call_Enabled(s, c) /\ t = Call_Do(s, c)
  \/ \E b \in B : Alloc_Enabled(s, b) /\ t = Alloc_Do(s, b)
  \/ Fail_Enabled(s, s.nreq + 1) /\ t = Fail_Do(s)
  \/ \E b \in B : Free_Enabled(s, b) /\ t = Free_Do(s, b)
  \/ \E r \in Statuses : Return_Enabled(s, r) /\ t = Return_Do(s, r)
  \/ Destroy_Enabled(s) /\ t = Destroy_Do(s)
  \/ Shutdown_Enabled(s) /\ t = Shutdown_Do(s)
  \/ \E n \in 0..MaxReclaim : Discard_Enabled(s, n) /\ t = Discard_Do(s)
  \/ Probe_Enabled(s, TRUE) /\ t = Probe_Do(s)
  \/ Exit_Enabled(s, TRUE) /\ t = Exit_Do(s)

(* ---- what the guards add up to ------------------------------------------------------------ *)
TypeOK(s, B) ==
  /\ s.live \subseteq B /\ s.plive \subseteq B /\ s.live \cap s.plive = {}
  /\ s.call \in CallKinds \cup {"none"} /\ s.tr \in {"none", "alive", "gone"}
  /\ s.proc \in {"off", "on", "elsewhere"} /\ s.mgr \in {"open", "discarded"}
  /\ s.probe \in {"none", "ok"} /\ s.done \in BOOLEAN /\ s.failed \in BOOLEAN
Balanced(s) ==        \* without a refused request nothing of a destroyed object is outstanding
  ~s.failed => /\ (s.tr # "alive" /\ s.call \notin {"create", "destroy"} => s.live = {})
               /\ (s.proc # "on" /\ ~ProcessCall(s) => s.plive = {})
DiscardedIsEmpty(s) == s.mgr = "discarded" => Outstanding(s) = {} /\ s.call = "none" /\ s.tr # "alive"
FailureIsOneShot(s) == s.failed <=> (s.failAt # 0 /\ s.nreq >= s.failAt)
=============================================================================
