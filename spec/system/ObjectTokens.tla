---------------------------- MODULE ObjectTokens ----------------------------
(* The finite vocabulary on which ValueObjects / ObjectFactoryImpl are checked and replayed: tokens for numbers and strings and the   *)
(* conversion tables between them.  harness/xobj.cpp realises them: "Z" is -0.0, "1h" is 1.5, "B" is 123456789 (the value the          *)
(* node-set class uses as "no number cached"), the string "B" is the numeral 123456789.                                                *)
MCNums == {"0", "Z", "1h", "NaN", "B", "2"}           \* 0.0, -0.0, 1.5, NaN, 123456789, 2
MCStrs == {"", "2", "x", "0", "B", "NaN", "1.5"}
MCNumOfStr == [s \in MCStrs |-> CASE s = "2" -> "2" [] s = "0" -> "0" [] s = "B" -> "B" [] s = "1.5" -> "1h" [] OTHER -> "NaN"]
MCStrOfNum == [n \in MCNums |-> CASE n = "0" -> "0" [] n = "Z" -> "0" [] n = "1h" -> "1.5" [] n = "NaN" -> "NaN" [] n = "B" -> "B" [] n = "2" -> "2"]
MCTruth == [n \in MCNums |-> n \notin {"0", "Z", "NaN"}]
MCSame(a, b) == a # "NaN" /\ b # "NaN" /\ (a = b \/ {a, b} = {"0", "Z"})
=============================================================================
