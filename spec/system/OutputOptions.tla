--------------------------- MODULE OutputOptions ---------------------------
(* C08 - "output options change only the lexical form, never the content".                              *)
(*                                                                                                      *)
(* A result tree is a sequence of nodes (tagged records, strings = sequences of code points):           *)
(*   [k |-> "elem", name, attrs (sequence of <<name, value>>), kids]   [k |-> "text", v]                *)
(*   [k |-> "comment", v]   [k |-> "pi", name, v]                                                       *)
(* in canonical form: adjacent text nodes merged, no empty text node.  The trees compared here are      *)
(* what an independent parser (expat / html.parser) read back from the bytes the processor wrote.       *)
(*                                                                                                      *)
(* The option vector is everything a user can say about the output: the xsl:output attributes and the   *)
(* XalanTransformer overrides.  `OptionProduct` is the configuration space the conformance run draws    *)
(* from (TLC enumerates it, MC_OutputOptions).                                                          *)
EXTENDS Integers, Sequences, FiniteSets

(* ------------------------------------------------------------------------------ option vector ------- *)
Methods      == {"none", "xml", "html", "text"}          \* "none": no method attribute
YesNoAbsent  == {"absent", "yes", "no"}
Encodings    == {"absent", "UTF-8", "UTF-16", "ISO-8859-1", "US-ASCII"}
Doctypes     == {"none", "system", "public", "publiconly"}
Versions     == {"absent", "1.0", "1.1"}
Overrides    == {"default", "no", "yes"}

IsOptionVector(o) ==
  /\ o.method \in Methods /\ o.indent \in YesNoAbsent /\ o.indentAmount \in -1..8
  /\ o.encoding \in Encodings /\ o.omitDecl \in YesNoAbsent /\ o.standalone \in YesNoAbsent
  /\ o.doctype \in Doctypes /\ o.version \in Versions
  /\ o.setIndent \in -1..8                                \* -1: XalanTransformer::setIndent not called
  /\ o.setEncoding \in (Encodings \ {"absent"}) \cup {""} \* "": setOutputEncoding not called
  /\ o.setOmitMeta \in Overrides /\ o.setEscapeURLs \in Overrides

(* the vector every other one is compared with *)
RefOpts == [method |-> "xml", indent |-> "no", indentAmount |-> -1, encoding |-> "UTF-8", omitDecl |-> "absent",
            standalone |-> "absent", doctype |-> "none", cdata |-> <<>>, version |-> "absent",
            setIndent |-> -1, setEncoding |-> "", setOmitMeta |-> "default", setEscapeURLs |-> "default"]

(* -- what the vector MEANS (XSLT 1.0 section 16 + the documented meaning of the Xalan extensions) -- *)
Lower(c)      == IF c \in 65..90 THEN c + 32 ELSE c
LowerS(s)     == [i \in 1..Len(s) |-> Lower(s[i])]
HtmlName      == <<104, 116, 109, 108>>
RootElems(t)  == SelectSeq(t, LAMBDA n : n.k = "elem")
(* 16: "the default is html if the root node has an element child whose name is html (any case) ..." *)
EffMethod(o, ref) ==
  IF o.method # "none" THEN o.method
  ELSE IF RootElems(ref) # <<>> /\ LowerS(RootElems(ref)[1].name) = HtmlName THEN "html" ELSE "xml"
EffEncoding(o) == IF o.setEncoding # "" THEN o.setEncoding
                  ELSE IF o.encoding # "absent" THEN o.encoding ELSE "UTF-8"
(* indentation has been asked for: indent="yes", the html default, an indent amount (xalan:indent-amount or *)
(* XalanTransformer::setIndent(n >= 0))                                                                    *)
IndentOn(o, m) == \/ o.setIndent >= 0 \/ o.indentAmount >= 0 \/ o.indent = "yes"
                  \/ (m = "html" /\ o.indent # "no")
OmitMeta(o)    == o.setOmitMeta = "yes"
EscapeURLs(o)  == o.setEscapeURLs # "no"                 \* escaping is the default (16.2 "should escape")

(* the configuration space: every combination of the settings that bear on the effective method, with the  *)
(* settings that cannot bear on it left at their default (text output has no markup to indent, ...)        *)
IndentCfgs == {<<"absent", -1, -1>>, <<"no", -1, -1>>, <<"yes", -1, -1>>, <<"yes", 2, -1>>, <<"absent", -1, 3>>, <<"no", -1, 0>>}
EncCfgs    == {<<"absent", "">>, <<"UTF-16", "">>, <<"ISO-8859-1", "">>, <<"US-ASCII", "">>, <<"absent", "ISO-8859-1">>, <<"UTF-16", "US-ASCII">>}
HeadCfgs   == {<<"absent", "absent">>, <<"yes", "absent">>, <<"absent", "yes">>, <<"yes", "no">>}
Mk(m, ic, ec, hc, dt, cd, v, om, eu) ==
  [method |-> m, indent |-> ic[1], indentAmount |-> ic[2], setIndent |-> ic[3], encoding |-> ec[1], setEncoding |-> ec[2],
   omitDecl |-> hc[1], standalone |-> hc[2], doctype |-> dt, cdata |-> cd, version |-> v, setOmitMeta |-> om, setEscapeURLs |-> eu]
XmlProduct  == {Mk("xml", ic, ec, hc, dt, cd, v, "default", "default") :
                  ic \in IndentCfgs \ {<<"absent", -1, -1>>}, ec \in EncCfgs, hc \in HeadCfgs \ {<<"yes", "no">>},
                  dt \in {"none", "system", "public"}, cd \in {<<>>, <<"c">>}, v \in {"absent", "1.1"}}
NoneProduct == {Mk("none", ic, ec, <<"absent", "absent">>, dt, cd, "absent", om, eu) :
                  ic \in {<<"absent", -1, -1>>, <<"yes", 2, -1>>, <<"no", -1, -1>>}, ec \in {<<"absent", "">>, <<"US-ASCII", "">>},
                  dt \in {"none", "publiconly"}, cd \in {<<>>, <<"c">>}, om \in {"default", "yes"}, eu \in {"default", "no"}}
               \cup {Mk("none", <<"absent", -1, -1>>, <<"absent", "">>, <<"yes", "no">>, "none", <<>>, "1.0", "default", "default")}
HtmlProduct == {Mk("html", ic, ec, <<"absent", "absent">>, dt, cd, "absent", om, eu) :
                  ic \in {<<"absent", -1, -1>>, <<"no", -1, -1>>, <<"absent", -1, 3>>}, ec \in EncCfgs \ {<<"UTF-16", "US-ASCII">>},
                  dt \in {"none", "public"}, cd \in {<<>>, <<"c">>}, om \in Overrides, eu \in Overrides}
TextProduct == {Mk("text", ic, ec, <<"absent", "absent">>, "none", <<>>, "absent", "default", "default") :
                  ic \in {<<"absent", -1, -1>>, <<"yes", 2, -1>>}, ec \in EncCfgs}
OptionProduct == XmlProduct \cup NoneProduct \cup HtmlProduct \cup TextProduct

(* --------------------------------------------------------------------------------- trees ------------ *)
IsWsChar(c) == c \in {9, 10, 13, 32}
IsWs(s)     == \A i \in 1..Len(s) : IsWsChar(s[i])
IsText(n)   == n.k = "text"
WsText(n)   == n.k = "text" /\ IsWs(n.v)
AttrSet(as) == {<<as[i][1], as[i][2]>> : i \in 1..Len(as)}
HasNonWsText(kids) == \E i \in 1..Len(kids) : IsText(kids[i]) /\ ~IsWs(kids[i].v)

(* SameContent(ref, t, indentOn): t is ref, except that - only when indentation was asked for - t may hold  *)
(* ADDITIONAL whitespace-only text nodes BETWEEN TAGS: both neighbours of such a node are mark-up (an       *)
(* element, comment, PI, or the start / end tag of the parent), never a text node of ref - in a canonical   *)
(* tree whitespace written next to a text node has become part of that node, and then the node differs.     *)
(* Nothing may be inserted into an element that is empty in ref.  Existing text nodes, attribute values,    *)
(* names, comments and PIs are identical.  `strict` adds the recommendation of XSLT 16.1 ("not safe ...     *)
(* with mixed content"): nothing is inserted among the children of an element that has a non-whitespace     *)
(* text child.  The property C08 promises the first relation only (strict = FALSE).                         *)
RECURSIVE SameKidsX(_, _, _, _, _)
SameNodeX(r, t, ind, strict) ==
  /\ r.k = t.k
  /\ CASE r.k = "elem" -> /\ r.name = t.name /\ AttrSet(r.attrs) = AttrSet(t.attrs) /\ Len(r.attrs) = Len(t.attrs)
                          /\ SameKidsX(r.kids, t.kids, ind /\ r.kids # <<>> /\ (strict => ~HasNonWsText(r.kids)), ind, strict)
       [] r.k = "pi"   -> r.name = t.name /\ r.v = t.v
       [] OTHER        -> r.v = t.v
(* here: may whitespace be inserted among THESE siblings; ind: the option, handed down *)
SameKidsX(r, t, here, ind, strict) ==
  IF t = <<>> THEN r = <<>>
  ELSE IF here /\ WsText(t[1]) /\ (r = <<>> \/ ~IsText(r[1]))
       THEN SameKidsX(r, Tail(t), here, ind, strict)                    \* an inserted node: what follows in ref is a tag
       ELSE /\ r # <<>>
            /\ SameNodeX(r[1], t[1], ind, strict)
            /\ SameKidsX(Tail(r), Tail(t), here, ind, strict)

SameContent(ref, t, indentOn)       == SameKidsX(ref, t, indentOn, indentOn, FALSE)
SameContentStrict(ref, t, indentOn) == SameKidsX(ref, t, indentOn, indentOn, TRUE)

(* ------------------------------------------------------------------------------ method = text ------- *)
RECURSIVE TextOfKids(_)
TextOfNode(n) == IF n.k = "text" THEN n.v ELSE IF n.k = "elem" THEN TextOfKids(n.kids) ELSE <<>>
TextOfKids(s) == IF s = <<>> THEN <<>> ELSE TextOfNode(s[1]) \o TextOfKids(Tail(s))
(* 16.3: the string-value of every text node in document order, no escaping, in the requested encoding *)
TextOf(ref) == TextOfKids(ref)

MaxCode(enc) == CASE enc = "US-ASCII" -> 127 [] enc = "ISO-8859-1" -> 255 [] OTHER -> 1114111
RepresentableIn(s, enc) == \A i \in 1..Len(s) : s[i] <= MaxCode(enc)

(* 16.1: a character the encoding cannot represent becomes a character reference - except where XML knows no *)
(* character references: "in the value of a processing instruction node or comment node ... the XSLT          *)
(* processor should signal an error".  There an error is the conforming outcome of an encoding change.        *)
RECURSIVE MarkupRepresentable(_, _)
MarkupRepresentable(kids, enc) ==
  \A i \in 1..Len(kids) :
     CASE kids[i].k \in {"comment", "pi"} -> RepresentableIn(kids[i].v, enc)
       [] kids[i].k = "elem" -> MarkupRepresentable(kids[i].kids, enc)
       [] OTHER -> TRUE

(* 16.2: "The html output method should not perform escaping for the content of the script and style        *)
(* elements" - so there are no character references there either: a character of such content that the       *)
(* encoding cannot represent cannot be written at all, and an error is the conforming outcome.                 *)
ScriptName == <<115, 99, 114, 105, 112, 116>>      StyleName == <<115, 116, 121, 108, 101>>
RECURSIVE HtmlRawRepresentable(_, _, _)
HtmlRawRepresentable(kids, enc, inRaw) ==
  \A i \in 1..Len(kids) :
     CASE kids[i].k = "text" -> ~inRaw \/ RepresentableIn(kids[i].v, enc)
       [] kids[i].k = "elem" -> HtmlRawRepresentable(kids[i].kids, enc, inRaw \/ LowerS(kids[i].name) \in {ScriptName, StyleName})
       [] OTHER -> TRUE

(* ------------------------------------------------------------------------------ method = html ------- *)
VoidElems == {"br", "hr", "img", "input", "meta", "link", "area", "base", "col", "param"}
(* %URI; attributes of HTML 4.01 *)
UrlAttrNames == {<<104,114,101,102>>, <<115,114,99>>, <<97,99,116,105,111,110>>, <<99,105,116,101>>,
                 <<99,111,100,101,98,97,115,101>>, <<100,97,116,97>>, <<108,111,110,103,100,101,115,99>>,
                 <<117,115,101,109,97,112>>, <<98,97,99,107,103,114,111,117,110,100>>, <<99,108,97,115,115,105,100>>,
                 <<112,114,111,102,105,108,101>>}
HexDigit(n) == IF n < 10 THEN 48 + n ELSE 55 + n
Pct(b)      == <<37, HexDigit(b \div 16), HexDigit(b % 16)>>
(* B.2.1 of HTML 4: the UTF-8 bytes of the character, each written %HH *)
PctUtf8(c) ==
  IF c < 128 THEN Pct(c)
  ELSE IF c < 2048 THEN Pct(192 + (c \div 64)) \o Pct(128 + (c % 64))
  ELSE IF c < 65536 THEN Pct(224 + (c \div 4096)) \o Pct(128 + ((c \div 64) % 64)) \o Pct(128 + (c % 64))
  ELSE Pct(240 + (c \div 262144)) \o Pct(128 + ((c \div 4096) % 64)) \o Pct(128 + ((c \div 64) % 64)) \o Pct(128 + (c % 64))
(* characters that cannot stand for themselves in a URI (RFC 2396 2.4.3: control, non-ASCII, the quote) *)
MayEscape(c) == c > 126 \/ c < 32 \/ c = 34
RECURSIVE UriMatch(_, _)
UriMatch(v, tv) ==
  IF v = <<>> THEN tv = <<>>
  ELSE \/ (tv # <<>> /\ tv[1] = v[1] /\ UriMatch(Tail(v), Tail(tv)))
       \/ (MayEscape(v[1]) /\ LET e == PctUtf8(v[1]) IN
             /\ Len(tv) >= Len(e) /\ SubSeq(tv, 1, Len(e)) = e
             /\ UriMatch(Tail(v), SubSeq(tv, Len(e) + 1, Len(tv))))

Minimised == <<0>>            \* value marker of an attribute written without a value (<option selected>)
HtmlAttrValueOK(name, v, tv, o) ==
  \/ tv = v
  \/ (tv = Minimised /\ (v = <<>> \/ LowerS(v) = LowerS(name)))                  \* boolean attribute minimised
  \/ (EscapeURLs(o) /\ LowerS(name) \in UrlAttrNames /\ UriMatch(v, tv))          \* 16.2 URI escaping
HtmlAttrsOK(ra, ta, o) ==
  /\ Len(ra) = Len(ta)
  /\ \A i \in 1..Len(ra) : \E j \in 1..Len(ta) :
        LowerS(ra[i][1]) = LowerS(ta[j][1]) /\ HtmlAttrValueOK(ra[i][1], ra[i][2], ta[j][2], o)

CharsetPrefix == <<116,101,120,116,47,104,116,109,108,59,32,99,104,97,114,115,101,116,61>>   \* "text/html; charset="
HttpEquiv     == <<104,116,116,112,45,101,113,117,105,118>>
ContentType   == <<99,111,110,116,101,110,116,45,116,121,112,101>>
MetaName      == <<109,101,116,97>>
HeadName      == <<104,101,97,100>>
(* the META element the html method adds right after <head> (16.2) *)
IsInsertedMeta(n) ==
  /\ n.k = "elem" /\ LowerS(n.name) = MetaName /\ n.kids = <<>>
  /\ \E i \in 1..Len(n.attrs) : LowerS(n.attrs[i][1]) = HttpEquiv /\ LowerS(n.attrs[i][2]) = ContentType

RECURSIVE HtmlKids(_, _, _, _, _)
HtmlNode(r, t, ind, o) ==
  /\ r.k = t.k
  /\ CASE r.k = "elem" ->
            /\ LowerS(r.name) = LowerS(t.name) /\ HtmlAttrsOK(r.attrs, t.attrs, o)
            /\ LET here == ind /\ r.kids # <<>>
                   plain == HtmlKids(r.kids, t.kids, here, ind, o)
                   (* <head>: [inserted whitespace] META [rest]; the META is absent when its omission was requested *)
                   k == IF t.kids # <<>> /\ WsText(t.kids[1]) /\ ind THEN 2 ELSE 1
                   meta == /\ LowerS(r.name) = HeadName /\ ~OmitMeta(o)
                           /\ Len(t.kids) >= k /\ IsInsertedMeta(t.kids[k])
                           /\ HtmlKids(r.kids, SubSeq(t.kids, k + 1, Len(t.kids)), ind, ind, o)
               IN plain \/ meta
       [] r.k = "pi"   -> r.name = t.name /\ r.v = t.v
       [] OTHER        -> r.v = t.v                    \* text (script/style content read raw by the HTML parser), comments
HtmlKids(r, t, here, ind, o) ==
  IF t = <<>> THEN r = <<>>
  ELSE IF here /\ WsText(t[1]) /\ (r = <<>> \/ ~IsText(r[1]))
       THEN HtmlKids(r, Tail(t), here, ind, o)
       ELSE /\ r # <<>>
            /\ HtmlNode(r[1], t[1], ind, o)
            /\ HtmlKids(Tail(r), Tail(t), here, ind, o)
(* the HTML parse of the bytes is the tree: names case-insensitive, void elements without end tag (the parser *)
(* rejects </br>), boolean attributes possibly minimised, URI attributes possibly %-escaped, the META tolerated *)
HtmlSame(ref, t, o) == LET ind == IndentOn(o, "html") IN HtmlKids(ref, t, ind, ind, o)

(* ---------------------------------------------------------------- lexical items the options DO govern --- *)
EncName(s) == s        \* encoding names are compared as written (TLC strings), case as requested
DeclOK(o, decl) ==
  decl.present =>
    /\ decl.version = (IF o.version = "1.1" THEN "1.1" ELSE "1.0")
    /\ decl.standalone = o.standalone
DoctypeOK(o, dt, ref, m) ==
  LET want == IF m = "html" THEN o.doctype # "none" ELSE o.doctype \in {"system", "public"} IN
  /\ dt.present = (want /\ RootElems(ref) # <<>>)
  /\ dt.present =>
       /\ dt.sys = (IF o.doctype \in {"system", "public"} THEN "c08.dtd" ELSE "")
       /\ dt.pub = (IF o.doctype \in {"public", "publiconly"} THEN "-//C08//DTD T 1.0//EN" ELSE "")
=============================================================================
