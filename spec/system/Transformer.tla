------------------------------ MODULE Transformer ------------------------------
(* Life cycle of ONE XalanTransformer as its user sees it (property C06).                          *)
(*                                                                                                 *)
(* The only things a transformer remembers between calls are                                       *)
(*    params   the sticky top-level parameters: name -> value ("none" = not set); they stay set    *)
(*             until clearStylesheetParams(), and the LAST value set for a name is the current one *)
(*    fns      the installed external functions                                                    *)
(*    liveSS / liveSrc   the compiled stylesheets / parsed sources it still owns                   *)
(*             (handle -> document; handles are numbered in order of creation: nSS, nSrc)          *)
(*    lastError  whether getLastError() is non-empty: TRUE exactly when the last compile / parse / *)
(*             transform call failed                                                               *)
(*    residue0 (optional, hook H1) the vector of logical sizes of the execution context's stacks,   *)
(*             caches and counters as measured on the newly constructed transformer (event New);   *)
(*             every later event that reports a residue must report this same vector: a leak is    *)
(*             caught at the call that causes it, not only when a later stylesheet observes it     *)
(* `oracle` is not state of the transformer: it is what is known about NEWLY CREATED transformers, *)
(* learned from Fresh events: <<"T", stylesheet, source, params, fns>> -> [status, out].           *)
(* The property: every transformation returns exactly oracle[stylesheet, source, params and        *)
(* functions at that time] - status and output bytes - whatever happened before on this object.    *)
(*                                                                                                 *)
(* The machine is given once, as a function  Step(st, ev) = [ok, st, msg]  over state records and  *)
(* event records (call arguments + what was observed): the actions below, the model checker        *)
(* (MC_Transformer) and the validation of traces of the real code (Trace_C06) all use this one     *)
(* definition.  `.st` depends on the call (and on whether a compile / parse produced a handle)     *)
(* only; `.ok` says whether the observation is the one the specification allows.                   *)
EXTENDS Naturals, Integers, Sequences, FiniteSets, TLC

CONSTANTS PNames,      \* parameter names
          PVals,       \* names of the values a parameter can be set to
          FNames       \* external functions that can be installed

VARIABLES params, fns, liveSS, nSS, liveSrc, nSrc, lastError, oracle, residue0

NoFn == [x \in {} |-> x]                         \* the empty function

Init0 == [params |-> [k \in PNames |-> "none"], fns |-> [f \in FNames |-> FALSE],
          liveSS |-> NoFn, nSS |-> 0, liveSrc |-> NoFn, nSrc |-> 0,
          lastError |-> FALSE, oracle |-> NoFn, residue0 |-> <<>>]

TypeOK(s) == /\ s.params \in [PNames -> PVals \cup {"none"}]
             /\ s.fns \in [FNames -> BOOLEAN]
             /\ DOMAIN s.liveSS \subseteq 1..s.nSS /\ DOMAIN s.liveSrc \subseteq 1..s.nSrc
             /\ s.lastError \in BOOLEAN

Restrict(f, S) == [x \in S |-> f[x]]
Has(ev, field) == field \in DOMAIN ev

(* a stylesheet / source argument is a live handle [k |-> "h", h |-> n] or an inline document [k |-> "i", d |-> name] *)
RefLive(ref, live) == ref.k = "i" \/ (ref.k = "h" /\ ref.h \in DOMAIN live)
DocOf(ref, live)   == IF ref.k = "h" THEN live[ref.h] ELSE ref.d

TKey(ss, src, ps, fs) == <<"T", ss, src, ps, fs>>
(* what a call returns: status, output bytes and - for a failed call, when the event carries it - the *)
(* text of the error message                                                                          *)
Outcome(ev) == [status |-> ev.status, out |-> ev.out,
                msg |-> IF ev.status # 0 /\ Has(ev, "msg") THEN ev.msg ELSE ""]

(* getLastError() after the call, when the event reports it (it always does in a recorded trace) *)
ErrIs(ev, nonEmpty) == Has(ev, "errEmpty") => (ev.errEmpty = ~nonEmpty)

R(ok, s, msg) == [ok |-> ok, st |-> s, msg |-> msg]

StepCompile(s, ev) ==
  IF ev.status = 0
  THEN R(Has(ev, "h") /\ ev.h = s.nSS + 1 /\ ErrIs(ev, FALSE),
         [s EXCEPT !.nSS = @ + 1, !.liveSS = (s.nSS + 1 :> ev.ss) @@ @, !.lastError = FALSE],
         "successful compile: handles are numbered consecutively and the error message is empty")
  ELSE R(~Has(ev, "h") /\ ErrIs(ev, TRUE), [s EXCEPT !.lastError = TRUE],
         "failed compile: no handle, error message not empty")

StepParse(s, ev) ==
  IF ev.status = 0
  THEN R(Has(ev, "h") /\ ev.h = s.nSrc + 1 /\ ErrIs(ev, FALSE),
         [s EXCEPT !.nSrc = @ + 1, !.liveSrc = (s.nSrc + 1 :> ev.src) @@ @, !.lastError = FALSE],
         "successful parse: handles are numbered consecutively and the error message is empty")
  ELSE R(~Has(ev, "h") /\ ErrIs(ev, TRUE), [s EXCEPT !.lastError = TRUE],
         "failed parse: no handle, error message not empty")

(* calls that are not transformations leave the error message alone *)
StepSetParam(s, ev) ==
  R(ev.k \in PNames /\ ev.v \in PVals /\ ErrIs(ev, s.lastError), [s EXCEPT !.params[ev.k] = ev.v], "setStylesheetParam")
StepClearParams(s, ev) ==
  R(ErrIs(ev, s.lastError), [s EXCEPT !.params = [k \in PNames |-> "none"]], "clearStylesheetParams")
StepInstallFn(s, ev) ==
  R(ev.f \in FNames /\ ErrIs(ev, s.lastError), [s EXCEPT !.fns[ev.f] = TRUE], "installExternalFunction")
StepUninstallFn(s, ev) ==
  R(ev.f \in FNames /\ ErrIs(ev, s.lastError), [s EXCEPT !.fns[ev.f] = FALSE], "uninstallExternalFunction")

(* destroying a live handle succeeds; a handle that is not live is never passed in (caller obligation) *)
StepDestroySS(s, ev) ==
  IF ev.h \in DOMAIN s.liveSS
  THEN R(ev.status = 0 /\ ErrIs(ev, s.lastError), [s EXCEPT !.liveSS = Restrict(@, DOMAIN @ \ {ev.h})], "destroyStylesheet of a live handle returns 0")
  ELSE R(FALSE, s, "destroyStylesheet: the handle is not live (generator / harness error)")
StepDestroySrc(s, ev) ==
  IF ev.h \in DOMAIN s.liveSrc
  THEN R(ev.status = 0 /\ ErrIs(ev, s.lastError), [s EXCEPT !.liveSrc = Restrict(@, DOMAIN @ \ {ev.h})], "destroyParsedSource of a live handle returns 0")
  ELSE R(FALSE, s, "destroyParsedSource: the handle is not live (generator / harness error)")

(* THE property: the transformation of (stylesheet, source) under the current params and functions   *)
(* returns what a newly created transformer returns, and reports an error message iff it failed.     *)
StepTransform(s, ev) ==
  IF ~(RefLive(ev.ss, s.liveSS) /\ RefLive(ev.src, s.liveSrc))
  THEN R(FALSE, s, "transform: a handle that is not live was used (generator / harness error)")
  ELSE LET key == TKey(DocOf(ev.ss, s.liveSS), DocOf(ev.src, s.liveSrc), s.params, s.fns)
           s2 == [s EXCEPT !.lastError = (ev.status # 0)]
       IN IF key \notin DOMAIN s.oracle
          THEN R(FALSE, s2, "transform: no Fresh event for " \o ToString(key))
          ELSE IF Outcome(ev) # s.oracle[key]
          THEN R(FALSE, s2, "transform " \o ToString(key) \o " returned status " \o ToString(ev.status) \o
                            " but a fresh transformer returns " \o ToString(s.oracle[key].status) \o
                            (IF ev.status = s.oracle[key].status
                             THEN IF ev.out = s.oracle[key].out THEN " (error messages differ)" ELSE " (outputs differ)" ELSE ""))
          ELSE R(ErrIs(ev, ev.status # 0), s2, "transform: getLastError() must be non-empty exactly when the call failed")

(* what a newly created transformer returns; a function of its inputs (two Fresh events agree) *)
StepFresh(s, ev) ==
  LET key == TKey(ev.ss, ev.src, ev.params, ev.fns) IN
  IF key \in DOMAIN s.oracle
  THEN R(s.oracle[key] = Outcome(ev), s, "two fresh transformers disagree on " \o ToString(key))
  ELSE R(ErrIs(ev, ev.status # 0), [s EXCEPT !.oracle = (key :> Outcome(ev)) @@ @],
         "fresh transformer: getLastError() must be non-empty exactly when the call failed")

(* hook H1: the residue vector of the new transformer; <<>> = not measured *)
StepNew(s, ev) == R(TRUE, [s EXCEPT !.residue0 = IF Has(ev, "residue") THEN ev.residue ELSE <<>>], "new transformer")

FirstDiff(a, b) == IF Len(a) # Len(b) THEN 0 ELSE CHOOSE i \in 1..Len(a) : a[i] # b[i] /\ \A j \in 1..(i - 1) : a[j] = b[j]
ResidueOk(s, ev) == (Has(ev, "residue") /\ s.residue0 # <<>>) => ev.residue = s.residue0

StepCall(s, ev) ==
  CASE ev.e = "Compile"     -> StepCompile(s, ev)
    [] ev.e = "Parse"       -> StepParse(s, ev)
    [] ev.e = "SetParam"    -> StepSetParam(s, ev)
    [] ev.e = "ClearParams" -> StepClearParams(s, ev)
    [] ev.e = "InstallFn"   -> StepInstallFn(s, ev)
    [] ev.e = "UninstallFn" -> StepUninstallFn(s, ev)
    [] ev.e = "DestroySS"   -> StepDestroySS(s, ev)
    [] ev.e = "DestroySrc"  -> StepDestroySrc(s, ev)
    [] ev.e = "Transform"   -> StepTransform(s, ev)
    [] ev.e = "Fresh"       -> StepFresh(s, ev)
    [] ev.e = "New"         -> StepNew(s, ev)
    [] OTHER                -> R(FALSE, s, "unknown event")

(* nothing else carries over: after every call the residue is the one of the new transformer *)
Step(s, ev) ==
  LET r == StepCall(s, ev) IN
  IF r.ok /\ ev.e # "New" /\ ~ResidueOk(s, ev)
  THEN R(FALSE, r.st, "residue: after this call entry " \o ToString(FirstDiff(ev.residue, s.residue0)) \o
                      " of the execution context's residue vector is " \o ToString(ev.residue) \o
                      ", on the new transformer it was " \o ToString(s.residue0))
  ELSE r

(* ---- the same machine as TLA+ actions over the variables ------------------------------------- *)
St == [params |-> params, fns |-> fns, liveSS |-> liveSS, nSS |-> nSS, liveSrc |-> liveSrc, nSrc |-> nSrc,
       lastError |-> lastError, oracle |-> oracle, residue0 |-> residue0]
vars == <<params, fns, liveSS, nSS, liveSrc, nSrc, lastError, oracle, residue0>>

Becomes(s) == /\ params' = s.params /\ fns' = s.fns /\ liveSS' = s.liveSS /\ nSS' = s.nSS
              /\ liveSrc' = s.liveSrc /\ nSrc' = s.nSrc /\ lastError' = s.lastError /\ oracle' = s.oracle
              /\ residue0' = s.residue0

Init == /\ params = Init0.params /\ fns = Init0.fns /\ liveSS = Init0.liveSS /\ nSS = 0
        /\ liveSrc = Init0.liveSrc /\ nSrc = 0 /\ lastError = FALSE /\ oracle = Init0.oracle
        /\ residue0 = <<>>

(* an event is a step of the transformer iff the specification allows the observation *)
Apply(ev) == Step(St, ev).ok /\ Becomes(Step(St, ev).st)

Compile(s, status, h)      == Apply(IF status = 0 THEN [e |-> "Compile", ss |-> s, status |-> 0, h |-> h]
                                                  ELSE [e |-> "Compile", ss |-> s, status |-> status])
Parse(d, status, h)        == Apply(IF status = 0 THEN [e |-> "Parse", src |-> d, status |-> 0, h |-> h]
                                                  ELSE [e |-> "Parse", src |-> d, status |-> status])
SetParam(k, v)             == Apply([e |-> "SetParam", k |-> k, v |-> v])
ClearParams                == Apply([e |-> "ClearParams"])
InstallFn(f)               == Apply([e |-> "InstallFn", f |-> f])
UninstallFn(f)             == Apply([e |-> "UninstallFn", f |-> f])
DestroySS(h)               == Apply([e |-> "DestroySS", h |-> h, status |-> 0])
DestroySrc(h)              == Apply([e |-> "DestroySrc", h |-> h, status |-> 0])
Transform(ssRef, srcRef, status, out) ==
                              Apply([e |-> "Transform", ss |-> ssRef, src |-> srcRef, status |-> status, out |-> out])
Fresh(ss, src, ps, fs, status, out) ==
                              Apply([e |-> "Fresh", ss |-> ss, src |-> src, params |-> ps, fns |-> fs, status |-> status, out |-> out])

(* ---- consequences checked by MC_Transformer ---------------------------------------------------- *)
(* parameters persist: they change only by SetParam / ClearParams; functions only by Install / Uninstall;        *)
(* handles only by Compile / Parse (created) and Destroy (removed); a failing call changes nothing but lastError *)
OnlyLastErrorChanges(s, t) == [t EXCEPT !.lastError = s.lastError] = s
StickyStep(s, ev, t) ==
  /\ (t.params # s.params => ev.e \in {"SetParam", "ClearParams"})
  /\ (t.fns # s.fns => ev.e \in {"InstallFn", "UninstallFn"})
  /\ (t.liveSS # s.liveSS => ev.e \in {"Compile", "DestroySS"})
  /\ (t.liveSrc # s.liveSrc => ev.e \in {"Parse", "DestroySrc"})
  /\ (ev.e = "Transform" => OnlyLastErrorChanges(s, t))
  /\ (ev.e \in {"Compile", "Parse"} /\ ev.status # 0 => OnlyLastErrorChanges(s, t))
  /\ (t.oracle # s.oracle => ev.e = "Fresh")
=============================================================================
