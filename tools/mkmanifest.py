#!/usr/bin/env python3
"""Regenerates /verif/MANIFEST.json from the table below (single source, always schema-valid)."""
import json, os
ROOT = os.path.dirname(os.path.dirname(os.path.abspath(__file__)))

CHECKS = {
    "C12": dict(
        category="model_checking", design_ref="DESIGN.md §5 C12",
        text="TLC exhaustively checks that the transcribed MutableNodeRefList algorithm (NodeListImpl.tla) refines the abstract "
             "node-set contract (NodeList.tla) for all bounded operation histories over two documents (indexed, unindexed, mixed); "
             "one shortest history per transition of that state graph is replayed on the real class over native, Xerces-built and "
             "Xerces-lazy trees and every recorded step is validated by TLC against the abstract contract. Namespace nodes: from every element of "
             "documents with 1-4 declarations per element the namespace axis, its unions with itself / single nodes / attributes / children / self / "
             "parent and filtered subsets must all be delivered in the ONE order the axis shows (Trace_C12ns).",
        note="Trusted: TLC, the harness projection of nodes to (document, index), Python glue for sharding/classification. "
             "isNodeAfter is modelled as index comparison inside NodeListImpl.",
        technique="TLA+ refinement check (TLC) + per-transition behaviour replay + TLC trace validation"),
}

CHECKS["C02"] = dict(
    category="model_checking", design_ref="DESIGN.md §5 C02",
    text="XPathSem.tla is an executable definition of XPath 1.0 evaluation (axes, node tests, positional predicates, core functions, "
         "comparison matrix, IEEE arithmetic on an exact dyadic domain). TLC model-checks algebraic laws of the definition over every node of "
         "a bounded document family, and then acts as the oracle of trace validation: every recorded evaluation of the real evaluator "
         "(systematic families + seeded random typed expressions, rendered to text and run through XPathProcessorImpl/XPath::execute) must equal Eval.",
    note="Trusted: TLC; the AST-to-text renderer; the node-id projection of the harness. Numbers outside the dyadic domain (m/8, |x|<2^22) are dropped, "
         "not judged; namespace nodes never reach a delivered node-set here (C12 has them); key() and document() are C15's / C01's.",
    technique="TLA+ executable semantics (TLC) as oracle; trace validation of recorded evaluations; TLC-checked laws of the definition")
CHECKS["C11"] = dict(
    category="model_checking", design_ref="DESIGN.md §5 C11",
    text="For every op code of XPathExpression::eOpCodes that can head an expression (list read from the header at check time) and a matrix of "
         "operand shapes, the six public XPath::execute entry points are run on the same compiled expression; TLC recomputes the general value "
         "from XPathSem.tla and requires each typed result to be Convert(kind, value) - the standard boolean()/number()/string() conversion.",
    note="Trusted: TLC, renderer, harness projection. The general value itself is C02's subject.",
    technique="TLA+ executable semantics + conversion operators (TLC) validating recorded results of all six entry points")

CHECKS["C09"] = dict(
    category="model_checking", design_ref="DESIGN.md §5 C09",
    text="XPathSem!Matches is the XSLT 5.2 definition itself (exists an ancestor-or-self from which the pattern, evaluated as an expression, selects the node). "
         "Systematic and seeded random patterns ('/', '//', positional/boolean/nested predicates, every node test, id() heads, unions) are compiled with "
         "initMatchPattern and XPath::getMatchScore is asked for EVERY node of each document; TLC recomputes the match set from the definition and compares the sets. "
         "The same patterns as xsl:key match=P: key() must return exactly MatchSet(P) (KeyTable's own walk over elements, attributes and other nodes).",
    note="Trusted: TLC, renderer, node-id projection. PatternMatcherImpl.tla transcribes Xalan's right-to-left matcher (op-code compilation, stepPattern, "
         "doStepPredicate/handleFoundIndex); MC_Pattern checks it equals the definition except in named KD classes, each shown real. A rejected event is a KNOWN finding only "
         "if the recorded set equals the transcription's result and every differing node falls in a named class; anything else is a violation. "
         "Stylesheet-level uses of patterns are exercised in C10/C15/C17.",
    technique="TLA+ definition of pattern matching as oracle (TLC trace validation over all nodes) + implementation-shaped matcher model checked against it and used for exact triage")

CHECKS["C10"] = dict(
    category="model_checking", design_ref="DESIGN.md §5 C10",
    text="TemplateRules.tla defines XSLT 5.5/2.6.2/5.6: per-alternative default priorities, import precedence by post-order of the import tree, "
         "last-wins, built-in rules, apply-imports restricted to the modules imported into the current rule's module. Seeded rule sets with import trees are "
         "rendered to stylesheet files, every node and attribute is pushed through apply-templates and the TraceListener reports which xsl:template ran; "
         "TLC recomputes Winner / ImportsWinner (matching by the definition XPathSem!Matches) for every pick. PatternTablesImpl.tla transcribes how a module files "
         "its rules per node kind / name and both lookup loops of Stylesheet::findTemplate; MC_PatternTables checks them against 5.5 for every entry set, node and "
         "admissible match relation within bounds, and finds the repaired id()/key() filing defect again when the repair is switched off.",
    note="Trusted: TLC, stylesheet renderer, TraceListener line numbers as template identity, derivation of apply-imports extents from the trace. "
         "Both lookup paths are driven: XalanTransformer (quiet conflict warnings) and XSLTEngineImpl with setQuietConflictWarnings(false) (harness/xsltd.cpp).",
    technique="TLA+ definition of template conflict resolution evaluated by TLC; trace validation of TraceListener picks")

CHECKS["C15"] = dict(
    category="model_checking", design_ref="DESIGN.md §5 C15",
    text="XPathSem!KeyNodes is XSLT 12.2 (nodes of the context node's document that match a declaration of that name and have the value among the "
         "use values; union over a node-set argument). Seeded declaration sets and lookup sequences (string / node-set / number arguments, main and "
         "document()-loaded documents) are run in given, reversed and shuffled order; each lookup's delivered node list is observed through the "
         "TraceListener and must equal KeyNodes in document order, so a result that depends on lookup history is rejected.",
    note="Trusted: TLC, stylesheet renderer, TraceListener selection events, node-id projection (document numbering by first appearance).",
    technique="TLA+ definition of key() evaluated by TLC; trace validation of recorded lookups in permuted orders")

CHECKS["C16"] = dict(
    category="model_checking", design_ref="DESIGN.md §5 C16",
    text="Sort.tla defines the processing order under xsl:sort as the unique stable lexicographic order (NaN first for numbers, document order among equal keys, "
         "also under descending). TLC checks on the definition that it is a permutation, ordered, stable and total for all key assignments from a pool; "
         "seeded documents (0-7 siblings; every 8th 17-70 siblings with 2-3 values per key) and 1-3 keys (literal/AVT attributes) are run in for-each and apply-templates and the observed (node, position(), last()) sequence "
         "must equal Sorted.",
    note="Trusted: TLC, renderer, TraceListener selection events. Text keys restricted to [a-z0-9]* (collation = code point); case-order/lang not exercised.",
    technique="TLA+ definition of sorting model-checked for its facets; trace validation of observed processing order and positions")

CHECKS["C17"] = dict(
    category="model_checking", design_ref="DESIGN.md §5 C17",
    text="Numbering.tla defines the number list of XSLT 7.7 (single / multiple / any, count and from patterns or the default count) and the 7.7.1 conversion "
         "(tokens 1, 01, a, A, i, I, prefix/separators/suffix, token reuse). TLC checks the conversion laws for 1..5000; one xsl:number instruction instance then numbers "
         "the nodes of seeded documents in document, reverse and shuffled visiting order (so its counter cache is exercised) and every produced string must equal "
         "FormatList(NumberList(...)), whatever was numbered before.",
    note="Trusted: TLC, renderer, result-tree recorder. Cases where `from` matches nothing are not judged (undefined in XSLT 1.0); grouping separators and non-ASCII tokens not covered; "
         "deviations of the from handling are attributed per level (known findings).",
    technique="TLA+ definition of xsl:number evaluated by TLC; trace validation over permuted visiting orders; TLC-checked conversion laws")

CHECKS["C13"] = dict(
    category="model_checking", design_ref="DESIGN.md §5 C13",
    text="Strip.tla defines which whitespace-only text nodes the strip/preserve declarations select (import precedence, name-test priority, last wins) and "
         "RemoveNodes builds the physically stripped document. Every observation a stylesheet WITH the declarations makes (25 expressions over all axes, positions, "
         "counts, string values, from every element; xsl:copy-of of the document) is recomputed by TLC with XPathSem on the stripped document and must be equal.",
    note="Trusted: TLC, renderer, TraceListener selection events, result-tree recorder. xml:space in source documents is outside the property and kept out of the generators; "
         "keys and xsl:number over stripped documents are exercised only through their own checks.",
    technique="TLA+ definition of whitespace stripping + XPath semantics on the stripped document (TLC); trace validation of observations")

CHECKS["C01"] = dict(
    category="model_checking", design_ref="DESIGN.md §5 C01",
    text="XSLTSem.tla is an executable big-step definition of XSLT 1.0 instruction semantics (template rules with modes/priorities/params and built-in rules, "
         "apply-templates/for-each with sort and with-param, call-template, variables incl. result tree fragments, literal result elements with AVTs, "
         "xsl:element/attribute/comment/processing-instruction, if/choose, copy, copy-of) on top of XPathSem, TemplateRules and Sort. Seeded stylesheets nesting these "
         "to depth 3 are run by the real processor, the result tree is recorded from the FormatterListener events before any serializer, and TLC recomputes "
         "Transform(stylesheet, document) and compares canonical trees. XSLTSem also has import precedence / apply-imports, attribute sets, keys, strip-space, "
         "xsl:number and document(). Dedicated families: scoping, sorting, imports, attribute sets, multi-document, strip / copy; attribute value templates "
         "(AvtSyntax, every string <= 5/7 over a 5-character alphabet), format-number (FormatNumber), the namespace NODES of the result (ResultTree!NsNodeFaults), "
         "the stylesheet's own text nodes (StylesheetTree, every content sequence <= 4/5). VariablesStackImpl (the engine's variable stack) is model-checked against "
         "XSLT 11 scoping under every program within bounds and bound to the code by hook H2: every recorded stack operation must be the model's.",
    note="Trusted: TLC, stylesheet renderer, result-tree recorder and its canonicalisation. Result NAMES with namespaces are C14's; output escaping control is C04's. "
         "Cases whose definition value leaves the number model or is a dynamic error are not judged.",
    technique="TLA+ executable semantics of XSLT evaluated by TLC; trace validation of recorded result trees")

CHECKS["C07"] = dict(
    category="model_checking", design_ref="DESIGN.md §5 C07",
    text="TLC explores every interleaving of 2-3 threads of the sharing protocol (Sharing.tla / SharingImpl.tla: frozen objects, lazy fields, locks), including the expected "
         "counterexamples (on-demand bridge nodes, the lazily allocated list sentinel, the pool without mutex) that show RaceFree is not vacuous. The race condition is made "
         "schedule-independent in the real library: shared objects are built inside one mmap arena that is then made read-only; every store into it by any thread is trapped "
         "(SIGSEGV handler, single-step, re-protect) together with the thread's held-mutex count (interposed pthread_mutex_*), and TLC validates the recorded stores and the "
         "per-thread output hashes against the protocol rules.",
    note="Not observed: stores outside the arena (C++ statics, ICU, Xerces' own heap), reads (read-only races), and which mutex is held (any mutex counts). Trusted: TLC, "
         "glibc backtrace/dladdr call-site keys on the -O1 build, Linux mprotect/trap-flag semantics.",
    technique="TLA+ sharing protocol model-checked over all interleavings + TLC trace validation of trapped post-freeze stores (schedule-independent race detection)")
CHECKS["C19"] = dict(
    category="fault_enumeration", design_ref="DESIGN.md §5 C19",
    text="MemMgr.tla is the memory-manager contract (blocks of the supplied manager, process-level blocks of initialize(), one refused request, no foreign/double free, "
         "nothing live at destroy/shutdown, failure surfaces, discard + fresh transformer works). TLC model-checks it with vacuity guards and the lazy list-sentinel root cause; "
         "then every index k of allocate() is made the refused one, per scenario (compile, parse, transform from files/streams/compiled+parsed, failing transformations, reuse, "
         "initialize/terminate on the supplied manager), each in its own process, and TLC validates every execution's run-compressed Alloc/Free stream and outcome.",
    note="Trusted: TLC, harness/c19.cpp (fixed-address arena manager, ASLR off for determinism), backtrace/dladdr/c++filt for call-site keys, ASan/UBSan for a sample. "
         "Known findings are keyed by the semantic call site (top three library frames) of the std::terminate / signal, never by allocation index.",
    technique="TLA+ contract (TLC) + exhaustive fault enumeration over allocation indices, process per fault, each execution validated by TLC")

CHECKS["C20"] = dict(
    category="model_checking", design_ref="DESIGN.md §5 C20",
    text="TLC exhaustively checks that transcriptions of XalanMap/XalanSet, XalanVector, XalanDOMString, XalanList and XalanDeque (spec/impl/{Map,Vector,String,List,Deque}Impl.tla: "
         "buckets with stale references, free lists, rehash, compaction, growth, aliasing arguments, splice pointer assignments, block indices) refine set / sequence / function "
         "models (spec/core/Containers.tla) for all bounded operation histories. One shortest history per transition of those graphs (plus seeded random and simulated long "
         "histories) is replayed on the real templates in an ASan/UBSan build with an instance-counting element type, and TLC accepts every recorded step only if it is a step of "
         "the abstract model. XalanDOMStringPool / XalanDOMStringHashTable are driven against the pool contract of Containers.tla (prefix-closed strings in 1-2-101 buckets: "
         "every ordered triple, plus long seeded histories with clear()).",
    note="Trusted: TLC and CommunityModules; harness/c20.cpp incl. the Counted lifetime instrumentation and the observation projection; tools/tlaparse.py; faithfulness of the Impl "
         "transcriptions (they choose inputs, never expected values); ASan/UBSan for memory outside the container.",
    technique="TLC refinement check of implementation-shaped container transcriptions against abstract models + per-transition behaviour export replayed on the real templates (sanitizer build) + TLC trace validation")

CHECKS["C03"] = dict(
    category="exploration", design_ref="DESIGN.md §5 C03",
    text="ApiProtocol.tla states the call/return contract of every public entry point (P1 every call returns, P2 a non-zero status comes with a message, P3 must-fail input classes "
         "fail and must-succeed classes succeed, P4 the object still works afterwards: a Probe after every call, no leak at the end). TLC model-checks that the step-wise acceptor "
         "used for trace validation accepts exactly the sequences satisfying the contract (all event sequences <= 5/6) and enumerates the input classes (6191 descriptors: "
         "truncations, tag edits, illegal characters, broken UTF-8, unknown XSLT elements/attributes, non-expressions, deep nesting 100..100000, long names, number formats, "
         "XML declaration versions, 1-23 decimal formats in one run). "
         "Every rendered input is pushed through every entry point (XalanTransformer, both C APIs, XPathEvaluator) in an ASan/UBSan (incl. float-cast-overflow)/LSan build, process-isolated with a CPU-time "
         "limit, and TLC validates each recorded Call/Return/Probe/LeakCheck/Abort/Exit stream. TLA+ does not decide memory safety: the sanitizers are the observation instrument "
         "that turns undefined behaviour into a missing Return; the claim is bounded by the inputs executed; non-terminating stylesheets (programs) are excluded.",
    note="Trusted: tools/c03gen.py (renderer, cross-checked with expat), harness/c03.cpp (event logging, signal/terminate/sanitizer death callbacks), ASan/UBSan/LSan of GCC 12, TLC and "
         "the CommunityModules Json/IOUtils. An unlisted rejection becomes a VIOLATION only if it repeats when the input is run alone in its own process.",
    technique="TLA+ call/return contract (TLC: acceptor = contract, input-class enumeration) + sanitizer harness over every public entry point with a probe after every call + TLC trace validation + seeded byte-level fuzz")

CHECKS["C04"] = dict(
    category="model_checking", design_ref="DESIGN.md §5 C04",
    text="Serializer.tla states the obligation: either an error and the tree is not representable, or the bytes decode in the declared encoding and parse back "
         "(line-end and attribute-value normalisation applied) to exactly Tree(events); and the two serializers agree. TLC model-checks the transcribed escaping rules "
         "(SerializerImpl) and staging buffers (WriterBufferImpl, buffer 8 instead of 512: conservation, bounds, no split of a multi-unit sequence) against it, exports one "
         "operation history per buffer transition, and validates every recorded run of the factory serializer, the legacy FormatterToXML and XalanTransformer end to end "
         "(31 character classes x 6 encodings x 2 XML versions x 6 contexts, every offset 505..516 around the 512-unit buffer; a sample under ASan).",
    note="Trusted: expat (pyexpat) as the parser independent of Xerces, Python codecs, a Python XML 1.1 front end, the event-script renderer, the recording Writer subclasses, TLC. "
         "Not covered: indent, doctype/standalone options, namespace prefixes, windows-1252 U+0080..U+009F.",
    technique="TLA+ serializer obligation + transcribed escaping/buffer models (TLC) + per-transition behaviour replay + TLC trace validation with expat parse-back")
CHECKS["C06"] = dict(
    category="model_checking", design_ref="DESIGN.md §5 C06",
    text="TLC checks that XalanTransformer's transcribed bookkeeping (TransformerImpl: parameter holders, error buffer, EnsureReset) refines the abstract life cycle "
         "(Transformer.tla) for all bounded call histories (compile, parse, set/clear params, install/uninstall function, destroy, transform with 10 outcome classes) and "
         "exports one shortest history per view. Each is replayed on ONE real XalanTransformer and every distinct (stylesheet, source, params, functions) tuple on a newly "
         "constructed one; TLC accepts an execution only if every Transform equals the fresh result in status, output bytes and error text, and getLastError() is empty "
         "exactly when the call succeeded.",
    note="Trusted: TLC, harness/c06.cpp (reports calls and returns only), a fresh transformer in the same process as reference. Stacks that are only touched at the top leave "
         "no behavioural trace; the optional guarded hook hooks/H1-residue.patch (not applied) would expose them.",
    technique="TLA+ life-cycle model (TLC) + behaviour export (hist/VIEW/-dump) + TLC trace validation against fresh-transformer oracle")
CHECKS["C14"] = dict(
    category="model_checking", design_ref="DESIGN.md §5 C14",
    text="ResultTree.tla gives Requested (the expanded name each constructing instruction asks for, XSLT 7.1.1-7.1.4, 7.5, 11.3 incl. namespace-alias, attribute sets, "
         "exclude-result-prefixes) and Resolve (namespace resolution of the raw result tree with well-formedness faults). TLC checks exhaustively that the transcribed "
         "fix-up algorithm (NsFixupImpl) meets the obligations on every nest of <= 3 instructions except in named KD classes, each shown real by a witness; systematic and "
         "seeded stylesheets run on the real XalanTransformer and both the raw FormatterListener tree and the expat re-parse of the serialised output are validated against "
         "ResultTree only. A rejected case is KNOWN only if the recorded tree equals the transcription's output and every fault is explained by a KD class.",
    note="Trusted: TLC, harness/c14.cpp recorder, expat as independent namespace-aware parser, the generator's legality tracking. Prefix spellings are never compared.",
    technique="TLA+ abstract obligations + implementation-shaped transcription (bounded exhaustive TLC) + TLC trace validation of two observations + exact triage")
CHECKS["C18"] = dict(
    category="model_checking", design_ref="DESIGN.md §5 C18",
    text="Numeral.tla states number()/string()/round/floor/ceiling on DECIMAL NUMERALS (sign, digits, scale): a DFA for the Number lexical rule, the canonical string form, "
         "the output grammar, exact rounding with negative zero, and the exact binary expansion giving the IEEE-754 encoding as four 16-bit words. TLC model-checks the DFA "
         "against a declarative grammar on all strings of length <= 5/6, Canon idempotence, rounding laws and the encoding; TLC enumerates the numerals (1-4 significant digits "
         "x 10^-45..10^120 x sign) and all strings; every case runs on the real toDouble / NumberToDOMString / round / XPathEvaluator in its own process (plus ASan at the "
         "magnitude boundaries) and TLC recomputes the expected string or bit pattern for every recorded event.",
    note="Trusted: TLC; two IEEE-754 facts (<= 15 significant digits map injectively to doubles; |x - v| <= v*2^-53); correctly rounding glibc strtod/printf. For numerals of more "
         "than 15 significant digits only grammar, sign and the round trip number(string(x)) = x are decided.",
    technique="TLA+ numeral arithmetic as oracle (TLC trace validation) + TLC-checked laws + process-isolated execution")

CHECKS["C05"] = dict(
    category="model_checking", design_ref="DESIGN.md §5 C05",
    text="Forms.tla defines the space of forms cfg = [src, ss, out, api] (324), Supported(cfg) as the complement of 12 named exclusions derived from the real API surface, and "
         "the single action Run(cfg) whose outcome is R(S,D,P), independent of cfg by construction; the callback target is a chunk log with Concat(chunks) = bytes and a "
         "short-counting handler must fail. TLC enumerates the 111 supported forms, checks the transcribed XalanOutputStream/XalanTransformerOutputStream against the chunk "
         "protocol, and checks that the quick subset is pairwise covering. Inputs: a hand-made mechanics corpus, text-boundary documents (one text node however the parser chunks it) "
         "and generated stylesheet / document pairs. For each input the harness runs every selected form with the real API of that form (C++ overloads, "
         "XalanCAPI.h, the Xalan executable built from the same tree); TLC validates each execution: first run = reference, all others same status class with equal canonical trees.",
    note="Trusted: TLC; the harness drivers of each form and the DOM / source-tree walkers; Python parsing of bytes into trees (pyexpat, html.parser), independent of Xerces; "
         "control-experiment triage of the four known classes. R(S,D,P) itself is C01's subject. Not covered: disable-output-escaping, indent, byte-level differences of equal trees.",
    technique="TLA+ configuration model (TLC enumeration + pairwise-cover check) + callback-stream model + differential trace validation across all supported forms")
CHECKS["C08"] = dict(
    category="model_checking", design_ref="DESIGN.md §5 C08",
    text="OutputOptions.tla gives the option vector (13 fields, 1459 vectors enumerated by TLC) and the relations SameContent (indent may only ADD whitespace-only text between "
         "tags), the text-method rule and HtmlSame. IndentImpl transcribes XalanIndentWriter and its call sites; TLC checks it satisfies SameContent on all event sequences of "
         "length <= 6/8 except two named, witnessed deviations, and exports one shape per transition. Every (tree, vector) pair is one real transformation whose xsl:output is "
         "rendered from the vector (plus the XalanTransformer overrides); the bytes are parsed by expat / html.parser and TLC validates each against the reference vector.",
    note="Trusted: TLC, expat and Python's html.parser as independent parsers with a strict tree builder, the stylesheet renderer, harness/c08.cpp. HTML indentation is bound only "
         "by the conformance run; names are namespace-free (C14), character-level escaping is C04's.",
    technique="TLA+ option/indent models (TLC exhaustive + per-transition export + enumerated configuration space) + TLC trace validation with independent parsers")

NOT_YET = {
}

# ---- additions of later rounds (appended so that the table above stays as reviewed) ----------------------------------------------------
CHECKS["C01"]["text"] += (" ExecImpl.tla transcribes the ITERATIVE template executor (the loop of ElemTemplateElement::execute with its invoker / "
    "nodes-to-transform / current-node / execute-if / context-marker / current-template / buffer stacks, per element kind, with the direct-template and "
    "single-text-child short cuts); MC_Exec checks output = recursive definition, balanced stacks and termination for every program of <= 5 elements, "
    "and one program per set of executor transitions is exported and replayed as a real stylesheet (oracle: XSLTSem).")
CHECKS["C15"]["text"] += (" KeyTableImpl.tla transcribes the key-table walk (with its attribute loop), the per-document lazily built tables, the look-up "
    "outcomes and FunctionKey's loop over a node-set argument; MC_KeyTable checks them against XSLT 12.2 for every document shape <= 4/5 nodes, and one real "
    "document per walk-branch signature is replayed.")
CHECKS["C16"]["text"] += (" SortImpl.tla transcribes NodeSorter (multi-key comparison with per-key, per-position caches and marker values, stable sort); "
    "MC_SortImpl checks it against the definition (order, strict weak ordering, cache honesty, one evaluation per key and node).")
CHECKS["C10"]["text"] += (" Every node pushed through apply-templates for which no template event is seen is a pick of the built-in rule; the twin family "
    "uses match attributes with the same text under different namespace bindings (incl. key() patterns with prefixed key names) and simplified stylesheets among the imports; "
    "rules may reach xsl:apply-imports through named templates in other modules.")
CHECKS["C14"]["text"] += (" Every 6th case is run once more on one XSLTEngineImpl driven through its own interface that has just run, and reset() after, a transformation "
    "aborted with namespace declarations open; it is judged against its XalanTransformer twin.")
CHECKS["C02"]["text"] += (" Further families: cross-document (id() / current() / unions in predicates on nodes of another document), cross-kind order (unions of text / PI / "
    "comment / attribute / element children), one XObject factory per run (released value objects are recycled); a case that exceeds its CPU budget is a violation.")

CHECKS["C02"]["text"] += (" XPathSem models dyn:evaluate / xalan:evaluate (what the string spells is decided by XPathSyntax!Parse on its tokens; EXSLT's empty node-set "
    "for strings that are no expressions); one execution context serves a whole run, replaced after a failed evaluation.")
CHECKS["C06"]["text"] += (" TransformerImpl also transcribes the transformer's own object factory as far as the double overload of setStylesheetParam uses it "
    "(LIFO cache of released numbers, emptied by clearStylesheetParams; signed zeros in the pool); the pool has functions installed process-wide next to the one installed on the transformer.")
CHECKS["C11"]["text"] += (" A recycle family runs pairs of evaluations back to back in one process so that the value objects of the first are recycled for the second "
    "(cached conversions must not survive).")
CHECKS["C12"]["text"] += (" An id() family delivers every sequence of <= 4 ID tokens and node-set arguments holding token lists, as general value and as node list, on native and Xerces trees.")
CHECKS["C19"]["text"] += (" Scenario arenas keeps several arena blocks of every value kind alive; requests for large blocks are sampled besides the stride; blocks written to after "
    "their return are reported.")
CHECKS["C01"]["text"] += (" The stylesheet-text family places the element in the main, an included or an imported document and varies xml:space on it and on both xsl:stylesheet elements "
    "(StylesheetTree!Preserved: the chain of the element's own document decides).")

CHECKS["C11"]["text"] += (" ObjectFactoryImpl.tla transcribes the object factory's recycling caches and the conversions the recycled classes cache; MC_ObjectFactory "
    "checks it against ValueObjects.tla (an object answers every conversion from the value it was created with) for every history of create / ask / return / reset "
    "within the bounds - with either of two seeded switches on the counterexample must appear - and one history per model state is replayed on the real XObjectFactoryDefault "
    "(harness/xobj.cpp, Trace_C11obj).")

def main():
    props = [json.loads(l) for l in open(os.path.join(ROOT, "properties.jsonl"))]
    checks, na = [], []
    for p in props:
        i = p["id"]
        if i in CHECKS:
            c = CHECKS[i]
            checks.append({
                "property_id": i,
                "quick_cmd": "tools/check %s --tier quick" % i,
                "thorough_cmd": "tools/check %s --tier thorough" % i,
                "evidence_file": "evidence/%s.json" % i,
                "replay_cmd_template": "tools/check %s --replay {path}" % i,
                "engine": "tlc+xv",
                "level_claimed": {"category": c["category"], "text": c["text"], "design_ref": c["design_ref"]},
                "level_note": c["note"],
                "technique": c["technique"],
            })
        else:
            na.append({"property_id": i, "reason": NOT_YET.get(i, "check not built yet in this round (planned: see DESIGN.md §5 %s); no claim is made" % i)})
    m = {
        "version": 1,
        "setup_cmd": "tools/setup",
        "hooks": {
            "guard": "APACHE_XALAN_C_VERIF",
            "enable": "tools/build_repo configures /repo's working tree with -DCMAKE_CXX_FLAGS=\"-O1 -DNDEBUG -DAPACHE_XALAN_C_VERIF\" into /verif/.build/{hooks,asan}",
            "baseline_off_cmd": "tools/baseline_off",
            "source_commits": json.load(open(os.path.join(ROOT, "tools", "hook_commits.json"))),
            "add_only": True,
        },
        "engines": [
            {"name": "tlc+xv", "path": "tools/check", "serves_properties": [c["property_id"] for c in checks],
             "kind_free_text": "TLA+ specifications under spec/ model-checked by TLC; behaviours exported from TLC are replayed by the C++ "
                               "harness (harness/*.cpp, linked against a fresh build of /repo's working tree) and the recorded ndjson traces "
                               "are validated by TLC against the abstract modules (spec/trace/Trace_*.tla)"}],
        "checks": checks,
        "not_applicable": na,
        "notes": "Every verdict is TLC's: MC (design refines the abstract module), GEN (behaviours exported from the TLC state graph), "
                 "TV (recorded executions of the real code validated against the abstract module). Known genuine defects are listed in "
                 "known_findings.jsonl and reported as KNOWN-FINDING lines.",
    }
    json.dump(m, open(os.path.join(ROOT, "MANIFEST.json"), "w"), indent=1)
    print("MANIFEST.json: %d checks, %d not claimed" % (len(checks), len(na)))

main()
