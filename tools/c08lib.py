"""C08 helpers: result trees (seeded generator + shapes exported from MC_Indent), rendering a tree and an option vector into
a stylesheet whose match="/" template builds exactly that tree, and the INDEPENDENT parsers (pyexpat / html.parser / raw
text) that turn the bytes Xalan wrote back into a canonical tree.  No expected value is computed here: the verdict is
TLC's (Trace_C08 / OutputOptions.tla).

python tree : list of nodes; node = {"k":"elem","name":s,"attrs":[[n,v]..],"kids":[..]} | {"k":"text","v":s}
              | {"k":"comment","v":s} | {"k":"pi","name":s,"v":s}
canonical   : same shape, every string a list of code points, attributes sorted by name, adjacent text merged
"""
import codecs, re
from html.parser import HTMLParser
from xml.parsers import expat

XALAN_NS = "http://xml.apache.org/xalan"
VOID = ("br", "hr", "img", "input", "meta", "link", "area", "base", "col", "param")
RAW = ("script", "style")


def cps(s):
    return [ord(c) for c in s]


def E(name, *kids, a=None):
    return {"k": "elem", "name": name, "attrs": [list(x) for x in (a or [])], "kids": list(kids)}


def T(v):
    return {"k": "text", "v": v}


def C(v):
    return {"k": "comment", "v": v}


def PI(n, v=""):
    return {"k": "pi", "name": n, "v": v}


# ----------------------------------------------------------------------------------------- canonical form
def canon(nodes):
    out = []
    for n in nodes:
        k = n["k"]
        if k == "elem":
            out.append({"k": "elem", "name": cps(n["name"]),
                        "attrs": [[cps(a), cps(v)] for a, v in sorted((x[0], x[1]) for x in n["attrs"])],
                        "kids": canon(n["kids"])})
        elif k == "text":
            if not n["v"]:
                continue
            if out and out[-1]["k"] == "text":
                out[-1]["v"] = out[-1]["v"] + cps(n["v"])
            else:
                out.append({"k": "text", "v": cps(n["v"])})
        elif k == "comment":
            out.append({"k": "comment", "v": cps(n["v"])})
        else:
            out.append({"k": "pi", "name": cps(n["name"]), "v": cps(n["v"])})
    return out


def uncanon(nodes):
    """canonical -> python tree (for messages / replay files)"""
    s = lambda c: "".join(chr(x) for x in c)
    out = []
    for n in nodes:
        if n["k"] == "elem":
            out.append({"k": "elem", "name": s(n["name"]), "attrs": [[s(a), s(v)] for a, v in n["attrs"]], "kids": uncanon(n["kids"])})
        elif n["k"] == "pi":
            out.append({"k": "pi", "name": s(n["name"]), "v": s(n["v"])})
        else:
            out.append({"k": n["k"], "v": s(n["v"])})
    return out


def show(nodes):
    """compact one-line rendering of a python tree (diagnostics only)"""
    o = []
    for n in nodes:
        if n["k"] == "elem":
            o.append("<%s%s>%s</%s>" % (n["name"], "".join(" %s=%r" % (a, v) for a, v in n["attrs"]), show(n["kids"]), n["name"]))
        elif n["k"] == "text":
            o.append("{%s}" % n["v"].encode("unicode_escape").decode())
        elif n["k"] == "comment":
            o.append("<!--%s-->" % n["v"])
        else:
            o.append("<?%s %s?>" % (n["name"], n["v"]))
    return "".join(o)


# ------------------------------------------------------------------------------- stylesheet from (tree, options)
def _x(s, attr=False):
    """XML-escape into pure ASCII (the stylesheet file is ASCII; every other character is a reference)"""
    o = []
    for ch in s:
        c = ord(ch)
        if ch == "&": o.append("&amp;")
        elif ch == "<": o.append("&lt;")
        elif ch == ">": o.append("&gt;")
        elif attr and ch == '"': o.append("&quot;")
        elif attr and ch in "{}": o.append(ch + ch)          # attribute value template: literal braces are doubled
        elif c < 32 or c > 126: o.append("&#%d;" % c)
        else: o.append(ch)
    return "".join(o)


_RTF_COUNTER = [0]


def _body(nodes):
    o = []
    for n in nodes:
        k = n["k"]
        if k == "text" and n.get("rtf"):
            # the text instruction stands in a variable's result tree fragment and reaches the result through xsl:copy-of (for
            # disable-output-escaping text the fragment carries a marker in front of the text node): the same result tree
            _RTF_COUNTER[0] += 1
            v = "f%d" % _RTF_COUNTER[0]
            o.append('<xsl:variable name="%s"><xsl:text%s>%s</xsl:text></xsl:variable><xsl:copy-of select="$%s"/>' % (
                v, ' disable-output-escaping="yes"' if n.get("doe") else "", _x(n["v"]), v))
        elif k == "elem":
            o.append("<%s%s>%s</%s>" % (n["name"], "".join(' %s="%s"' % (a, _x(v, True)) for a, v in n["attrs"]), _body(n["kids"]), n["name"]))
        elif k == "text":
            o.append("<xsl:text%s>%s</xsl:text>" % (' disable-output-escaping="yes"' if n.get("doe") else "", _x(n["v"])))
        elif k == "comment":
            o.append("<xsl:comment>%s</xsl:comment>" % _x(n["v"]))
        else:
            o.append('<xsl:processing-instruction name="%s">%s</xsl:processing-instruction>' % (n["name"], _x(n["v"])))
    return "".join(o)


def output_element(o, form=0):
    """xsl:output rendered from the option vector (absent options are not written at all)"""
    a = []
    if o["method"] != "none": a.append('method="%s"' % o["method"])
    if o["version"] != "absent": a.append('version="%s"' % o["version"])
    if o["encoding"] != "absent": a.append('encoding="%s"' % o["encoding"])
    if o["omitDecl"] != "absent": a.append('omit-xml-declaration="%s"' % o["omitDecl"])
    if o["standalone"] != "absent": a.append('standalone="%s"' % o["standalone"])
    if o["doctype"] == "public": a.append('doctype-public="-//C08//DTD T 1.0//EN"')
    if o["doctype"] in ("public", "system"): a.append('doctype-system="c08.dtd"')
    if o["doctype"] == "publiconly": a.append('doctype-public="-//C08//DTD T 1.0//EN"')
    if o["cdata"]: a.append('cdata-section-elements="%s"' % " ".join(o["cdata"]))
    if o["indent"] != "absent": a.append('indent="%s"' % o["indent"])
    if o["indentAmount"] >= 0: a.append('xalan:indent-amount="%d"' % o["indentAmount"])
    if o.get("ssEscapeURLs", "absent") != "absent": a.append('xalan:escape-urls="%s"' % o["ssEscapeURLs"])
    if o.get("ssOmitMeta", "absent") != "absent": a.append('xalan:omit-meta-tag="%s"' % o["ssOmitMeta"])
    # XSLT 16: "A stylesheet may contain multiple xsl:output elements ... merged into a single effective xsl:output element"; the order of
    # attributes means nothing.  The same vector is therefore SPELLED in four ways: method first / method last on one element, the method
    # on a second element after the rest, the method on a first element before the rest.
    if not a:
        return ""
    has_method = o["method"] != "none"
    if form == 1 and has_method:
        a = a[1:] + a[:1]
    elif form == 2 and has_method and len(a) > 1:
        return "<xsl:output %s/><xsl:output %s/>" % (" ".join(a[1:]), a[0])
    elif form == 3 and has_method and len(a) > 1:
        return "<xsl:output %s/><xsl:output %s/>" % (a[0], " ".join(a[1:]))
    return "<xsl:output %s/>" % " ".join(a)


def stylesheet(tree, o, form=0):
    return ('<xsl:stylesheet version="1.0" xmlns:xsl="http://www.w3.org/1999/XSL/Transform" xmlns:xalan="%s" '
            'exclude-result-prefixes="xalan">%s<xsl:template match="/">%s</xsl:template></xsl:stylesheet>' % (XALAN_NS, output_element(o, form), _body(tree)))


def harness_case(cid, tree, o):
    c = {"id": cid, "xsl": stylesheet(tree, o, (cid // 3) % 4), "xml": "<x/>", "omitMeta": o["setOmitMeta"], "escapeURLs": o["setEscapeURLs"]}
    if o["setIndent"] >= 0:
        c["setIndent"] = o["setIndent"]
    if o["setEncoding"]:
        c["setEncoding"] = o["setEncoding"]
    return c


# ------------------------------------------------------------------------------------------------ parsers
class _Builder:
    def __init__(self):
        self.root = []
        self.stack = [self.root]
        self.err = None

    def text(self, s):
        if not s:
            return
        cur = self.stack[-1]
        if cur and cur[-1]["k"] == "text":
            cur[-1]["v"] += s
        else:
            cur.append({"k": "text", "v": s})

    def start(self, name, attrs, push=True):
        n = {"k": "elem", "name": name, "attrs": attrs, "kids": []}
        self.stack[-1].append(n)
        if push:
            self.stack.append(n["kids"])
            self.names.append(name)

    names = None


def parse_xml(data, override=None, _in11=False):
    """bytes -> {"tree", "decl", "doctype"} or {"error"} using expat (python's pyexpat), no Xalan/Xerces code involved.
    Top-level whitespace is not part of the tree (XML has no text at document level)."""
    b = _Builder(); b.names = []
    info = {"decl": {"present": False, "version": "", "encoding": "", "standalone": "absent"},
            "doctype": {"present": False, "name": "", "pub": "", "sys": ""}}
    p = expat.ParserCreate(override) if override else expat.ParserCreate()
    p.ordered_attributes = True
    p.buffer_text = True

    def xmldecl(version, encoding, standalone):
        info["decl"] = {"present": True, "version": version or "", "encoding": encoding or "",
                        "standalone": {1: "yes", 0: "no"}.get(standalone, "absent")}

    def doctype(name, sysid, pubid, has_internal):
        info["doctype"] = {"present": True, "name": name or "", "pub": pubid or "", "sys": sysid or ""}

    def start(name, attrs):
        b.start(name, [[attrs[i], attrs[i + 1]] for i in range(0, len(attrs), 2)])

    def end(name):
        b.stack.pop(); b.names.pop()

    def chars(s):
        if len(b.stack) > 1:
            b.text(s)

    p.XmlDeclHandler = xmldecl
    p.StartDoctypeDeclHandler = doctype
    p.StartElementHandler = start
    p.EndElementHandler = end
    p.CharacterDataHandler = chars
    p.CommentHandler = lambda s: b.stack[-1].append({"k": "comment", "v": s})
    p.ProcessingInstructionHandler = lambda t, d: b.stack[-1].append({"k": "pi", "name": t, "v": d})
    try:
        p.Parse(data, True)
    except expat.ExpatError as e:
        return {"error": "not well-formed XML: %s" % e}
    except (LookupError, UnicodeError) as e:
        return {"error": "undecodable XML: %s" % e}
    info["tree"] = b.root
    if info["decl"]["version"] == "1.1" and not override and not _in11:
        # expat reads the document by XML 1.0 rules.  XML 1.1 differs where it matters here: NEL (U+0085), LSEP (U+2028) and CR NEL are
        # line ends (read back as a line feed) and the restricted characters must not appear literally.  Decode, check, normalise, read again.
        try:
            if data[:2] in (b"\xff\xfe", b"\xfe\xff"):
                text = data.decode("utf-16")
            else:
                text = data.decode(_pycodec(info["decl"]["encoding"]) or "utf-8")
        except (LookupError, UnicodeError) as e:
            return {"error": "undecodable XML: %s" % e}
        text = text.lstrip("\ufeff")
        for ch in text:
            o = ord(ch)
            if (1 <= o <= 8) or o in (0xB, 0xC) or (0xE <= o <= 0x1F) or (0x7F <= o <= 0x84) or (0x86 <= o <= 0x9F):
                return {"error": "not well-formed XML 1.1: literal restricted character U+%04X" % o}
        text = text.replace("\r\n", "\n").replace("\r\x85", "\n").replace("\x85", "\n").replace("\u2028", "\n").replace("\r", "\n")
        again = parse_xml(text, _in11=True)
        if "error" in again:
            return again
        info["tree"] = again["tree"]
    return info


def _pycodec(name):
    n = (name or "").lower()
    return {"": "utf-8", "utf-8": "utf-8", "utf-16": "utf-16", "iso-8859-1": "latin-1", "us-ascii": "ascii", "windows-1252": "cp1252", "shift_jis": "shift_jis",
            "gb18030": "gb18030", "ebcdic-cp-us": "cp037", "ibm037": "cp037", "koi8-r": "koi8-r", "iso-8859-2": "iso8859-2", "big5": "big5", "euc-jp": "euc_jp"}.get(n, n or "utf-8")


class _Html(HTMLParser):
    """Tolerant HTML tokenizer of the Python library + a strict tree builder for what an HTML *serializer* may emit:
    void elements have no end tag, every other element is closed explicitly, script/style content is raw."""

    def __init__(self):
        super().__init__(convert_charrefs=True)
        self.b = _Builder(); self.b.names = []
        self.doctype = {"present": False, "name": "", "pub": "", "sys": ""}
        self.err = None

    def fail(self, m):
        if self.err is None:
            self.err = m

    def handle_starttag(self, tag, attrs):
        # a minimised attribute (<option selected>) is reported with value None
        self.b.start(tag, [[a, ("\x00min" if v is None else v)] for a, v in attrs], push=tag not in VOID)

    def handle_startendtag(self, tag, attrs):
        if tag not in VOID:
            self.fail("XML-style empty tag <%s/> for a non-void HTML element" % tag)
        self.b.start(tag, [[a, ("\x00min" if v is None else v)] for a, v in attrs], push=False)

    def handle_endtag(self, tag):
        if tag in VOID:
            self.fail("end tag </%s> written for a void element" % tag); return
        if not self.b.names or self.b.names[-1] != tag:
            self.fail("end tag </%s> does not close the open element %s" % (tag, self.b.names[-1:] or "(none)")); return
        self.b.stack.pop(); self.b.names.pop()

    def handle_data(self, data):
        if len(self.b.stack) > 1:
            self.b.text(data)
        elif data.strip(" \t\r\n"):
            self.fail("text at document level: %r" % data[:30])

    def handle_comment(self, data):
        self.b.stack[-1].append({"k": "comment", "v": data})

    def handle_pi(self, data):
        m = re.match(r"([^ \t\r\n]+)[ \t\r\n]?(.*)\Z", data, re.S)
        self.b.stack[-1].append({"k": "pi", "name": m.group(1) if m else data, "v": m.group(2) if m else ""})

    def handle_decl(self, decl):
        m = re.match(r'(?is)DOCTYPE\s+(\S+)(?:\s+PUBLIC\s+"([^"]*)"(?:\s+"([^"]*)")?|\s+SYSTEM\s+"([^"]*)")?\s*\Z', decl)
        if m:
            self.doctype = {"present": True, "name": m.group(1), "pub": m.group(2) or "", "sys": m.group(3) or m.group(4) or ""}
        else:
            self.fail("unreadable declaration <!%s>" % decl[:60])

    def unknown_decl(self, data):
        self.fail("marked section <![%s]> in HTML output" % data[:40])


def decode(data, enc):
    """bytes -> str in the effective encoding (a UTF-16 byte order mark is consumed, none is required)"""
    e = enc.lower()
    if e in ("utf-16", "utf16"):
        if data[:2] in (b"\xff\xfe", b"\xfe\xff"):
            return data.decode("utf-16")
        return data.decode("utf-16-le")
    return data.decode(codecs.lookup(e).name)


def parse_html(data, enc):
    try:
        s = decode(data, enc)
    except (UnicodeError, LookupError) as e:
        return {"error": "output is not valid %s: %s" % (enc, e)}
    h = _Html()
    try:
        h.feed(s); h.close()
    except Exception as e:                                   # the library parser itself gave up
        return {"error": "html.parser: %s" % e}
    if h.err is None and h.b.names:
        h.err = "element(s) left open at the end: %s" % h.b.names
    if h.err:
        return {"error": h.err}
    return {"tree": h.b.root, "doctype": h.doctype, "decl": {"present": False, "version": "", "encoding": "", "standalone": "absent"}}


def parse_text(data, enc):
    try:
        return {"text": decode(data, enc)}
    except (UnicodeError, LookupError) as e:
        return {"error": "output is not valid %s: %s" % (enc, e)}


def canon_html(nodes):
    """canonical form of an html.parser tree: a minimised attribute keeps the marker value <<0>> so that the spec can apply
    the boolean-attribute rule (the marker cannot be produced by any real value: U+0000 is not an XML character)"""
    out = canon(nodes)

    def fix(ns):
        for n in ns:
            if n["k"] == "elem":
                for a in n["attrs"]:
                    if a[1] == cps("\x00min"):
                        a[1] = [0]
                fix(n["kids"])
    fix(out)
    return out


# ---------------------------------------------------------------------------------------- result trees
def D(v, rtf=False):
    """text written with disable-output-escaping="yes" (plain characters only, so it reads back as the same text);
    rtf: built in a variable's result tree fragment and copied from there"""
    return dict({"k": "text", "v": v, "doe": True}, **({"rtf": True} if rtf else {}))


def tree_of_events(events):
    """event sequence exported from MC_Indent (open/close/text/raw/comment/pi, names and values as code points) -> python
    tree; every event stays ONE instruction of the stylesheet (two text events = two xsl:text), open elements are closed"""
    s = lambda c: "".join(chr(x) for x in c)
    root = []
    stack = [root]
    for ev in events:
        op = ev["op"]
        if op == "open":
            e = E(s(ev["name"])); stack[-1].append(e); stack.append(e["kids"])
        elif op == "close":
            stack.pop()
        elif op == "text":
            stack[-1].append(T(s(ev["v"])))
        elif op == "raw":
            stack[-1].append(D(s(ev["v"])))
        elif op == "comment":
            stack[-1].append(C(s(ev["v"])))
        elif op == "pi":
            stack[-1].append(PI(s(ev["name"]), s(ev["v"])))
    return root


TEXTS = ["x", "text", " ", "\n", "  \n ", "a<b&c>d", "x]]>y", "]]>z", "ends with ]]>", "]]>", "]]", "]", "café", "€ 5", "\U0001d11e", "tab\there", "two\nlines", "AT&T;", "'q\"",
         " lead", "trail ", " ", "a > b"]
COMMENTS = ["c", " spaced ", "a-b", "x<y&z", "café", "€"]
PIDATA = ["d", "a b", "", "x=\"1\"", "café"]
ATTRVALS = ["v", "a b", "<&>\"'", "é€", "{x}", "  lead", "a\tb", "a\nb", "", "\U0001d11e"]


# characters that are line ends or restricted characters of XML 1.1 but ordinary characters of XML 1.0 (all legal in both): the tree
# must come back the same under every version / indent / encoding combination.  Only in trees that are written with the xml method
# (an HTML parser reads &#133; as U+2026).
LINE_TEXTS = ["a\u0085b", "l\u2028s", "d\u007fe", "\u0085", "x\u009fy", "n\u0085\u0085", "cr\rlf"]


def line_trees():
    """hand-made trees for the version x indent x encoding instantiations of the serializer and for copied raw text"""
    out = []
    for i, v in enumerate(LINE_TEXTS):
        out.append([E("r", E("a", T(v), a=[["t", v]]), E("c", T(v + " < & ]]> " + v)), T(v))])
    # disable-output-escaping text copied out of a result tree fragment into a cdata-section element (c), then text that needs escaping
    out.append([E("r", E("c", D("raw", rtf=True)), T("1 < 2 & 3"), E("b", T("a<b&c>d")))])
    out.append([E("r", E("c", T("x"), D("r ", rtf=True)), E("d", T("1 < 2 & 3 > 2"), a=[["t", "<&>"]]), D("r", rtf=True), T("a&b"))])
    out.append([E("r", E("a", D("raw text", rtf=True), T(" a<b")), E("c", D("r", rtf=True), T("]]> & <")), T("z<"))])
    return out


def html_raw_trees():
    """HTML-shaped trees in which script / style content is raw text copied out of a result tree fragment, followed by text that needs escaping"""
    return [[E("html", E("head", E("title", T("t")), E("script", D("var s = 1;", rtf=True)), E("style", D("b{c:d}", rtf=True))),
                      E("body", E("p", T("1 < 2 & 3 > 2")), E("script", D("x();", rtf=True)), E("p", T("a&b"), E("i", T("<i>"))), T("tail & <")))],
            [E("html", E("body", E("div", E("script", D("go()", rtf=True)), T("x<y"), E("c", T("1 < 2 & 3"))), E("p", D("raw", rtf=True), T(" & after"))))]]


def html_uri_trees():
    """HTML-shaped trees with URL attributes that hold characters the narrow encodings lack, FOLLOWED by attribute values and text that
    need numeric character references (no entity name): whatever the URL attributes do to a shared buffer shows in what comes next"""
    Z = "\u0416"
    return [[E("html", E("body", E("a", T(Z + " link"), a=[["href", "caf\u00e9/\u20ac.gif"], ["title", Z + " t"]]), E("p", T("after " + Z + " and \U0001d11e")),
                      E("img", a=[["src", Z + ".png"], ["alt", Z]]), E("a", T("x"), a=[["href", Z + "/" + Z], ["title", "\u0429"]]), T("tail " + Z)))],
            [E("html", E("head", E("title", T(Z)), E("link", a=[["href", "\u20ac.css"], ["rel", "stylesheet"], ["title", Z]])), E("body", E("p", T(Z)), E("a", T("\u0429"), a=[["href", "\U0001d11e.mid"], ["name", Z]])))]]


def gen_xmlish(rng, depth=0):
    """seeded random tree: mixed content, whitespace-only text, comments / PIs, cdata-section element `c`, attributes with
    special characters, disable-output-escaping text; comments / PIs also around the document element"""
    def kids(d):
        out = []
        n = rng.choice([2, 3, 3, 4, 5]) if d == 0 else rng.choice([0, 1, 2, 3, 3, 4]) if d < 3 else rng.choice([0, 1, 1, 2])
        for _ in range(n):
            r = rng.random()
            if r < 0.42 and d < 4:
                out.append(elem(d + 1))
            elif r < 0.80:
                if out and out[-1]["k"] == "text" and rng.random() < 0.8:
                    continue
                out.append(D(rng.choice(["r", "raw text", "r "]), rtf=rng.random() < 0.5) if rng.random() < 0.08 else T(rng.choice(TEXTS)))
            elif r < 0.92:
                out.append(C(rng.choice(COMMENTS)))
            else:
                out.append(PI(rng.choice(["p", "target"]), rng.choice(PIDATA)))
        return out

    def elem(d):
        name = rng.choice(["a", "b", "c", "c", "d", "e"])
        attrs = []
        for an in rng.sample(["id", "href", "t", "u"], rng.choice([0, 0, 1, 1, 2])):
            attrs.append([an, rng.choice(ATTRVALS)])
        return E(name, *kids(d), a=attrs)

    top = []
    if rng.random() < 0.3: top.append(C(rng.choice(COMMENTS[:4])))
    if rng.random() < 0.2: top.append(PI("p", "before"))
    top.append(elem(0))
    if rng.random() < 0.25: top.append(C("after"))
    if rng.random() < 0.15: top.append(PI("p", "after"))
    return top


URLS = ["a b.png", "http://x/é y?a=1&b=2", "plain.html", "café/€.gif", "q?x=\"1\"", "#frag", "\U0001d11e.mid", "a%20b"]
SCRIPTS = ["if (a<b && c>d) x();", "var s = \"q\";", "a&b", "x = 1 < 2;", "var e = 'caf\u00e9 \u20ac';"]
STYLES = ["p > a { x: 'y' }", "b{c:d}", "a:before { content: \"<\" }", "q:after { content: '\u00e9\u20ac' }"]


def raw_or_text(rng, v):
    """the content of a script / style element: an ordinary text instruction, or (1 in 3) disable-output-escaping text that comes out of a
    result tree fragment - the same text either way (these elements are not escaped), and what FOLLOWS them must be escaped as ever"""
    plain = not any(c in v for c in "<&>")          # (raw text is written as it is by the xml reference run too: plain characters only)
    return D(v, rtf=True) if plain and rng.random() < 0.5 else T(v)


def gen_htmlish(rng, root="html", lead_comment=False):
    """seeded random HTML-shaped tree: html/head/title/body with script/style (raw text), void elements, boolean
    attributes, URL attributes with blanks and non-ASCII characters, inline and block elements, pre"""
    def inline(d):
        r = rng.random()
        if r < 0.30:
            return T(rng.choice(TEXTS))
        if r < 0.42:
            return E("br")
        if r < 0.54:
            return E("img", a=[["src", rng.choice(URLS)], ["alt", rng.choice(ATTRVALS)]])
        if r < 0.68:
            return E("a", T(rng.choice(["l", "link text", "café"])), a=[["href", rng.choice(URLS)]] + ([["title", rng.choice(ATTRVALS)]] if rng.random() < 0.3 else []))
        if r < 0.80 and d < 3:
            return E(rng.choice(["b", "i", "span", "em"]), *seq(d + 1, 1 + rng.randrange(2)))
        if r < 0.88:
            return E("input", a=[["type", "checkbox"]] + rng.sample([["checked", "checked"], ["disabled", ""], ["readonly", "READONLY"], ["name", "n"]], rng.choice([1, 2])))
        if r < 0.90:
            return C(rng.choice(COMMENTS[:4]))
        if rng.random() < 0.5:
            return E("nonhtml", T("x"), a=[["href", "café"]])
        return E("c", T(rng.choice(["1 < 2 & 3 > 2", "x", "a ]]> b", "tail ]]>"])))      # the name the option vectors list in cdata-section-elements

    def seq(d, n):
        out = []
        for _ in range(n):
            x = inline(d)
            if x["k"] == "text" and out and out[-1]["k"] == "text":
                continue
            out.append(x)
        return out

    def block(d):
        r = rng.random()
        if r < 0.35:
            return E("p", *seq(d, rng.choice([1, 2, 3, 4])))
        if r < 0.55 and d < 2:
            return E("div", *[block(d + 1) for _ in range(rng.choice([0, 1, 2, 3]))], a=([["class", "k"]] if rng.random() < 0.4 else []))
        if r < 0.65:
            return E("ul", *[E("li", *seq(d, rng.choice([1, 2]))) for _ in range(rng.choice([1, 2, 3]))])
        if r < 0.73:
            return E("pre", T(rng.choice(["  two\n   lines ", "x", " \n "])), *([E("b", T("k"))] if rng.random() < 0.4 else []))
        if r < 0.81:
            return E("script", raw_or_text(rng, rng.choice(SCRIPTS)), a=([["src", rng.choice(URLS)]] if rng.random() < 0.3 else []))
        if r < 0.87:
            return E("hr")
        if r < 0.93:
            return E("form", E("select", E("option", T("o"), a=[["selected", "selected"]]), E("option", T("p"))), a=[["action", rng.choice(URLS)]])
        return E("table", E("tr", E("td", *seq(d, 1)), E("td")))

    head = [E("title", T(rng.choice(["T", "T & <t>", "café"])))]
    if rng.random() < 0.4: head.append(E("style", raw_or_text(rng, rng.choice(STYLES))))
    if rng.random() < 0.3: head.append(E("link", a=[["href", rng.choice(URLS)], ["rel", "stylesheet"]]))
    if rng.random() < 0.3: head.append(E("script", raw_or_text(rng, rng.choice(SCRIPTS))))
    if rng.random() < 0.15: head.insert(0, E("meta", a=[["name", "k"], ["content", "v"]]))
    body = [block(0) for _ in range(rng.choice([1, 2, 3, 4]))]
    if rng.random() < 0.3: body.insert(rng.randrange(len(body) + 1), T(rng.choice(["loose text", " "])))
    doc = E(root, *([E("head", *head)] if rng.random() < 0.85 else []), E("body", *body, a=([["background", rng.choice(URLS)]] if rng.random() < 0.2 else [])))
    return ([C("lead")] if lead_comment else []) + [doc]
