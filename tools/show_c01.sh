#!/bin/bash
# show_c01.sh <replay file>: stylesheet, document, got and want trees
cd /verif
python3 tools/show_replay.py "$1" | cut -c1-4000
tools/check C01 --replay "$1" 2>&1 | tail -1 | python3 -c "
import sys,re
sys.path.insert(0,'/verif/tools'); import tlaparse
m=sys.stdin.read()
w=m[m.index('want ')+5:m.index(' got ')]
v=tlaparse.parse_value(w)
def show(t,ind=0):
    for n in t:
        if n['k']=='elem':
            print(' '*ind+'<%s %s>'%(''.join(map(chr,n['name'])),' '.join('%s=%r'%(''.join(map(chr,a[0])),''.join(map(chr,a[1]))) for a in n['attrs']))); show(n['kids'],ind+2)
        else: print(' '*ind+n['k']+':'+repr(''.join(map(chr,n.get('v',[])))))
print('WANT'); show(v)"
