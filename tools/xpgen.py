"""XPath expression ASTs (the form XPathSem.tla evaluates), their rendering to XPath text with minimal
parentheses, and seeded generators.  Expected values are never computed here."""
import random
from xdm import cps

# ------------------------------------------------------------------------------------- constructors
def num8(m):                    # literal with value m/8 (m >= 0)
    return {"op": "num", "v": {"k": "fin", "neg": False, "m": m}}


def num(i):
    return num8(i * 8)


def lit(s):
    return {"op": "str", "v": cps(s)}


def var(name):
    return {"op": "var", "name": name}


def neg(a):
    return {"op": "neg", "a": a}


def bin_(o, a, b):
    return {"op": "bin", "o": o, "a": a, "b": b}


def fn(name, *args):
    return {"op": "fn", "name": name, "args": list(args)}


def xfn(lib, name, *args):      # bundled extension function; rendered with the library tag as prefix
    return {"op": "xfn", "lib": lib, "name": name, "args": list(args)}


EXT_NS = {"set": "http://exslt.org/sets", "math": "http://exslt.org/math", "exsl": "http://exslt.org/common",
          "str": "http://exslt.org/strings", "xalan": "http://xml.apache.org/xalan", "dyn": "http://exslt.org/dynamic"}

NONE = {"op": "none"}


def path(steps, abs_=False, start=None):
    return {"op": "path", "abs": abs_, "start": start or NONE, "steps": list(steps)}


def filt(e, *preds):
    if e.get("op") == "filter":          # X[p][q] is ONE FilterExpr with two predicates
        return {"op": "filter", "e": e["e"], "preds": e["preds"] + list(preds)}
    return {"op": "filter", "e": e, "preds": list(preds)}


def step(axis, test, *preds, abbr=True):
    return {"axis": axis, "test": test, "preds": list(preds), "abbr": abbr}


def t_name(local, uri="", prefix=""):
    return {"t": "name", "uri": cps(uri), "local": cps(local), "prefix": prefix}


T_ANY = {"t": "any"}
T_NODE = {"t": "node"}
T_TEXT = {"t": "text"}
T_COMMENT = {"t": "comment"}


def t_pi(target=None):
    return {"t": "pi", "hasTarget": target is not None, "target": cps(target or "")}


def t_nsany(uri, prefix):
    return {"t": "nsany", "uri": cps(uri), "prefix": prefix}


DOS = step("descendant-or-self", T_NODE)      # the '//' step


# ---------------------------------------------------------------------------------------- rendering
PREC = {"or": 1, "and": 2, "=": 3, "!=": 3, "<": 4, "<=": 4, ">": 4, ">=": 4, "+": 5, "-": 5,
        "*": 6, "div": 6, "mod": 6, "|": 8}
P_UNARY, P_UNION, P_PATH, P_PRIMARY = 7, 8, 9, 10


def num_text(m):
    i, f = divmod(m, 8)
    if f == 0:
        return str(i)
    return ("%d.%03d" % (i, f * 125)).rstrip("0")


def str_text(v):
    s = "".join(chr(c) for c in v)
    return "'" + s + "'" if "'" not in s else '"' + s + '"'


def test_text(t):
    k = t["t"]
    if k == "name":
        return (t.get("prefix", "") + ":" if t.get("prefix") else "") + "".join(chr(c) for c in t["local"])
    if k == "any":
        return "*"
    if k == "nsany":
        return t["prefix"] + ":*"
    if k == "node":
        return "node()"
    if k == "text":
        return "text()"
    if k == "comment":
        return "comment()"
    if k == "pi":
        return "processing-instruction(%s)" % (str_text(t["target"]) if t["hasTarget"] else "")
    raise ValueError(k)


def step_text(s):
    ax, t = s["axis"], s["test"]
    preds = "".join("[" + render(p) + "]" for p in s["preds"])
    if s.get("abbr", True):
        if ax == "child":
            return test_text(t) + preds
        if ax == "attribute":
            return "@" + test_text(t) + preds
        if ax == "self" and t["t"] == "node" and not preds:
            return "."
        if ax == "parent" and t["t"] == "node" and not preds:
            return ".."
    return ax + "::" + test_text(t) + preds


def steps_text(steps, lead_ok=False):
    """lead_ok: a leading '//' is allowed (absolute path or path with a start expression)"""
    out = []
    i = 0
    pending_sep = ""
    while i < len(steps):
        s = steps[i]
        if (s["axis"] == "descendant-or-self" and s["test"]["t"] == "node" and not s["preds"] and s.get("abbr", True)
                and i + 1 < len(steps) and (i > 0 or lead_ok) and not pending_sep):
            pending_sep = "//"
            i += 1
            continue
        out.append((pending_sep or ("/" if out else "")) + step_text(s))
        pending_sep = ""
        i += 1
    return out


def prec_of(e):
    op = e["op"]
    if op == "bin":
        return PREC[e["o"]]
    if op == "neg":
        return P_UNARY
    if op == "path":
        return P_PATH
    return P_PRIMARY        # num str var fn filter (filter is FilterExpr, usable as path start)


def render(e, minprec=0):
    op = e["op"]
    if op == "num":
        s = num_text(e["v"]["m"])
    elif op == "str":
        s = str_text(cps(e["rtext"])) if "rtext" in e else str_text(e["v"])      # rtext: the lexical form where the spec sees an expanded name
    elif op == "var":
        s = "$" + e["name"]
    elif op == "fn":
        s = e["name"] + "(" + ", ".join(render(a) for a in e["args"]) + ")"
    elif op == "xfn":
        s = e["lib"] + ":" + e["name"] + "(" + ", ".join(render(a) for a in e["args"]) + ")"
    elif op == "neg":
        s = "-" + render(e["a"], P_UNARY)
        if s.startswith("--"):
            s = "- " + s[1:]
    elif op == "bin":
        p = PREC[e["o"]]
        left = render(e["a"], p)
        if (left == "/" or left.endswith(" /")) and e["o"] in ("and", "or", "div", "mod", "*"):
            left = "(" + left + ")"        # after '/', a name or '*' is a node test (XPath 3.7), not an operator (also after 'a | /')
        s = left + " " + e["o"] + " " + render(e["b"], p + 1)
    elif op == "filter":
        inner = render(e["e"], P_PRIMARY)
        if e["e"]["op"] in ("num", "str"):      # a predicate on a literal is syntactically fine but keep it primary-looking
            inner = "(" + inner + ")"
        s = inner + "".join("[" + render(p) + "]" for p in e["preds"])
    elif op == "path":
        parts = steps_text(e["steps"], lead_ok=e["abs"] or e["start"]["op"] != "none")
        if e["abs"]:
            body = "".join(parts)
            s = body if body.startswith("//") else "/" + body
        elif e["start"]["op"] != "none":
            st = render(e["start"], P_PRIMARY)
            body = "".join(parts)
            s = st + (body if body.startswith("//") else "/" + body)
        else:
            s = "".join(parts)
    else:
        raise ValueError(op)
    if prec_of(e) < minprec:
        return "(" + s + ")"
    return s


def strip_render_only(e):
    """AST as the spec sees it (rendering hints removed)"""
    if isinstance(e, dict):
        return {k: strip_render_only(v) for k, v in e.items() if k not in ("abbr", "prefix", "rtext", "expr")}
    if isinstance(e, list):
        return [strip_render_only(x) for x in e]
    return e


def xeval(lib, inner):
    """dyn:evaluate / xalan:evaluate of the rendered text of `inner` ("evaluated exactly as if it had been literally included in place of
    the call"): the spec evaluates field expr in the calling context, the processor gets the text as a string literal.  None when the
    text cannot be written as one literal, or names current() (Xalan documents the context node as the current node there)."""
    text = render(inner)
    if "current(" in text or ("'" in text and '"' in text):
        return None
    return {"op": "xfn", "lib": lib, "name": "evaluate", "args": [{"op": "str", "v": cps(text)}], "expr": inner}


def dyn_table(e, out=None):
    """the strings handed to dyn:evaluate / xalan:evaluate anywhere in e, with the expression each one spells: [(text, ast)]"""
    out = [] if out is None else out
    if isinstance(e, dict):
        if e.get("op") == "xfn" and e.get("name") == "evaluate" and "expr" in e:
            if e["expr"] is None:         # a string that is not an expression
                out.append(("".join(chr(c_) for c_ in e["args"][0]["v"]), None))
            else:
                out.append((render(e["expr"]), strip_render_only(e["expr"])))
        for v in e.values():
            dyn_table(v, out)
    elif isinstance(e, list):
        for x in e:
            dyn_table(x, out)
    return out


def xeval_bad(lib, text):
    return {"op": "xfn", "lib": lib, "name": "evaluate", "args": [{"op": "str", "v": cps(text)}], "expr": None}


# -------------------------------------------------------------------------------------- generators
AXES = ["self", "child", "attribute", "parent", "ancestor", "ancestor-or-self", "descendant",
        "descendant-or-self", "following-sibling", "preceding-sibling", "following", "preceding"]


class Gen:
    def __init__(self, rng, names=("a", "b", "c"), attrs=("x", "y", "id"), strs=("t", "u", "1", "2", " ", ""),
                 vars_=None, pis=("t", "u"), nsmap=None, keys=(), ext=False, current=False):
        self.r = rng
        self.names, self.attrs, self.strs, self.pis = names, attrs, strs, pis
        self.vars = vars_ or {}      # name -> type
        self.nsmap = nsmap or {}     # prefix -> uri usable in name tests
        self.keys = list(keys)       # names of declared xsl:key (stylesheet context only)
        self.ext = ext               # generate calls of the bundled EXSLT / xalan: extension functions
        self.current = current       # generate current() (XSLT 12.4): inside predicates it differs from the context node

    def test(self, axis):
        r = self.r.random()
        if axis == "namespace":
            return T_ANY if r < 0.5 else (t_name(self.r.choice(["xml", "p", "q"])) if r < 0.85 else T_NODE)
        if self.nsmap and r < 0.3 and axis != "attribute":
            p = self.r.choice(sorted(self.nsmap))
            return t_name(self.r.choice(self.names), self.nsmap[p], p) if self.r.random() < 0.7 else t_nsany(self.nsmap[p], p)
        if axis == "attribute":
            return t_name(self.r.choice(self.attrs)) if r < 0.6 else (T_ANY if r < 0.85 else T_NODE)
        if r < 0.45:
            return t_name(self.r.choice(self.names))
        if r < 0.6:
            return T_ANY
        if r < 0.75:
            return T_NODE
        if r < 0.87:
            return T_TEXT
        if r < 0.93:
            return T_COMMENT
        return t_pi(self.r.choice(self.pis) if self.r.random() < 0.5 else None)

    def pred(self, d):
        return self.maybe_eval(self._pred(d), 0.12)

    def maybe_eval(self, e, p):
        if self.ext and self.r.random() < p:
            w = xeval(self.r.choice(["dyn", "xalan"]), e)
            if w is not None:
                return w
        return e

    def _pred(self, d):
        r = self.r.random()
        if r < 0.25:
            return num(self.r.randint(1, 3))
        if r < 0.35:
            return fn("last")
        if r < 0.5:
            return bin_(self.r.choice(["=", "!=", "<", "<=", ">", ">="]), fn("position"), self.r.choice([num(1), num(2), fn("last"), bin_("-", fn("last"), num(1))]))
        if r < 0.6:
            return bin_("=", bin_("mod", fn("position"), num(2)), num(self.r.randint(0, 1)))
        if self.current and r < 0.72:
            # compare something of the context node with the same thing of the current node
            what = self.r.choice([[step("attribute", t_name(self.r.choice(self.attrs)))], [step("self", T_NODE)], [step("parent", T_NODE)], [step("child", T_TEXT)]])
            lhs = path([dict(x) for x in what]); rhs = path([dict(x) for x in what], start=fn("current"))
            c = self.r.random()
            if c < 0.4:
                return bin_(self.r.choice(["=", "!="]), lhs, rhs)
            if c < 0.6:
                return bin_("=", fn("name"), fn("name", fn("current")))
            if c < 0.8:
                return bin_("=", fn("count", bin_("|", path([step("self", T_NODE)]), fn("current"))), num(self.r.choice([1, 2])))
            return bin_(self.r.choice(["<", ">="]), fn("count", path([step("ancestor", T_NODE, abbr=False)])), fn("count", path([step("ancestor", T_NODE, abbr=False)], start=fn("current"))))
        if d <= 0:
            return self.ns(0)
        return self.any(d - 1)

    def step(self, d, axis=None):
        axis = axis or self.r.choice(AXES + ["child"] * 6 + ["attribute"] * 2 + ["descendant"] * 2)
        preds = []
        while self.r.random() < (0.35 if d > 0 else 0.15) and len(preds) < 2:
            preds.append(self.pred(d - 1))
        return step(axis, self.test(axis), *preds, abbr=self.r.random() < 0.8)

    def ns(self, d):
        r = self.r.random()
        nsvars = [k for k, t in self.vars.items() if t == "ns"]
        if self.ext and d > 0 and r < 0.18:
            c = self.r.random()
            if c < 0.2:
                return xfn(self.r.choice(["set", "xalan"]), "distinct", self.ns(d - 1))
            if c < 0.7:
                lib = self.r.choice(["set", "set", "xalan"])
                nm = self.r.choice(["difference", "intersection", "leading", "trailing"] if lib == "set" else ["difference", "intersection"])
                return xfn(lib, nm, self.ns(d - 1), self.ns(d - 1))
            return xfn("math", self.r.choice(["highest", "lowest"]), self.ns(d - 1))
        if d <= 0 or r < 0.55:
            steps = []
            n = self.r.choice([1, 1, 2, 2, 3])
            for i in range(n):
                if i > 0 and self.r.random() < 0.25:
                    steps.append(dict(DOS))
                steps.append(self.step(d))
            abs_ = self.r.random() < 0.25
            if abs_ and self.r.random() < 0.3:
                steps.insert(0, dict(DOS))
            return path(steps, abs_)
        if r < 0.7:
            return bin_("|", self.ns(d - 1), self.ns(d - 1))
        if r < 0.8:
            return filt(self.ns(d - 1), self.pred(d - 1))
        if r < 0.88:
            return path([self.step(d - 1)], start=filt(self.ns(d - 1), self.pred(d - 1)) if self.r.random() < 0.5 else self.ns_primary(d - 1))
        if r < 0.93 and nsvars:
            return var(self.r.choice(nsvars))
        if r < 0.97:
            if self.keys and self.r.random() < 0.6:
                arg = lit(self.r.choice(["1", "2", "t", "", "u", "a", "b"])) if self.r.random() < 0.6 else self.ns(d - 1)
                return fn("key", lit(self.r.choice(self.keys)), arg)
            return fn("id", self.str_(d - 1) if self.r.random() < 0.7 else self.ns(d - 1))
        return path([], abs_=True)

    def ns_primary(self, d):
        nsvars = [k for k, t in self.vars.items() if t == "ns"]
        if self.current and self.r.random() < 0.35:
            return fn("current")
        if nsvars and self.r.random() < 0.5:
            return var(self.r.choice(nsvars))
        return fn("id", lit(self.r.choice(["i1", "i2", "i1 i2"])))

    def num_(self, d):
        r = self.r.random()
        numvars = [k for k, t in self.vars.items() if t == "num"]
        if self.ext and d > 0 and r < 0.1:
            if self.r.random() < 0.7:
                return xfn("math", self.r.choice(["min", "max"]), self.ns(d - 1))
            return xfn("math", "abs", self.num_(d - 1))
        if d <= 0 or r < 0.3:
            c = self.r.random()
            if c < 0.6:
                return num(self.r.randint(0, 4))
            if c < 0.8:
                return num8(self.r.choice([4, 12, 20, 2, 1, 10]))
            if c < 0.9 and numvars:
                return var(self.r.choice(numvars))
            return self.r.choice([fn("position"), fn("last")])
        if r < 0.55:
            return bin_(self.r.choice(["+", "-", "*", "div", "mod"]), self.num_(d - 1), self.num_(d - 1))
        if r < 0.62:
            return neg(self.num_(d - 1))
        if r < 0.72:
            if self.nsmap and self.r.random() < 0.25:
                return fn("count", path([step("namespace", self.test("namespace"), abbr=False)]))
            return fn("count", self.ns(d - 1))
        if r < 0.78:
            return fn("sum", self.ns(d - 1))
        if r < 0.86:
            return fn(self.r.choice(["floor", "ceiling", "round"]), self.num_(d - 1))
        if r < 0.93:
            return fn("number", self.any(d - 1)) if self.r.random() < 0.8 else fn("number")
        return fn("string-length", self.str_(d - 1)) if self.r.random() < 0.8 else fn("string-length")

    def str_(self, d):
        r = self.r.random()
        strvars = [k for k, t in self.vars.items() if t == "str"]
        if self.ext and d > 0 and r < 0.12:
            c = self.r.random()
            if c < 0.3:
                return xfn("exsl", "object-type", self.any(d - 1))
            if c < 0.5:
                return xfn("str", "concat", self.ns(d - 1))
            if c < 0.75:
                a = [self.num_(d - 1)] + ([lit(self.r.choice(["ab", "-", "", "xyz"]))] if self.r.random() < 0.6 else [])
                return xfn("str", "padding", *a)
            a = [self.str_(d - 1), lit(self.r.choice(["......", "abc", "", "0000"]))] + ([lit(self.r.choice(["left", "right"]))] if self.r.random() < 0.6 else [])
            return xfn("str", "align", *a)
        if d <= 0 or r < 0.3:
            if strvars and self.r.random() < 0.2:
                return var(self.r.choice(strvars))
            return lit(self.r.choice(self.strs + ("tu", "a b", " t  u ", "1.5", "-2", "abc", "i1")))
        if r < 0.4:
            return fn("string", self.any(d - 1)) if self.r.random() < 0.8 else fn("string")
        if r < 0.5:
            return fn("concat", *[self.str_(d - 1) for _ in range(self.r.choice([2, 2, 3]))])
        if r < 0.58:
            return fn(self.r.choice(["substring-before", "substring-after"]), self.str_(d - 1), self.str_(d - 1))
        if r < 0.7:
            a = [self.str_(d - 1), self.num_(d - 1)]
            if self.r.random() < 0.6:
                a.append(self.num_(d - 1))
            return fn("substring", *a)
        if r < 0.78:
            return fn("normalize-space", self.str_(d - 1)) if self.r.random() < 0.8 else fn("normalize-space")
        if r < 0.86:
            return fn("translate", self.str_(d - 1), lit(self.r.choice(["abt", "tu", "12", "t"])), lit(self.r.choice(["AB", "x", "", "uvw"])))
        if r < 0.94:
            if self.nsmap and self.r.random() < 0.3:
                # the relative order of namespace nodes is implementation-dependent (XPath 5.4): address them by name
                return fn(self.r.choice(["name", "local-name", "string"]), path([step("namespace", t_name(self.r.choice(["xml", "p", "q"])), abbr=False)]))
            return fn(self.r.choice(["name", "local-name", "namespace-uri"]), self.ns(d - 1)) if self.r.random() < 0.7 else fn(self.r.choice(["name", "local-name"]))
        return self.ns(d - 1)       # a node-set used as a string

    def bool_(self, d):
        r = self.r.random()
        if self.ext and d > 0 and r < 0.08:
            lib = self.r.choice(["set", "xalan"])
            return xfn(lib, "has-same-node" if lib == "set" else "hasSameNodes", self.ns(d - 1), self.ns(d - 1))
        if self.current and r < 0.06:
            # XSLT 15: element-available / function-available / system-property (stylesheet context only)
            c = self.r.random()
            if c < 0.4:
                return fn("element-available", lit(self.r.choice(["xsl:if", "xsl:for-each", "xsl:nonesuch", "xsl:template", "if", "xsl:value-of", "xsl:fallback"])))
            if c < 0.8:
                return fn("function-available", lit(self.r.choice(["key", "document", "nonesuch", "concat", "format-number", "current", "generate-id", "not", "xsl:key"])))
            return bin_(self.r.choice(["=", ">="]), fn("system-property", lit("xsl:version")), num(1))
        if d <= 0 or r < 0.15:
            return fn(self.r.choice(["true", "false"]))
        if r < 0.5:
            return bin_(self.r.choice(["=", "!=", "<", "<=", ">", ">="]), self.any(d - 1), self.any(d - 1))
        if r < 0.62:
            return bin_(self.r.choice(["and", "or"]), self.any(d - 1), self.any(d - 1))
        if r < 0.72:
            return fn("not", self.any(d - 1))
        if r < 0.8:
            return fn("boolean", self.any(d - 1))
        if r < 0.9:
            return fn(self.r.choice(["starts-with", "contains"]), self.str_(d - 1), self.str_(d - 1))
        return fn("lang", lit(self.r.choice(["en", "EN", "en-US", "de"])))

    def any(self, d):
        return self.maybe_eval(self.r.choice([self.ns, self.ns, self.num_, self.str_, self.bool_])(d), 0.05)
