"""C03 input renderer: turns the case descriptors enumerated by MC_ApiProtocol!Cases (class, role, kind, seed, i, d, v)
into bytes, measures the seeds (the index ranges TLC enumerates over), and adds the seeded byte-level fuzz inputs.
Nothing here computes an expected outcome: the verdict of a class is ApiProtocol!Verdict.  The only judgement made here is
a sanity check of the RENDERER with an independent parser (expat): a case of a not-well-formed class that expat accepts, or
a case of a well-formed class that expat refuses, is dropped and counted (a mutation that happened to keep the text
well-formed, e.g. swapping two identical tags)."""
import json, random, re
import xml.parsers.expat

XSLURI = "http://www.w3.org/1999/XSL/Transform"
XSLNS = 'xmlns:xsl="%s"' % XSLURI

# ------------------------------------------------------------------------------------------------ seeds
XML_SEEDS = {
    "xml1": ('<?xml version="1.0" encoding="UTF-8"?><doc xmlns:p="urn:p" id="r"><item n="2" g="x">b<sub/>t</item><!--c--><?pi x?>'
             '<item n="1" g="y">a &amp; <![CDATA[<&>]]></item><p:q xml:lang="en"> zé</p:q></doc>'),
    "xml2": '<doc><item n="2">b</item><item n="1">a</item></doc>',
}
XSL_SEEDS = {
    # generic: works on every well-formed document (used as the stylesheet of the "xml" role)
    "xslg": ('<?xml version="1.0"?><xsl:stylesheet version="1.0" %s><xsl:output method="xml" encoding="UTF-8"/>'
             '<xsl:template match="/"><out n="{count(//*)}" a="{count(//@*)}"><xsl:apply-templates/></out></xsl:template>'
             '<xsl:template match="*"><xsl:copy><xsl:copy-of select="@*"/><xsl:apply-templates/></xsl:copy></xsl:template>'
             '<xsl:template match="text()"><xsl:value-of select="."/></xsl:template>'
             '</xsl:stylesheet>' % XSLNS),
    # rich: most instruction kinds, on the xml1 / xml2 vocabulary
    "xslr": ('<xsl:stylesheet version="1.0" %s xmlns:p="urn:p" exclude-result-prefixes="p">'
             '<xsl:output method="xml" indent="no"/><xsl:strip-space elements="doc"/>'
             '<xsl:key name="g" match="item" use="@g"/><xsl:param name="par" select="\'dflt\'"/>'
             '<xsl:variable name="rtf"><a><b>1</b></a></xsl:variable>'
             '<xsl:attribute-set name="as"><xsl:attribute name="s">v</xsl:attribute></xsl:attribute-set>'
             '<xsl:decimal-format name="d" decimal-separator="," grouping-separator="."/>'
             '<xsl:template match="/"><out par="{$par}" xsl:use-attribute-sets="as">'
             '<xsl:apply-templates select="doc/item"><xsl:sort select="@n" data-type="number" order="descending"/></xsl:apply-templates>'
             '<xsl:for-each select="key(\'g\',\'x\')"><k><xsl:number/></k></xsl:for-each>'
             '<xsl:call-template name="t"><xsl:with-param name="x" select="count(//item)"/></xsl:call-template>'
             '<xsl:copy-of select="$rtf"/>'
             '<xsl:element name="e{1+1}"><xsl:comment>c</xsl:comment><xsl:processing-instruction name="p">d</xsl:processing-instruction></xsl:element>'
             '<f><xsl:value-of select="format-number(1234.5, \'#.##0,00\', \'d\')"/></f>'
             '<s><xsl:value-of select="translate(substring-after(string(doc/item[2]), \'\'), \'ab\', \'AB\')"/></s>'
             '</out></xsl:template>'
             '<xsl:template match="item"><xsl:variable name="v" select="@n * 2"/><xsl:choose><xsl:when test="$v &gt; 2"><big n="{$v}">'
             '<xsl:apply-templates/></big></xsl:when><xsl:otherwise><small><xsl:value-of select="."/></small></xsl:otherwise></xsl:choose></xsl:template>'
             '<xsl:template match="sub"><xsl:if test="not(node())"><xsl:text>-</xsl:text></xsl:if></xsl:template>'
             '<xsl:template name="t"><xsl:param name="x"/><t><xsl:value-of select="$x"/></t></xsl:template>'
             '</xsl:stylesheet>' % XSLNS),
}
EXPR_SEEDS = {
    "e1": "count(//item[@n = '2']) + string-length(concat('a', \"b\")) * 2",
    "e2": "/doc/item[position() = last()]/@n | //sub[not(node())]",
    "e3": "substring(translate(string(/doc/item[1]), 'b', 'B'), 1, 3) = 'Bt' and -(3 - 5) >= 2 div 1",
    # every axis that walks the tree, started from attribute and namespace nodes (which are not among their parents' children)
    "e4": "count(//@*/following::*) + count(//@*/preceding::node()) + count(//@*/following-sibling::*) + count(//@*/ancestor-or-self::node()[last()]) + count(//namespace::*/following::*) + count(//namespace::*/preceding::*) + count(//@*/descendant-or-self::node())",
}
# the fixed inputs of the non-mutated roles
SEED_XML, SEED_XSL, SEED_EXPR = "xml1", "xslg", "count(//*) + string-length(string(/)) + count(//@*)"
PARAM_XSL = ('<xsl:stylesheet version="1.0" %s><xsl:param name="p" select="0"/><xsl:template match="/"><out><xsl:value-of select="$p"/>'
             '<xsl:copy-of select="$p"/></out></xsl:template></xsl:stylesheet>' % XSLNS)

DOC_SEEDS = dict(XML_SEEDS, **XSL_SEEDS)

TAG_RE = re.compile(r"<(/?)([A-Za-z_][\w:.-]*)((?:\s+[\w:.-]+\s*=\s*(?:\"[^\"]*\"|'[^']*'))*)\s*(/?)>")
ATTR_RE = re.compile(r"([\w:.-]+)\s*=\s*(\"[^\"]*\"|'[^']*')")
STRUCTURAL = {"xsl:when", "xsl:otherwise", "xsl:sort", "xsl:with-param", "xsl:param", "xsl:template", "xsl:stylesheet", "xsl:output",
              "xsl:key", "xsl:variable", "xsl:attribute-set", "xsl:decimal-format", "xsl:strip-space", "xsl:attribute"}


def tags(text):
    """start / end / empty tags of a seed: (start, end, kind, name, attr string)"""
    out = []
    for m in TAG_RE.finditer(text):
        kind = "end" if m.group(1) else ("empty" if m.group(4) else "start")
        out.append((m.start(), m.end(), kind, m.group(2), m.group(3)))
    return out


def paired(text):
    return [t for t in tags(text) if t[2] != "empty"]


def attrs(text):
    """every attribute value of every tag: (start of value incl. quote, end incl. quote)"""
    out = []
    for t in tags(text):
        base = t[0] + 1 + (1 if t[2] == "end" else 0) + len(t[3])
        for m in ATTR_RE.finditer(t[4]):
            out.append((base + m.start(2), base + m.end(2)))
    return out


def xsl_elems(text):
    return [t for t in tags(text) if t[2] != "end" and t[3].startswith("xsl:")]


def xsl_instr(text):
    """xsl: instructions that may be replaced by a literal result element without making the stylesheet invalid"""
    out, stack = [], []
    for t in tags(text):
        if t[2] == "end":
            stack.pop()
            continue
        parent = stack[-1] if stack else None
        ok = t[3].startswith("xsl:") and t[3] not in STRUCTURAL and parent is not None and (
            not parent.startswith("xsl:") or parent in ("xsl:template", "xsl:for-each", "xsl:if", "xsl:when", "xsl:otherwise", "xsl:element"))
        if t[3] in ("xsl:call-template", "xsl:apply-templates", "xsl:choose", "xsl:for-each", "xsl:number", "xsl:copy-of") and t[2] == "start":
            ok = ok and t[3] not in ("xsl:call-template", "xsl:apply-templates", "xsl:choose", "xsl:for-each")   # their children are structural
        if ok:
            out.append(t)
        if t[2] == "start":
            stack.append(t[3])
    return out


def metrics():
    m = {}
    for name, text in DOC_SEEDS.items():
        b = text.encode("utf-8")
        m[name] = {"role": "xml" if name in XML_SEEDS else "xsl", "len": len(b), "tags": len(paired(text)),
                   "starts": len([t for t in tags(text) if t[2] == "start"]), "quotes": len(attrs(text)),
                   "xslElems": len(xsl_elems(text)), "xslInstr": len(xsl_instr(text))}
    for name, text in EXPR_SEEDS.items():
        m[name] = {"role": "xpath", "len": len(text), "tags": 0, "starts": 0, "quotes": 0, "xslElems": 0, "xslInstr": 0,
                   "closers": len([c for c in text if c in ")]"]), "openers": len([c for c in text if c in "(["])}
    return m


# ------------------------------------------------------------------------------------------ building blocks
def sheet(body, top="", attrs_=""):
    return ('<xsl:stylesheet version="1.0" %s%s>%s<xsl:template match="/"><out>%s</out></xsl:template></xsl:stylesheet>'
            % (XSLNS, attrs_, top, body)).encode("utf-8")


def attr_escape(s):
    return s.replace("&", "&amp;").replace("<", "&lt;").replace('"', "&quot;")


def in_stylesheet(expr):
    """an XPath expression (text) as the select of xsl:value-of"""
    return sheet('<xsl:value-of select="%s"/>' % attr_escape(expr))


CHAR_VARIANTS = {
    "illegalChar": {"raw01": b"\x01", "raw0B": b"\x0b", "raw1F": b"\x1f", "ref1": b"&#1;", "ref8": b"&#x8;"},
    "brokenUtf8": {"lone80": b"\x80", "overlongC0AF": b"\xc0\xaf", "cutE282": b"\xe2\x82", "leadF8": b"\xf8\x88\x80\x80\x80", "ff": b"\xff",
                   "cutF09F": b"\xf0\x9f\x98"},
    "loneSurrogate": {"rawHigh": b"\xed\xa0\x80", "rawLow": b"\xed\xb0\x80", "refD800": b"&#xD800;", "refDFFF": b"&#xDFFF;"},
    "fffe": {"rawFFFE": b"\xef\xbf\xbe", "rawFFFF": b"\xef\xbf\xbf", "refFFFE": b"&#xFFFE;", "refFFFF": b"&#xFFFF;"},
    "nul": {"raw": b"\x00", "ref0": b"&#0;"},
}
XML_ENCODINGS = ["x-no-such-encoding", "UTF-99", "ebcdic-xx-yy", "utf 8"]
OUT_ENCODINGS = ["x-no-such-encoding", "UTF-99", "", "utf 8", "EBCDIC-CP-ZZ", "A" * 300]
WRONG_NS = [XSLURI + "/", XSLURI.replace("Transform", "transform"), "http://www.w3.org/TR/WD-xsl", "urn:x", XSLURI + " "]
UNKNOWN_ELEM = ["top", "body", "choose", "v2instruction", "v2top", "insideValueOf"]
REQUIRED = ["template:match", "value-of:select", "for-each:select", "if:test", "when:test", "with-param:name", "param:name", "variable:name",
            "key:name", "key:match", "key:use", "element:name", "attribute:name", "processing-instruction:name", "call-template:name",
            "copy-of:select", "import:href", "include:href", "namespace-alias:stylesheet-prefix", "attribute-set:name", "strip-space:elements",
            "preserve-space:elements", "stylesheet:version", "apply-imports:inTemplate"]
AVT_BAD = ["{", "}", "{{}", "{x", "x}", "a{1}}", "{'}", "{{{", "}{", "{1}{", "{concat('a','b'}"]
MAGNITUDES = {
    "1e89": "1" + "0" * 89, "1e90": "1" + "0" * 90, "1e100": "1" + "0" * 100, "2p63m1": "9223372036854775807", "2p63": "9223372036854775808",
    "2p64": "18446744073709551616", "1e19": "1" + "0" * 19, "1e21": "1" + "0" * 21, "1e22": "1" + "0" * 22, "1e308": "1" + "0" * 308,
    "max": "17976931348623157" + "0" * 292, "1e309": "1" + "0" * 309, "1em320": "0." + "0" * 319 + "1", "1em400": "0." + "0" * 399 + "1",
    "1em36": "0." + "0" * 35 + "1", "int400": "123456789" * 45, "frac400": "0." + "123456789" * 45, "big.frac": "1" + "0" * 60 + "." + "9" * 60,
    "2p53p1": "9007199254740993", "half": "0.5",
}
NUM_CONTEXTS = {"plain": "%s", "string": "string(%s)", "neg": "-%s", "times10": "%s * 10", "cmp": "%s = %s", "floor": "floor(%s)",
                "round": "round(-%s)", "substring": "substring('abcdef', 2, %s)", "concat": "concat('v', %s, 'w')", "sum": "%s + %s",
                "div": "1 div %s", "pred": "//item[%s]", "strlen": "string-length(string(%s * 10))", "bool": "boolean(%s)"}
NUM_PATTERNS = ["#", "0.00", "#,##0.###", "0" * 40, "#.#" + "#" * 60, "000,000.0", "#%", "#‰"]
NUM_FORMATS = ["1", "01", "a", "A", "i", "I", "001", "1.1", "(1)", "-1-",
               # punctuation only / empty / blank / very long / non-ASCII numbering tokens / unusual alphanumeric tokens
               ".", "-", "", "..", ". ", "0" * 300 + "1", "\u0661", "\u03b1", "\u3042", "\u0430", "zz", "1a1a"]
FINITE_BIG = ["1e89", "1e90", "1e100", "2p63m1", "2p63", "2p64", "1e19", "1e21", "1e22", "1e308", "max", "2p53p1"]
LONG = 65536
LONG_KINDS_XML = ["elementName", "attributeName", "piTarget", "prefix", "attributeValue", "nsUri", "entityName", "comment"]
LONG_KINDS_XSL = ["lreName", "variableName", "templateName", "modeName", "keyName", "elementAvt", "paramName", "attributeSetName", "piName", "lreAttr"]
LONG_KINDS_XPATH = ["nameTest", "prefixTest", "variableRef", "literal", "attrTest", "piLiteral"]
CDATA_LEN = [1, 2, 3, 1022, 1023, 1024, 1025, 2047, 2048, 4096, 5000]
CDATA_TAIL = ["]", "]]", "]]>", "x]]>x", "]]]", "]>"]
CDATA_VIA = ["literal", "valueOf", "copyOf", "text"]
DEEP_V = {"deepDocument": ["elements", "mixed", "attrs"], "deepTemplateBody": ["lre", "if", "forEach", "element", "variable"],
          "deepParens": ["parens", "calls", "unaryMinus"], "deepPredicates": ["nested", "chained", "filter"],
          "deepSteps": ["child", "descendant", "parent", "union", "or", "plus", "attrPred"]}
PARAM_EXPRS = ["'str'", "42", "1 div 0", "/doc/item[1]", "count(//item)", "//item/@n", "concat('a', 'b')", "true()", "-0.5", "string(//sub)",
               "\"q'q\"", "  7  ", "//item[@n = '1'] | /doc", "string-length('é€')"]
NONEXPR_DANGLING = ["+", "-", "*", "and", "or", "=", "!=", "<", "|", "/", "//", "div", "mod", ",", "::", "@", "$", "(", "["]
NONEXPR_JUNK = ["#", "%", "^", "{", "}", "~", "`", ";", "\\", "?", "1a", "'", '"', "!", "&"]
XPATH_ODD = ["'￾'", "'\ud800'", "'\x01'", "a￾", "\udc00", "'￿' = '￿'", "child::\x7f", "'\x00'"]


def magnitude(m):
    return MAGNITUDES[m]


def deep(cls, d, v):
    """(role, bytes, nodeset-valued?)"""
    if cls == "deepDocument":
        if v == "elements":
            return "xml", ("<a>" * d + "x" + "</a>" * d).encode(), False
        if v == "mixed":
            return "xml", ("<r>" + "<a>t" * d + "</a>" * d + "</r>").encode(), False
        return "xml", ("<r>" + '<a b="1">' * d + "</a>" * d + "</r>").encode(), False
    if cls == "deepTemplateBody":
        if v == "variable":       # a variable may not shadow another one of the same template: distinct names
            return "xsl", sheet("".join('<xsl:variable name="v%d">' % k for k in range(d)) + "x" + "</xsl:variable>" * d), False
        o, c = {"lre": ("<a>", "</a>"), "if": ('<xsl:if test="1">', "</xsl:if>"), "forEach": ('<xsl:for-each select=".">', "</xsl:for-each>"),
                "element": ('<xsl:element name="a">', "</xsl:element>")}[v]
        return "xsl", sheet(o * d + "x" + c * d), False
    if cls == "deepParens":
        if v == "parens":
            return "xpath", ("(" * d + "1" + ")" * d).encode(), False
        if v == "calls":
            return "xpath", ("not(" * d + "1" + ")" * d).encode(), False
        return "xpath", ("-" * d + "1").encode(), False
    if cls == "deepPredicates":
        if v == "nested":
            return "xpath", ("item" + "[item" * d + "]" * d).encode(), True
        if v == "chained":
            return "xpath", ("//item" + "[1]" * d).encode(), True
        return "xpath", ("(" * d + "//item" + ")[1]" * d).encode(), True
    if cls == "deepSteps":
        if v == "child":
            return "xpath", ("/doc" + "/item" * d).encode(), True
        if v == "descendant":
            return "xpath", ("/doc" + "/descendant::item" * d).encode(), True
        if v == "parent":
            return "xpath", ("//sub" + "/.." * d).encode(), True
        if v == "union":
            return "xpath", ("//item" + "|//sub" * d).encode(), True
        if v == "or":
            return "xpath", ("1" + " or 1" * d).encode(), False
        if v == "plus":
            return "xpath", ("1" + "+1" * d).encode(), False
        return "xpath", ("//item" + "/self::item[@n]" * d).encode(), True
    raise KeyError(cls)


def long_name(kind):
    n = "n" + "a" * (LONG - 1)
    if kind == "elementName":
        return "xml", ("<doc><%s>x</%s></doc>" % (n, n)).encode(), False
    if kind == "attributeName":
        return "xml", ('<doc %s="1">x</doc>' % n).encode(), False
    if kind == "piTarget":
        return "xml", ("<doc><?%s d?>x</doc>" % n).encode(), False
    if kind == "prefix":
        return "xml", ('<%s:doc xmlns:%s="urn:u">x</%s:doc>' % (n, n, n)).encode(), False
    if kind == "attributeValue":
        return "xml", ('<doc a="%s">x</doc>' % (n * 4)).encode(), False
    if kind == "nsUri":
        return "xml", ('<doc xmlns="urn:%s">x</doc>' % n).encode(), False
    if kind == "entityName":
        return "xml", ('<!DOCTYPE doc [<!ENTITY %s "v">]><doc>&%s;</doc>' % (n, n)).encode(), False
    if kind == "comment":
        return "xml", ("<doc><!--%s-->x</doc>" % (n * 4)).encode(), False
    if kind == "lreName":
        return "xsl", sheet("<%s>x</%s>" % (n, n)), False
    if kind == "lreAttr":
        return "xsl", sheet('<a %s="{1+1}">x</a>' % n), False
    if kind == "variableName":
        return "xsl", sheet('<xsl:variable name="%s" select="1"/><xsl:value-of select="$%s"/>' % (n, n)), False
    if kind == "templateName":
        return "xsl", sheet('<xsl:call-template name="%s"/>' % n, '<xsl:template name="%s">t</xsl:template>' % n), False
    if kind == "modeName":
        return "xsl", sheet('<xsl:apply-templates select="*" mode="%s"/>' % n, '<xsl:template match="*" mode="%s">m</xsl:template>' % n), False
    if kind == "keyName":
        return "xsl", sheet('<xsl:value-of select="count(key(\'%s\', \'x\'))"/>' % n, '<xsl:key name="%s" match="item" use="@g"/>' % n), False
    if kind == "elementAvt":
        return "xsl", sheet('<xsl:element name="{concat(\'n\', \'%s\')}">x</xsl:element>' % n[1:]), False
    if kind == "paramName":
        return "xsl", sheet('<xsl:value-of select="$%s"/>' % n, '<xsl:param name="%s" select="2"/>' % n), False
    if kind == "attributeSetName":
        return "xsl", sheet('<a xsl:use-attribute-sets="%s"/>' % n, '<xsl:attribute-set name="%s"><xsl:attribute name="s">v</xsl:attribute></xsl:attribute-set>' % n), False
    if kind == "piName":
        return "xsl", sheet('<xsl:processing-instruction name="%s">d</xsl:processing-instruction>' % n), False
    if kind == "nameTest":
        return "xpath", ("//" + n).encode(), True
    if kind == "prefixTest":
        return "xpath", ("//*[name() = '%s:x']" % n).encode(), True
    if kind == "variableRef":
        return "xpath", ("//item[@n = '%s']" % n).encode(), True
    if kind == "literal":
        return "xpath", ("string-length('%s')" % (n * 4)).encode(), False
    if kind == "attrTest":
        return "xpath", ("//@" + n).encode(), True
    if kind == "piLiteral":
        return "xpath", ("//processing-instruction('%s')" % n).encode(), True
    raise KeyError(kind)


def required(v):
    el, at = v.split(":")
    full = {
        "template": '<xsl:template match="item" name="q">x</xsl:template>', "value-of": '<xsl:value-of select="."/>',
        "for-each": '<xsl:for-each select="*">x</xsl:for-each>', "if": '<xsl:if test="1">x</xsl:if>',
        "when": '<xsl:choose><xsl:when test="1">x</xsl:when></xsl:choose>',
        "with-param": '<xsl:call-template name="t"><xsl:with-param name="x" select="1"/></xsl:call-template>',
        "param": '<xsl:param name="q" select="1"/>', "variable": '<xsl:variable name="q" select="1"/>',
        "key": '<xsl:key name="kk" match="item" use="@n"/>', "element": '<xsl:element name="e">x</xsl:element>',
        "attribute": '<e><xsl:attribute name="a">x</xsl:attribute></e>', "processing-instruction": '<xsl:processing-instruction name="p">x</xsl:processing-instruction>',
        "call-template": '<xsl:call-template name="t"/>', "copy-of": '<xsl:copy-of select="."/>', "import": '<xsl:import href="x.xsl"/>',
        "include": '<xsl:include href="x.xsl"/>', "namespace-alias": '<xsl:namespace-alias stylesheet-prefix="p" result-prefix="#default"/>',
        "attribute-set": '<xsl:attribute-set name="as"/>', "strip-space": '<xsl:strip-space elements="*"/>', "preserve-space": '<xsl:preserve-space elements="*"/>',
    }
    toplevel = {"template", "param", "key", "import", "include", "namespace-alias", "attribute-set", "strip-space", "preserve-space"}
    tmpl = '<xsl:template name="t"><xsl:param name="x"/>t</xsl:template>'
    if el == "stylesheet":
        return ('<xsl:stylesheet %s><xsl:template match="/"><out/></xsl:template></xsl:stylesheet>' % XSLNS).encode()
    if el == "apply-imports":     # xsl:apply-imports outside a template rule (inside for-each the current rule is null): XSLT 5.6
        return sheet('<xsl:for-each select="*"><xsl:apply-imports/></xsl:for-each>')
    frag = full[el]
    if el == "template":
        frag = "<xsl:template>x</xsl:template>"
    else:
        frag2 = re.sub(r'\s%s="[^"]*"' % re.escape(at), "", frag, count=1)
        assert frag2 != frag, v
        frag = frag2
    if el in toplevel:
        return sheet("x", tmpl + frag + ' ' if el != "namespace-alias" else tmpl + frag, ' xmlns:p="urn:p"')
    return sheet(frag, tmpl)


def unknown_elem(v):
    if v == "top":
        return sheet("x", '<xsl:frobnicate a="1"/>')
    if v == "body":
        return sheet('<xsl:frobnicate select="."/>')
    if v == "choose":
        return sheet('<xsl:choose><xsl:frobnicate/><xsl:when test="1">x</xsl:when></xsl:choose>')
    if v == "v2instruction":
        return sheet('<xsl:for-each-group select="*" group-by="name()">x</xsl:for-each-group>')
    if v == "v2top":
        return sheet("x", '<xsl:function name="f:x" xmlns:f="urn:f">x</xsl:function>')
    return sheet('<xsl:value-of select="."><xsl:frobnicate/></xsl:value-of>')


def cdata_case(L, tail, via):
    body = ("x" * max(0, L - len(tail)) + tail)
    esc = body.replace("&", "&amp;").replace("<", "&lt;").replace(">", "&gt;")
    top = '<xsl:output method="xml" cdata-section-elements="out c"/>'
    if via == "literal":
        return sheet(esc, top)
    if via == "text":
        return sheet("<c><xsl:text>%s</xsl:text></c>" % esc, top)
    if via == "valueOf":
        return sheet('<c><xsl:value-of select="\'%s\'"/></c>' % body.replace(">", "&gt;"), top)
    return sheet('<xsl:variable name="v"><c>%s</c></xsl:variable><xsl:copy-of select="$v"/>' % esc, top)


# --------------------------------------------------------------------------------------- materialise
def render(c):
    """descriptor -> (role, bytes, flags) or None when the index does not apply"""
    cls, kind, seed, i, d, v = c["cls"], c.get("kind", ""), c.get("seed", ""), c.get("i", 0), c.get("d", 0), c.get("v", "")
    fl = {}
    if cls == "seed":
        if seed in DOC_SEEDS:
            return c["role"], DOC_SEEDS[seed].encode("utf-8"), fl
        return "xpath", EXPR_SEEDS[seed].encode("utf-8"), fl
    if cls in ("truncate", "dropTag", "dupTag", "swapTag", "unclosedQuote") or cls in CHAR_VARIANTS or cls in ("unknownXmlEncoding", "xmlDeclVersion"):
        text = DOC_SEEDS[seed]
        b = text.encode("utf-8")

        def bo(pos):         # character offset -> byte offset
            return len(text[:pos].encode("utf-8"))
        if cls == "truncate":
            return c["role"], b[:i], fl
        if cls in ("dropTag", "dupTag", "swapTag"):
            ts = paired(text)
            t = ts[i - 1]
            if cls == "dropTag":
                return c["role"], (text[:t[0]] + text[t[1]:]).encode("utf-8"), fl
            if cls == "dupTag":
                return c["role"], (text[:t[1]] + text[t[0]:t[1]] + text[t[1]:]).encode("utf-8"), fl
            u = ts[i]
            return c["role"], (text[:t[0]] + text[u[0]:u[1]] + text[t[1]:u[0]] + text[t[0]:t[1]] + text[u[1]:]).encode("utf-8"), fl
        if cls == "unclosedQuote":
            a = attrs(text)[i - 1]
            return c["role"], (text[:a[1] - 1] + text[a[1]:]).encode("utf-8"), fl
        if cls in CHAR_VARIANTS:
            ins = CHAR_VARIANTS[cls][v]
            if kind == "text":
                st = [t for t in tags(text) if t[2] == "start"][i - 1]
                p = bo(st[1])
            else:
                a = attrs(text)[i - 1]
                p = bo(a[0] + 1)
            return c["role"], b[:p] + ins + b[p:], fl
        decl = '<?xml version="1.0" encoding="%s"?>' % v if cls == "unknownXmlEncoding" else '<?xml version="%s" encoding="UTF-8"?>' % v
        body = re.sub(r"^<\?xml[^>]*\?>", "", text)
        return c["role"], (decl + body).encode("utf-8"), fl
    if cls == "wrongXslNamespaceRoot":
        return "xsl", DOC_SEEDS[seed].replace('"%s"' % XSLURI, '"%s"' % v, 1).encode("utf-8"), fl
    if cls == "wrongXslNamespaceInner":
        text = DOC_SEEDS[seed]
        t = xsl_instr(text)[i - 1]
        p = t[0] + 1 + len(t[3])
        return "xsl", (text[:p] + ' xmlns:xsl="urn:not-xslt"' + text[p:]).encode("utf-8"), fl
    if cls == "unknownXslAttribute":
        text = DOC_SEEDS[seed]
        t = xsl_elems(text)[i - 1]
        p = t[0] + 1 + len(t[3])
        return "xsl", (text[:p] + ' frob="1"' + text[p:]).encode("utf-8"), fl
    if cls == "unknownXslElement":
        return "xsl", unknown_elem(v), fl
    if cls == "missingRequiredAttribute":
        return "xsl", required(v), fl
    if cls == "avtUnbalanced":
        return "xsl", sheet('<a b="%s"/>' % attr_escape(v)), fl
    if cls == "unknownOutputEncoding":
        return "xsl", sheet("xé", '<xsl:output method="xml" encoding="%s"/>' % attr_escape(v)), fl
    if cls in DEEP_V:
        role, b, ns = deep(cls, d, v)
        return role, b, {"nodeset": ns}
    if cls == "numberLiteral":
        m, ctx = v.split("/")
        n = magnitude(m)
        e = NUM_CONTEXTS[ctx].replace("%s", n)
        return "xpath", e.encode(), {"nodeset": ctx == "pred"}
    if cls == "numberFormat":
        m, k = v.split("/")
        return "xsl", sheet('<xsl:value-of select="format-number(%s, \'%s\')"/>' % (magnitude(m), NUM_PATTERNS[int(k)])), fl
    if cls == "numberValue":
        m, k = v.split("/")
        return "xsl", sheet('<xsl:number value="%s" format="%s"/>' % (magnitude(m), NUM_FORMATS[int(k)])), fl
    if cls == "longName":
        role, b, ns = long_name(v)
        return role, b, {"nodeset": ns}
    if cls == "cdataBracket":
        L, k, via = v.split("/")
        return "xsl", cdata_case(int(L), CDATA_TAIL[int(k)], via), fl
    if cls == "manyDecimalFormats":
        # i named decimal formats with different symbol sets, each used twice (a processor may cache one formatter per set)
        decl = "".join('<xsl:decimal-format name="f%d" decimal-separator="%s" grouping-separator="%s"/>' % (k, ",:!|^"[k % 5], "._ ~+"[(k // 5) % 5]) for k in range(i))
        uses = "".join("<v><xsl:value-of select=\"format-number(1234.5, '#%s##0%s0', 'f%d')\"/></v>" % ("._ ~+"[(k // 5) % 5], ",:!|^"[k % 5], k) for k in list(range(i)) * 2)
        return "xsl", sheet(uses, decl), fl
    if cls == "manyLiveStrings":
        # i computed strings alive at the same moment (a processor may keep a bounded cache of string buffers): v = "scope": i string-valued
        # variables in one template; v = "recursion": a named template that calls itself i levels deep with a computed string parameter
        if v == "scope":
            body = "".join('<xsl:variable name="v%d" select="concat(\'a\', %d)"/>' % (k, k) for k in range(i)) + '<xsl:value-of select="$v%d"/>' % (i - 1)
            return "xsl", sheet(body), fl
        top = ('<xsl:template name="r"><xsl:param name="n"/><xsl:param name="s"/><xsl:choose><xsl:when test="$n &gt; 0"><xsl:call-template name="r">'
               '<xsl:with-param name="n" select="$n - 1"/><xsl:with-param name="s" select="concat(substring($s, 1, 3), $n)"/></xsl:call-template></xsl:when>'
               '<xsl:otherwise><xsl:value-of select="$s"/></xsl:otherwise></xsl:choose></xsl:template>')
        return "xsl", sheet('<xsl:call-template name="r"><xsl:with-param name="n" select="%d"/><xsl:with-param name="s" select="\'a\'"/></xsl:call-template>' % i, top), fl
    if cls == "dotSegmentHref":
        # a relative URI reference whose path has a segment that BEGINS with a dot without being "." or ".." (RFC 2396 5.2 step 6 only removes
        # those two); the target does not exist: an error or an empty result, but the call must return
        if i == 1:
            return "xsl", sheet("<x/>", '<xsl:include href="%s"/>' % v), fl
        if i == 2:
            return "xsl", sheet("<x/>").replace(b"<xsl:template", ('<xsl:import href="%s"/><xsl:template' % v).encode(), 1), fl
        return "xsl", sheet('<xsl:value-of select="count(document(\'%s\'))"/>' % v), fl
    if cls == "manyDefaultCounts":
        # xsl:number without count= on nodes with i different names (elements, then attributes, of a result tree fragment turned into a
        # node-set): the default count pattern is built - and may be cached - per name at run time
        body = "".join('<n%d a%d="v"/>' % (k, k) for k in range(i))
        uses = ('<xsl:for-each select="exsl:node-set($t)/*"><xsl:number/>,</xsl:for-each>|<xsl:for-each select="exsl:node-set($t)/*/@*"><xsl:number/>,</xsl:for-each>|'
                '<xsl:for-each select="exsl:node-set($t)/*"><xsl:number level="any"/>,</xsl:for-each>')
        return "xsl", sheet(uses, '<xsl:variable name="t">%s</xsl:variable>' % body, ' xmlns:exsl="http://exslt.org/common"'), fl
    if cls == "paramExpression":
        return "param", PARAM_EXPRS[i - 1].encode("utf-8"), fl
    if cls == "nonExpression":
        text = EXPR_SEEDS[seed] if seed else ""
        if kind == "dropClose":
            ps = [k for k, ch in enumerate(text) if ch in ")]"]
            return "xpath", (text[:ps[i - 1]] + text[ps[i - 1] + 1:]).encode(), fl
        if kind == "dropOpen":
            ps = [k for k, ch in enumerate(text) if ch in "(["]
            p = ps[i - 1]
            if text[p] == "(" and p > 0 and (text[p - 1].isalnum() or text[p - 1] == "-"):
                return None               # a function call's parenthesis: what is left may still be an expression followed by junk - keep it simple
            return "xpath", (text[:p] + text[p + 1:]).encode(), fl
        if kind == "dangling":
            return "xpath", (text + " " + v).encode(), fl
        if kind == "leading":
            return "xpath", (v + " " + text).encode() if v in ("=", "!=", "<", "|", ",", ")", "]", "div 2 div") else None, fl
        if kind == "junk":
            return "xpath", (text + " " + v).encode(), fl
        if kind == "unterminated":
            return "xpath", (text + " = 'abc").encode(), fl
        if kind == "doubleOp":
            return "xpath", ("1 %s %s 2" % (v, v)).encode() if v in ("=", "!=", "<", "|", "div", "mod", "and", "or", ",") else None, fl
        if kind == "badAxis":
            return "xpath", b"frobnicate::item", fl
        if kind == "unknownFunction":
            return "xpath", b"frobnicate(1, 2)", fl
        if kind == "empty":
            return "xpath", {"0": b"", "1": b" ", "2": b"()", "3": b"[]", "4": b"a[]", "5": b"f(", "6": b"1 2", "7": b"a b", "8": b"'a' 'b'", "9": b"@", "10": b"a::", "11": b"..a", "12": b"a/[1]"}[v], fl
        return None
    if cls == "undefinedVariable":
        return c["role"], v.encode(), fl
    if cls == "xpathIllegalChar":
        return "xpath", XPATH_ODD[i - 1].encode("utf-8", "surrogatepass"), fl
    raise KeyError(cls)


def well_formed(b):
    p = xml.parsers.expat.ParserCreate()
    try:
        p.Parse(b, True)
        return True
    except (xml.parsers.expat.ExpatError, LookupError, ValueError):
        return False


NOT_WF = {"truncate", "dropTag", "dupTag", "swapTag", "unclosedQuote", "illegalChar", "brokenUtf8", "loneSurrogate", "fffe", "nul", "unknownXmlEncoding"}


def renderer_consistent(cls, role, b, d=0):
    """independent check of the renderer only (see module docstring)"""
    if role not in ("xml", "xsl"):
        return True
    if d > 5000:
        return True                     # expat is itself recursive-free but slow here; the construction is regular
    wf = well_formed(b)
    if cls in NOT_WF:
        return not wf
    if cls == "fuzz":
        return True
    return wf


# ------------------------------------------------------------------------------------------------- fuzz
def fuzz_inputs(seed, n):
    """seeded byte-level mutations of the seeds: bit flips, random bytes, deletions, splices.  (role, bytes)"""
    rng = random.Random(1000003 * seed + 17)
    pool = [("xml", t.encode("utf-8")) for t in XML_SEEDS.values()] + [("xsl", t.encode("utf-8")) for t in XSL_SEEDS.values()] + \
           [("xpath", t.encode("utf-8")) for t in EXPR_SEEDS.values()] + [("param", t.encode("utf-8")) for t in PARAM_EXPRS[:6]]
    interesting = [b"\x00", b"\xff", b"\xfe\xff", b"\xef\xbb\xbf", b"]]>", b"&#", b"&#x110000;", b"<!--", b"<![CDATA[", b"{", b"}", b"{{", b"'", b'"',
                   b"<xsl:", b"</", b"/>", b"1e999", b"9" * 120, b"\xed\xa0\x80", b"%s", b"$", b"::", b"//", b"[", b"(", b"xmlns:xsl=\"\"", b"<?xml version=\"1.1\"?>"]
    out = []
    for _ in range(n):
        role, b = rng.choice(pool)
        b = bytearray(b)
        for _ in range(rng.choice([1, 1, 2, 3, 5])):
            op = rng.choice(["flip", "byte", "del", "dup", "splice", "ins", "trunc"])
            if not b:
                b = bytearray(b"<a/>")
            p = rng.randrange(len(b))
            if op == "flip":
                b[p] ^= 1 << rng.randrange(8)
            elif op == "byte":
                b[p] = rng.randrange(256)
            elif op == "del":
                del b[p:p + rng.choice([1, 1, 2, 5, 20])]
            elif op == "dup":
                q = min(len(b), p + rng.choice([1, 3, 10, 40]))
                b[p:p] = b[p:q] * rng.choice([1, 2, 8])
            elif op == "splice":
                other = rng.choice([x for r, x in pool if r == role])
                q = rng.randrange(len(other))
                b[p:] = other[q:]
            elif op == "ins":
                b[p:p] = rng.choice(interesting)
            elif op == "trunc" and rng.random() < 0.3:
                del b[p:]
        out.append((role, bytes(b)))
    return out


if __name__ == "__main__":
    print(json.dumps(metrics(), indent=1))
