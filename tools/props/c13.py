"""C13 - whitespace stripping acts as if the stripped text nodes were not in the source.
GEN: seeded documents with whitespace-only text in every position class x strip/preserve declaration lists
     (*, QName, conflicting, spread over the import tree main > B > A > A1) x observation expressions run from every element.
RUN: harness/xslt.cpp with the declarations; observations through xsl:variable select events, xsl:copy-of through the result tree.
TV : Trace_C13.tla evaluates each observation with XPathSem on the PHYSICALLY stripped document (Strip!RemoveNodes)."""
import os, random, json, subprocess
from xml.sax.saxutils import quoteattr
import vlib, xdm, xpgen
from xpgen import *
from vlib import ROOT
from props import c02

PROP = "C13"
TRACE = os.path.join(ROOT, "spec/trace/Trace_C13.tla")
XSLNS = 'xmlns:xsl="http://www.w3.org/1999/XSL/Transform"'


def gen_doc(rng):
    WS = [" ", "\n", "  ", " \n "]
    def elem(d):
        name = rng.choice(["a", "b", "c"])
        kids = []
        n = rng.randint(0, 3) if d > 0 else rng.randint(0, 1)
        def maybe_ws():
            if rng.random() < 0.55 and not (kids and kids[-1]["k"] == "text"):
                kids.append(xdm.T(rng.choice(WS)))
        for _ in range(n):
            maybe_ws()
            r = rng.random()
            if r < 0.6 and d > 0:
                kids.append(elem(d - 1))
            elif r < 0.8:
                if not (kids and kids[-1]["k"] == "text"):
                    kids.append(xdm.T(rng.choice(["t", "u", " t ", "1", "1", "2", "12", "5"])))      # digits: number values of elements
            elif r < 0.9:
                kids.append(xdm.C("c"))
            else:
                kids.append(xdm.PI("t", "d"))
        maybe_ws()
        attrs = [xdm.A("x", rng.choice(["1", " ", ""]))] if rng.random() < 0.3 else []
        if rng.random() < 0.18:           # 3.4: xml:space in the SOURCE overrides the declarations for the whole subtree, until "default"
            attrs.append(xdm.A("space", rng.choice(["preserve", "preserve", "default"]), p="xml", u=xdm.XML_NS))
        return xdm.E(name, *kids, a=attrs)
    return xdm.R(elem(3))


# import tree of the generated stylesheets: main imports A then B; A imports A1.  Import precedence (XSLT 2.6.2), lowest first:
MODS = ["A1", "A", "B", "main"]
PREC = {m: i + 1 for i, m in enumerate(MODS)}


def gen_decls(rng):
    tests = [({"t": "any"}, "*"), ({"t": "name", "uri": [], "local": xdm.cps("a")}, "a"), ({"t": "name", "uri": [], "local": xdm.cps("b")}, "b"),
             ({"t": "name", "uri": [], "local": xdm.cps("c")}, "c")]
    out = []
    style = rng.random()
    for _ in range(rng.randint(1, 4) if style < 0.7 else rng.randint(2, 5)):
        k = rng.sample(tests, rng.randint(1, 2))
        if style < 0.5:
            mod = "main" if rng.random() < 0.75 else "A"
        elif style < 0.7:
            mod = rng.choice(MODS)
        else:
            mod = rng.choice(["A", "B", "A1"])              # conflicts decided among imported modules only
        out.append({"strip": rng.random() < 0.6, "tests": k, "mod": mod})
    return out


def observations():
    P = lambda *steps, **kw: path(list(steps), **kw)
    ch = lambda t, *p: step("child", t, *p)
    return [P(ch(T_NODE)), P(ch(T_TEXT)), fn("count", P(ch(T_NODE))), fn("count", P(step("descendant", T_TEXT))), P(ch(T_ANY, num(1))), P(ch(T_NODE, num(1))), P(ch(T_NODE, fn("last"))),
            P(ch(T_NODE, num(2))), fn("string", P(step("self", T_NODE))), fn("string-length", P(step("self", T_NODE))), fn("normalize-space"),
            P(step("following-sibling", T_NODE, num(1), abbr=False)), P(step("preceding-sibling", T_NODE, num(1), abbr=False)), P(step("following", T_TEXT, abbr=False)),
            P(step("preceding", T_NODE, num(1), abbr=False)), P(step("descendant", T_NODE)), fn("count", P(step("preceding-sibling", T_NODE, abbr=False))),
            P(ch(T_ANY), ch(T_TEXT)), P(ch(T_TEXT, bin_("=", fn("position"), fn("last")))), fn("boolean", P(ch(T_TEXT))), fn("concat", P(ch(T_NODE, num(1))), lit("|")),
            fn("sum", P(ch(T_TEXT))), fn("name", P(ch(T_NODE, num(1)))), P(step("parent", T_NODE), ch(T_NODE)), fn("count", P(step("parent", T_NODE), ch(T_TEXT))),
            # the NUMBER value of a node is the number its (stripped) string-value spells: "12 5" is NaN, "125" is not
            fn("number", P(step("self", T_NODE))), bin_("+", P(step("self", T_NODE)), num(1)), fn("number", P(ch(T_ANY, num(1)))), bin_("*", P(ch(T_ANY, num(1))), num(2)),
            fn("floor", P(step("self", T_NODE))), fn("number"), bin_("=", P(step("self", T_NODE)), num(12)), fn("sum", P(ch(T_ANY)))]


# keys whose match or use expression sees whitespace-only text nodes (12.2: "every observation is consistent": key tables are built
# from the stripped tree)
P_ = lambda *steps, **kw: path(list(steps), **kw)
KEYS = [{"name": "kt", "match": P_(step("child", T_TEXT)), "use": fn("string-length", P_(step("self", T_NODE)))},
        {"name": "kn", "match": P_(step("child", T_ANY)), "use": fn("count", P_(step("child", T_NODE)))},
        {"name": "kc", "match": P_(step("child", T_ANY)), "use": P_(step("child", T_TEXT))},
        {"name": "kp", "match": P_(step("child", T_TEXT)), "use": fn("name", P_(step("parent", T_NODE, abbr=False)))},
        # use expressions that are node-sets of ELEMENTS: the key value is the element's string-value, which must not contain stripped text
        {"name": "ks", "match": P_(step("child", T_ANY)), "use": P_(step("self", T_NODE))},
        {"name": "kd", "match": P_(step("child", T_ANY)), "use": P_(step("child", T_ANY))}]
SPEC_KEYS = [{"name": xdm.cps(k["name"]), "match": xpgen.strip_render_only(k["match"]), "use": xpgen.strip_render_only(k["use"])} for k in KEYS]
# xsl:number instructions that count text / all nodes, run on every element (7.7 on the stripped tree)
# (the count pattern is spelled out instead of node(): the pattern node() has its own known finding under C09)
def _anynode():
    return bin_("|", bin_("|", bin_("|", P_(step("child", T_ANY)), P_(step("child", T_TEXT))), P_(step("child", T_COMMENT))), P_(step("child", t_pi())))
NUMBERS = [{"level": "single", "count": _anynode()}, {"level": "multiple", "count": _anynode()},
           {"level": "any", "count": _anynode()}, {"level": "any", "count": bin_("|", P_(step("child", T_TEXT)), P_(step("child", t_name("a"))))},
           {"level": "multiple", "count": bin_("|", P_(step("child", T_TEXT)), P_(step("child", T_ANY)))}]


def key_observations():
    return [fn("count", fn("key", lit("kt"), num(1))), fn("key", lit("kn"), num(2)), fn("key", lit("kn"), fn("count", P_(step("child", T_NODE)))),
            fn("count", fn("key", lit("kc"), lit(" "))), fn("key", lit("kc"), lit("t")), fn("count", fn("key", lit("kp"), fn("name"))),
            fn("key", lit("kt"), fn("string-length", P_(step("child", T_NODE, num(1))))), fn("count", fn("key", lit("kn"), num(0))),
            fn("count", fn("key", lit("ks"), fn("string", P_(step("self", T_NODE))))), fn("key", lit("kd"), fn("string", P_(step("child", T_ANY, num(1))))),
            fn("count", fn("key", lit("kd"), P_(step("child", T_ANY)))), fn("key", lit("ks"), fn("normalize-space"))]


def render(decls, obs, numbers=()):
    """-> {file name: text}; modules without declarations are not imported (unless needed to reach A1)"""
    used = {d["mod"] for d in decls}
    if "A1" in used:
        used.add("A")
    body = {m: [] for m in MODS}
    for d in decls:
        body[d["mod"]].append('<xsl:%s-space elements="%s"/>' % ("strip" if d["strip"] else "preserve", " ".join(t[1] for t in d["tests"])))
    head = '<xsl:stylesheet version="1.0" %s>' % XSLNS
    files = {}
    main = [head] + ['<xsl:import href="%s.xsl"/>' % m for m in ("A", "B") if m in used] + body["main"]
    for k in KEYS:
        main.append('<xsl:key name="%s" match=%s use=%s/>' % (k["name"], quoteattr(xpgen.render(k["match"])), quoteattr(xpgen.render(k["use"]))))
    nums = "".join('<n><xsl:number level="%s" count=%s format="1.1"/></n>' % (nm["level"], quoteattr(xpgen.render(nm["count"]))) for nm in numbers)
    main.append('<xsl:template match="/"><o><xsl:copy-of select="."/></o><xsl:for-each select="//* | /."><xsl:call-template name="obs"/></xsl:for-each>'
                '<xsl:for-each select="//*"><e>%s</e></xsl:for-each></xsl:template>' % nums)
    # node-set observations also reach the result as CHARACTER EVENTS of a node-set OBJECT: xsl:value-of / string-length() of a variable
    # that holds the node-set (not of a path, which the processor walks itself) - <vo> / <vl> elements, in the order of vo_indexes(obs)
    qs = "".join('<xsl:param name="q%d" select=%s/>' % (i, quoteattr(xpgen.render(obs[i]))) for i in vo_indexes(obs))     # (xsl:param: no xsl:variable select event)
    vo = "".join('<vo><xsl:value-of select="$q%d"/></vo><vl><xsl:value-of select="string-length($q%d)"/></vl>' % (i, i) for i in vo_indexes(obs))
    main.append('<xsl:template name="obs">' + qs + "".join('<xsl:variable name="v%d" select=%s/>' % (i, quoteattr(xpgen.render(e))) for i, e in enumerate(obs)) + vo + '</xsl:template>')
    main.append('</xsl:stylesheet>')
    files["main.xsl"] = "\n".join(main) + "\n"
    if "A" in used:
        files["A.xsl"] = "\n".join([head] + (['<xsl:import href="A1.xsl"/>'] if "A1" in used else []) + body["A"] + ['</xsl:stylesheet>']) + "\n"
    for m in ("B", "A1"):
        if m in used:
            files[m + ".xsl"] = "\n".join([head] + body[m] + ['</xsl:stylesheet>']) + "\n"
    return files


def vo_indexes(obs):
    """the observations whose value is a node-set given by a location path"""
    return [i for i, e in enumerate(obs) if e.get("op") == "path"]


def spec_decls(decls):
    out = []
    for d in decls:
        for t in d["tests"]:
            out.append({"strip": d["strip"] != bool(os.environ.get("VERIF_C13_CORRUPT")), "test": t[0], "prec": PREC[d["mod"]]})
    # declaration order within one precedence level is document order of that module ("last wins" among equals)
    return sorted(out, key=lambda x: x["prec"])


def all_xsl(cdir):
    return {f: open(os.path.join(cdir, f)).read() for f in sorted(os.listdir(cdir)) if f.endswith(".xsl")}


def flatten_result(tree):
    """the result tree recorder's JSON -> the XDM flat record (no namespaces in these documents)"""
    def conv(n):
        if n["k"] == "elem":
            return xdm.E(n["qn"], *[conv(c) for c in n["c"]], a=[(xdm.A(a[0][4:], a[1], p="xml", u=xdm.XML_NS) if a[0].startswith("xml:") else xdm.A(a[0], a[1])) for a in n["a"] if not a[0].startswith("xmlns")])
        if n["k"] == "text":
            return xdm.T(n["v"])
        if n["k"] == "comment":
            return xdm.C(n["v"])
        if n["k"] == "pi":
            return xdm.PI(n["l"], n["v"])
        raise vlib.Infra("unexpected result node " + n["k"])
    return xdm.flatten(xdm.R(*[conv(c) for c in tree]))


def run(res, tier, seed):
    rng = random.Random(seed)
    quick = tier == "quick"
    wd = vlib.workdir("c13-%d" % os.getpid())
    c02.mc_laws(res, tier, wd)
    ndocs = 30 if quick else 300
    docs = [gen_doc(rng) for _ in range(ndocs)]
    # elements whose number value depends on stripping: digits in child elements, whitespace-only text between them
    E_, T_ = xdm.E, xdm.T
    docs.append(xdm.R(E_("a", E_("b", T_("1")), T_(" "), E_("c", T_("2")), T_("\n"),
                         E_("a", E_("b", T_("12")), T_("  "), E_("b", T_("5")), a=[xdm.A("x", "1")]),
                         T_(" "), E_("c", T_(" "), E_("b", T_("7")), T_(" "), E_("b", T_("0")), T_("\n ")),
                         E_("b", T_(" "), E_("c", T_("3")), a=[xdm.A("space", "preserve", p="xml", u=xdm.XML_NS)]))))
    # xml:space NESTS (3.4: "... preserve, and no closer ancestor element has xml:space with a value of default"): every combination of
    # none / preserve / default on three nested elements, white space at every level
    SP = lambda v: [xdm.A("space", v, p="xml", u=xdm.XML_NS)] if v else []
    nests = []
    for p1 in (None, "preserve", "default"):
        for p2 in (None, "preserve", "default"):
            for p3 in (None, "preserve", "default"):
                nests.append(E_("a", T_(" "), E_("b", T_("\n"), E_("c", T_(" "), E_("b"), a=SP(p3)), T_(" "), a=SP(p2)), a=SP(p1)))
    for i in range(0, 27, 3):                 # small documents: the oracle's cost grows quickly with the document
        docs.append(xdm.R(E_("c", *nests[i:i + 3])))
    NFIXED = 10
    flats = [xdm.flatten(t) for t in docs]
    allobs = observations()
    keyobs = key_observations()
    ncases = 150 if quick else 3000
    cases, metas = [], []
    for k in range(ncases):
        d = rng.randrange(len(docs)) if k % 6 else len(docs) - 1 - (k // 6) % NFIXED          # every 6th case on the digits document / an xml:space nest
        decls = gen_decls(rng)
        obs = rng.sample(allobs, 9) + rng.sample(keyobs, 3)
        numbers = rng.sample(NUMBERS, 2)
        cdir = os.path.join(wd, "case%d" % k); os.makedirs(cdir)
        for fn_, txt in render(decls, obs, numbers).items():
            open(os.path.join(cdir, fn_), "w").write(txt)
        open(os.path.join(cdir, "in.xml"), "w").write(xdm.render_xml(docs[d]))
        cases.append({"id": k, "dir": cdir, "trace": "none", "select": True})
        metas.append((d, decls, obs, numbers))
    exe = vlib.build_harness("xslt")
    nsh = vlib.NCPU
    procs = []
    for s in range(nsh):
        ch = cases[s::nsh]
        if ch:
            cp = os.path.join(wd, "cases-%d.ndjson" % s); vlib.write_ndjson(cp, ch)
            rp = os.path.join(wd, "trace-%d.ndjson" % s)
            procs.append((ch, rp, subprocess.Popen([exe, cp], stdout=open(rp, "w"), stderr=subprocess.PIPE)))
    events, nontriv = [], set()
    for ch, rp, p in procs:
        _, err = p.communicate(timeout=3000)
        by_id, cur = {}, None
        for ev in vlib.read_ndjson(rp):
            if ev["e"] == "Reset":
                cur = by_id.setdefault(ev["id"], [])
            cur.append(ev)
        for c in ch:
            d, decls, obs, numbers = metas[c["id"]]
            sample = {"xsl": all_xsl(c["dir"]), "xml": xdm.render_xml(docs[d])}
            evs = by_id.get(c["id"])
            if not evs or evs[-1]["e"] != "Done":
                res.violation("transformation process died (rc=%s): %s" % (p.returncode, (err or b"").decode()[-300:]), [sample]); continue
            dn = evs[-1]
            if dn["status"] != 0:
                res.violation("error-free stylesheet failed: %s" % dn["msg"][:200], [sample]); continue
            sd = spec_decls(decls)
            o = [x for x in dn["tree"] if x["k"] == "elem" and x["qn"] == "o"]
            events.append({"e": "Copy", "doc": d + 1, "decls": sd, "flat": flatten_result(o[0]["c"]), "sample": c["id"]})
            sel = [e for e in evs if e["e"] == "S" and e["el"] == "xsl:variable"]
            if len(sel) % len(obs):
                raise vlib.Infra("variable events out of step")
            for i, e in enumerate(sel):
                ob = obs[i % len(obs)]
                val = e["val"]
                if val["t"] == "ns":
                    val = {"t": "ns", "v": [[d + 1, x[1], 0] for x in val["v"]]}
                events.append({"e": "Obs", "doc": d + 1, "ctx": e["node"][1], "decls": sd, "keys": SPEC_KEYS, "expr": xpgen.strip_render_only(ob), "text": xpgen.render(ob), "res": val, "sample": c["id"]})
            # <vo> / <vl>: per context node (the root, then every element, in document order) and per path observation
            vos = [x for x in dn["tree"] if x["k"] == "elem" and x["qn"] in ("vo", "vl")]
            ctxs = [1] + [i + 1 for i in range(flats[d]["n"]) if flats[d]["kind"][i] == "elem"]
            vix = vo_indexes(obs)
            if len(vos) != 2 * len(ctxs) * len(vix):
                res.violation("result does not hold one <vo> and <vl> per context node and path observation (%d vs %d)" % (len(vos), 2 * len(ctxs) * len(vix)), [sample]); continue
            k_ = 0
            for node in ctxs:
                for i in vix:
                    for wrap in ("string", "string-length"):
                        x = vos[k_]; k_ += 1
                        out = "".join(z["v"] for z in x["c"] if z["k"] == "text")
                        ex = fn("string", obs[i]) if wrap == "string" else fn("string", fn("string-length", obs[i]))
                        events.append({"e": "Obs", "doc": d + 1, "ctx": node, "decls": sd, "keys": SPEC_KEYS, "expr": xpgen.strip_render_only(ex),
                                       "text": "xsl:value-of of a variable holding " + xpgen.render(obs[i]) + (" (string-length)" if wrap != "string" else ""),
                                       "res": {"t": "str", "v": xdm.cps(out)}, "sample": c["id"]})
            # xsl:number outputs: one <e> per element of the (stripped) source in document order, holding one <n> per instruction
            es = [x for x in dn["tree"] if x["k"] == "elem" and x["qn"] == "e"]
            elems = [i + 1 for i in range(flats[d]["n"]) if flats[d]["kind"][i] == "elem"]
            if len(es) != len(elems):
                res.violation("result does not hold one <e> per source element (%d vs %d)" % (len(es), len(elems)), [sample]); continue
            for node, x in zip(elems, es):
                ns_ = [y for y in x["c"] if y["k"] == "elem" and y["qn"] == "n"]
                for nm, y in zip(numbers, ns_):
                    out = "".join(z["v"] for z in y["c"] if z["k"] == "text")
                    ins = {"level": nm["level"], "hasCount": True, "count": xpgen.strip_render_only(nm["count"]), "hasFrom": False, "from": xpgen.strip_render_only(nm["count"])}
                    events.append({"e": "Num", "doc": d + 1, "ctx": node, "decls": sd, "instr": ins, "fmt": xdm.cps("1.1"), "out": xdm.cps(out),
                                   "text": "xsl:number level=%s count=%s" % (nm["level"], xpgen.render(nm["count"])), "sample": c["id"]})
    res.cov["evaluations"] = len(events)
    dpath = os.path.join(wd, "docs.ndjson")
    vlib.write_ndjson(dpath, flats)
    rejects, st = vlib.tlc_validate_sharded(TRACE, events, tag="c13tv", env={"DOCS": dpath}, stateless=True, timeout=3000)
    for rj in rejects:
        ev = events[rj["line"]]
        cdir = cases[ev["sample"]]["dir"]
        res.violation("%s at node %s: %s" % (ev.get("text", "copy-of"), ev.get("ctx"), rj["msg"][:250]),
                      [dict(ev, xsl=all_xsl(cdir), xml=open(os.path.join(cdir, "in.xml")).read())])
    res.notes["dropped"] = st["dropped"]
    res.cov["traces_validated_against_impl"] = len(events) - len(rejects) - st["dropped"]
    # non-trivial: the declarations strip at least one node of the document (decided by the number of nodes in the copy)
    nt = set()
    for ev in events:
        if ev["e"] == "Copy" and ev["flat"]["n"] < flats[ev["doc"] - 1]["n"]:
            nt.add(ev["sample"])
    res.cov["distinct_nontrivial"] = len({vlib.canon_hash([e["doc"], e["decls"], e.get("text"), e.get("ctx")]) for e in events if e["sample"] in nt})
    res.cov["rule"] = ("seeded documents (depth <= 3, whitespace-only text before/between/after children and next to comments/PIs, xml:space preserve / default on some elements) x 1-4 strip/preserve declarations (*, QNames, "
                       "conflicting, spread over an import tree main > B > A > A1 with conflicts between sibling and nested imports) x 7 of 25 observation expressions evaluated from every element and the root (child/descendant/sibling/following/preceding axes, "
                       "position/last, count, string values, sum, name) + 3 of 12 key() observations over six keys whose match / use see text nodes or string-values of elements + 2 of 5 xsl:number "
                       "instructions (single/multiple/any counting node() / text()) on every element + xsl:copy-of of the whole document; non-trivial = the declarations strip at least one node of that document; "
                       "distinct by (document, declarations, observation, context)")
    for ev in [e for e in events if e["e"] == "Obs"][:: max(1, len(events) // 4)][:4]:
        res.sample({k: ev[k] for k in ("doc", "ctx", "decls", "text", "res") if k in ev})
    res.assumptions += [
                        "the value on the stripped document is computed by XPathSem (C02's definition)"]


def replay(path):
    raise vlib.Infra("replay needs the document set of the run; re-run tools/check C13 with the same VERIF_SEED")
