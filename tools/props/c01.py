"""C01 - the transformation result equals the tree XSLT 1.0 defines for stylesheet and source.
GEN: seeded stylesheet ASTs (tools/xslgen.py): template rules with modes/priorities/params, named templates, global and local
     variables (incl. result tree fragments), literal result elements with AVTs, xsl:element/attribute/comment/pi,
     if/choose, for-each and apply-templates with sort and with-param, call-template, copy, copy-of - nested to depth 3.
RUN: harness/xslt.cpp; the result tree is recorded from the FormatterListener events, before any serializer.
TV : Trace_C01.tla: tree = XSLTSem!Transform(stylesheet, document)."""
import re
import os, random, json, subprocess
from xml.sax.saxutils import escape
import vlib, xdm, xpgen, tlaparse, xslgen
from vlib import ROOT
from props import c02

PROP = "C01"
TRACE = os.path.join(ROOT, "spec/trace/Trace_C01.tla")


def canon(tree):
    out = []
    for n in tree:
        k = n["k"]
        if k == "elem":
            out.append({"k": "elem", "name": xdm.cps(n["qn"]), "attrs": [[xdm.cps(a[0]), xdm.cps(a[1])] for a in n["a"] if not a[0].startswith("xmlns")], "kids": canon(n["c"])})
        elif k in ("text", "raw"):
            if out and out[-1]["k"] == "text":
                out[-1]["v"] += xdm.cps(n["v"])
            elif n["v"]:
                out.append({"k": "text", "v": xdm.cps(n["v"])})
        elif k == "comment":
            out.append({"k": "comment", "v": xdm.cps(n["v"])})
        elif k == "pi":
            out.append({"k": "pi", "name": xdm.cps(n["l"]), "v": xdm.cps(n["v"])})
        else:
            out.append({"k": k, "v": []})
    return out


def count_kinds(x, acc):
    if isinstance(x, dict):
        if "i" in x:
            acc.add(x["i"])
        for v in x.values():
            count_kinds(v, acc)
    elif isinstance(x, list):
        for v in x:
            count_kinds(v, acc)


def all_xsl(cdir):
    """main.xsl, followed by the imported modules (each introduced by a comment naming its file)"""
    fs = sorted(f for f in os.listdir(cdir) if f.endswith(".xsl") and f != "main.xsl")
    return open(os.path.join(cdir, "main.xsl")).read() + "".join("<!-- ===== %s ===== -->\n%s" % (f, open(os.path.join(cdir, f)).read()) for f in fs)


MC_AVT = os.path.join(ROOT, "spec/mc/MC_Avt.tla")
TRACE_AVT = os.path.join(ROOT, "spec/trace/Trace_C01avt.tla")


def avt_family(res, wd, quick):
    """Attribute value templates, exhaustively at small size: TLC enumerates every string over { } ' " a up to a length (and checks the
    laws of the definition AvtSyntax.tla on each), every string becomes the value of a literal result attribute of one real stylesheet,
    and Trace_C01avt compares the attribute written with AvtSyntax!ValueOf.  Templates that are errors by 7.6.2 are not judged here."""
    maxlen = 5 if quick else 7
    cfg = os.path.join(wd, "avt.cfg")
    open(cfg, "w").write("SPECIFICATION Spec\nCONSTANT MaxLen = %d\nINVARIANT PlainIsLiteral\nINVARIANT Doubled\nINVARIANT QuotedRoundTrip\nINVARIANT Shape\nCHECK_DEADLOCK FALSE\n" % maxlen)
    dump = os.path.join(wd, "avt")
    r = vlib.tlc(MC_AVT, cfg, workers=1, name="c01avt", timeout=3000, extra=["-noGenerateSpecTE", "-dump", dump])
    if not r["ok"]:
        raise vlib.Infra("MC_Avt failed: " + r["out"][-2000:])
    res.add_mc(r, "MC_Avt (laws of AvtSyntax!Parse on every string of length <= %d over { } ' \" a; the strings are the conformance cases)" % maxlen)
    strings = sorted(tuple(st["s"]) for st in tlaparse.read_dump(dump + ".dump", only={"s"}))
    cases = []
    adir = os.path.join(wd, "avt"); os.makedirs(adir)
    open(os.path.join(adir, "in.xml"), "w").write("<r><a>A</a><aa>B</aa><aaa>C</aaa></r>")
    for k, cp in enumerate(strings):
        text = "".join(chr(c) for c in cp).replace('"', "&quot;")
        open(os.path.join(adir, "s%d.xsl" % k), "w").write(
            '<xsl:stylesheet version="1.0" xmlns:xsl="http://www.w3.org/1999/XSL/Transform"><xsl:template match="/"><xsl:for-each select="r"><e v="%s"/></xsl:for-each></xsl:template></xsl:stylesheet>' % text)
        cases.append({"id": k, "dir": adir, "xsl": "s%d.xsl" % k, "trace": "none", "select": False})
    exe = vlib.build_harness("xslt")
    procs = []
    for sh in range(vlib.NCPU):
        ch = cases[sh::vlib.NCPU]
        if ch:
            cp_ = os.path.join(adir, "cases-%d.ndjson" % sh); vlib.write_ndjson(cp_, ch)
            rp = os.path.join(adir, "trace-%d.ndjson" % sh)
            procs.append((ch, rp, subprocess.Popen([exe, cp_], stdout=open(rp, "w"), stderr=subprocess.PIPE)))
    events = []
    for ch, rp, p in procs:
        try:
            _, err = p.communicate(timeout=1200)
        except subprocess.TimeoutExpired:
            p.kill(); _, err = p.communicate()
        dones = {ev["id"]: ev for ev in vlib.read_ndjson(rp) if ev["e"] == "Done"}
        for c in ch:
            dn = dones.get(c["id"])
            s_ = list(strings[c["id"]])
            if dn is None:
                res.violation("transformation process died or hung on the attribute value template %r" % "".join(chr(x) for x in s_), [{"avt": s_}]); break
            out = []
            if dn["status"] == 0:
                es = [x for x in dn["tree"] if x["k"] == "elem" and x["qn"] == "e"]
                vs = [a[1] for a in es[0]["a"] if a[0] == "v"] if es else []
                out = xdm.cps(vs[0]) if vs else []
            events.append({"e": "Avt", "s": s_, "status": dn["status"], "out": out, "msg": dn["msg"][:120]})
    rejects, st = vlib.tlc_validate_sharded(TRACE_AVT, events, tag="c01avt", stateless=True, timeout=3000)
    for rj in rejects:
        ev = events[rj["line"]]
        res.violation(rj["msg"][:300] + " | " + ev["msg"], [ev])
    res.notes["avt_strings"] = len(events)
    res.notes["avt_error_templates_not_judged"] = st["dropped"]
    return len(events), len(events) - st["dropped"] - len(rejects)


MC_FMT = os.path.join(ROOT, "spec/mc/MC_FormatNumber.tla")
TRACE_FMT = os.path.join(ROOT, "spec/trace/Trace_C01fmt.tla")
DFS_DEFAULT = {"dec": 46, "grp": 44, "minus": 45, "percent": 37, "permille": 8240, "zero": 48, "digit": 35, "patsep": 59,
               "inf": xdm.cps("Infinity"), "nan": xdm.cps("NaN")}
# two named decimal formats: European separators with their own NaN / infinity strings; exotic symbols for everything
DFS_NAMED = {"eu": dict(DFS_DEFAULT, dec=44, grp=46, nan=xdm.cps("nan!"), inf=xdm.cps("inf")),
             "odd": dict(DFS_DEFAULT, dec=124, grp=95, minus=126, percent=112, permille=113, zero=48, digit=64, patsep=33)}
# formats that differ from "eu" in exactly ONE symbol (formatter objects are cached by the value of the symbol set: a cache key that
# ignores a symbol would hand one of these the formatter of another)
for _k, _v in (("inf", xdm.cps("unb")), ("nan", xdm.cps("nix")), ("minus", 126), ("percent", 112), ("permille", 113), ("grp", 95), ("dec", 124)):
    DFS_NAMED["eu_" + _k] = dict(DFS_NAMED["eu"], **{_k: _v})
FMT_PICTURES = ["0", "#", "#0", "0.0", "0.00", "#.#", "#.##", "0.0#", "#,##0", "#,##0.00", "#,###", "#,#00.0#", "000", "00.0", "0%", "#%", "0.0%", "#\u2030",
                "a0b", "(0)", "0.0;(0.0)", "#,##0.0;n#", "x#y;z#w", "x0.0y;z#.##w", "0 u", "[#,##0.00]", "##,##,##0", "#,####", "0;0 cr"]


def localize(pic, dfs):
    """a picture written with the default symbols, in the symbols of dfs"""
    m = {46: dfs["dec"], 44: dfs["grp"], 45: dfs["minus"], 37: dfs["percent"], 8240: dfs["permille"], 48: dfs["zero"], 35: dfs["digit"], 59: dfs["patsep"]}
    return "".join(chr(m.get(ord(ch), ord(ch))) for ch in pic)


def fmt_family(res, wd, quick, rng):
    """format-number(): every picture of a pool x a number table (halves, eighths for half-even rounding, grouping sizes, percent / per-mille,
    negative sub-patterns, NaN, infinities) x the default and two named decimal formats; FormatNumber.tla computes the expected strings."""
    cfg = os.path.join(wd, "fmt.cfg")
    open(cfg, "w").write("SPECIFICATION Spec\nINVARIANT Defined\nINVARIANT HasDigit\nINVARIANT NegIsMinusPos\n")
    r = vlib.tlc_mc(MC_FMT, cfg, name="c01fmt", workers=2, timeout=1500, extra=["-noGenerateSpecTE"])
    res.add_mc(r, "MC_FormatNumber (golden values of the JDK 1.1 DecimalFormat fragment; laws over 21 pictures x 34 numbers)")
    ms = [0, 1, 2, 3, 4, 5, 7, 8, 9, 12, 20, 28, 36, 79, 80, 100, 796, 8004, 9876, 79999, 98760, 130000]
    nums = [{"k": "fin", "neg": n, "m": m} for m in ms for n in (False, True)] + [{"k": "nan", "neg": False, "m": 0}, {"k": "inf", "neg": False, "m": 0}, {"k": "inf", "neg": True, "m": 0}]
    def numtext(x):
        if x["k"] == "nan": return "number('x')"
        if x["k"] == "inf": return ("-1" if x["neg"] else "1") + " div 0"
        t = xpgen.num_text(x["m"])
        return ("-" + t) if x["neg"] else t
    combos, variants = [], []
    for name, dfs in [(None, DFS_DEFAULT)] + sorted(DFS_NAMED.items()):
        for pic in FMT_PICTURES:
            for x in nums:
                (variants if (name or "").startswith("eu_") else combos).append((name, dfs, localize(pic, dfs), x))
    if quick:
        combos = rng.sample(combos, 1100)
    # the one-symbol variants: a few cases each, interleaved with "eu" so that both formatters are live in one transformation
    few = [c for c in variants if c[2] in (localize("#,##0.0#", c[1]), localize("0%", c[1]), localize("#\u2030", c[1]), localize("0.0;(0.0)", c[1]))
           and (c[3]["k"] != "fin" or c[3]["m"] in (9876, 12, 1))]
    combos += few if not quick else rng.sample(few, min(len(few), 260))
    rng.shuffle(combos)
    fdir = os.path.join(wd, "fmt"); os.makedirs(fdir)
    open(os.path.join(fdir, "in.xml"), "w").write("<r/>")
    decl = "".join('<xsl:decimal-format name="%s" decimal-separator="%s" grouping-separator="%s" minus-sign="%s" percent="%s" per-mille="%s" zero-digit="%s" digit="%s" pattern-separator="%s" NaN="%s" infinity="%s"/>'
                   % (n, chr(d["dec"]), chr(d["grp"]), chr(d["minus"]), chr(d["percent"]), chr(d["permille"]), chr(d["zero"]), chr(d["digit"]), chr(d["patsep"]),
                      "".join(map(chr, d["nan"])), "".join(map(chr, d["inf"]))) for n, d in sorted(DFS_NAMED.items()))
    cases, chunks = [], [combos[i:i + 40] for i in range(0, len(combos), 40)]
    for k, ch in enumerate(chunks):
        body = "".join("<v><xsl:value-of select=\"format-number(%s, '%s'%s)\"/></v>" % (numtext(x), escape(pic), (", '%s'" % name) if name else "") for name, dfs, pic, x in ch)
        open(os.path.join(fdir, "f%d.xsl" % k), "w").write('<xsl:stylesheet version="1.0" xmlns:xsl="http://www.w3.org/1999/XSL/Transform">%s<xsl:template match="/"><o>%s</o></xsl:template></xsl:stylesheet>' % (decl, body))
        cases.append({"id": k, "dir": fdir, "xsl": "f%d.xsl" % k, "trace": "none", "select": False})
    exe = vlib.build_harness("xslt")
    cp_ = os.path.join(fdir, "cases.ndjson"); vlib.write_ndjson(cp_, cases)
    out = subprocess.run([exe, cp_], capture_output=True, text=True, timeout=1200)
    dones = {}
    for line in out.stdout.splitlines():
        try:
            ev = json.loads(line)
        except ValueError:
            continue
        if ev.get("e") == "Done":
            dones[ev["id"]] = ev
    events = []
    for k, ch in enumerate(chunks):
        dn = dones.get(k)
        if dn is None:
            res.violation("transformation process died in the format-number family (rc=%s): %s" % (out.returncode, out.stderr[-200:]), [{"xsl": open(os.path.join(fdir, "f%d.xsl" % k)).read()}]); break
        vs = []
        if dn["status"] == 0:
            o = [x for x in dn["tree"] if x["k"] == "elem" and x["qn"] == "o"]
            vs = ["".join(t["v"] for t in v["c"] if t["k"] == "text") for v in o[0]["c"] if v["k"] == "elem"] if o else []
        for j, (name, dfs, pic, x) in enumerate(ch):
            events.append({"e": "Fmt", "x": x, "pic": xdm.cps(pic), "dfs": dfs, "status": dn["status"], "out": xdm.cps(vs[j]) if j < len(vs) else [],
                           "text": "format-number(%s, '%s'%s)" % (numtext(x), pic, (", '%s'" % name) if name else ""), "msg": dn["msg"][:150]})
    rejects, st = vlib.tlc_validate_sharded(TRACE_FMT, events, tag="c01fmt", stateless=True, timeout=3000)
    for rj in rejects:
        ev = events[rj["line"]]
        res.violation("%s: %s | %s" % (ev["text"], rj["msg"][:260], ev["msg"]), [ev])
    res.notes["format_number_cases"] = len(events)
    res.notes["format_number_not_judged"] = st["dropped"]
    return len(events), len(events) - st["dropped"] - len(rejects)


MC_ST = os.path.join(ROOT, "spec/mc/MC_StylesheetText.tla")
TRACE_ST = os.path.join(ROOT, "spec/trace/Trace_C01st.tla")


def stylesheet_text_family(res, wd, quick):
    """XSLT 3.4 for the stylesheet itself: every content sequence up to 4 (thorough: 5) items over {text, white space, a comment, a
    processing instruction, an element, xsl:text} as the content of a literal result element, with and without xml:space="preserve"
    (enumerated by TLC in MC_StylesheetText, which checks the laws of StylesheetTree.tla); StylesheetTree!ResultChildren is the oracle."""
    maxlen = 4 if quick else 5
    cfg = os.path.join(wd, "sttext.cfg")
    open(cfg, "w").write("SPECIFICATION Spec\nCONSTANT MaxLen = %d\nINVARIANT Canonical\nINVARIANT ElementsKept\nINVARIANT CommentMatters\n" % maxlen)
    dump = os.path.join(wd, "sttext")
    r = vlib.tlc(MC_ST, cfg, workers=1, name="c01st", timeout=3000, extra=["-noGenerateSpecTE", "-dump", dump])
    if not r["ok"]:
        raise vlib.Infra("MC_StylesheetText failed:\n" + r["out"][-3000:])
    res.add_mc(r, "MC_StylesheetText (laws of StylesheetTree on every content sequence of length <= %d; the sequences are the conformance cases)" % maxlen)
    raws = sorted((st["raw"] for st in tlaparse.read_dump(dump + ".dump", only={"raw"})), key=lambda x: json.dumps(x, sort_keys=True))
    # (raw, xml:space on the element, xml:space on the xsl:stylesheet element of ITS document, where that document stands, xml:space on the
    #  xsl:stylesheet element of the including / importing document)
    combos = [(raw, "preserve" if pres else "none", "none", "main", "none") for raw in raws for pres in (False, True)]
    short = [raw for raw in raws if len(raw) <= 3]
    for place in ("main", "included", "imported"):
        for docsp in ("none", "preserve", "default"):
            for outer in (("none",) if place == "main" else ("none", "preserve")):
                if place == "main" and docsp == "none":
                    continue
                for csp in ("none", "preserve", "default"):
                    for raw in (short if (csp != "default" or docsp == "preserve") else short[::3]):
                        combos.append((raw, csp, docsp, place, outer))

    def item(x):
        if x["k"] == "t": return escape("".join(map(chr, x["s"])))
        if x["k"] == "xt": return "<xsl:text>%s</xsl:text>" % escape("".join(map(chr, x["s"])))
        return {"c": "<!-- c -->", "pi": "<?p d?>", "e": "<e/>"}[x["k"]]
    sp = lambda v: "" if v == "none" else ' xml:space="%s"' % v
    ctext = lambda raw, csp: "<c%s>%s</c>" % (sp(csp), "".join(item(x) for x in raw))
    sdir = os.path.join(wd, "sttext.d"); os.makedirs(sdir)
    open(os.path.join(sdir, "in.xml"), "w").write("<r/>")
    groups = {}
    for cb in combos:
        groups.setdefault(cb[2:], []).append(cb)
    chunks = [(key, g[i:i + 50]) for key, g in sorted(groups.items()) for i in range(0, len(g), 50)]
    XSLNS = 'xmlns:xsl="http://www.w3.org/1999/XSL/Transform"'
    cases = []
    for k, ((docsp, place, outer), ch) in enumerate(chunks):
        body = "".join(ctext(raw, csp) for raw, csp, _, _, _ in ch)
        if place == "main":
            open(os.path.join(sdir, "s%d.xsl" % k), "w").write('<xsl:stylesheet version="1.0" %s%s><xsl:template match="/"><o>%s</o></xsl:template></xsl:stylesheet>' % (XSLNS, sp(docsp), body))
        else:
            open(os.path.join(sdir, "m%d.xsl" % k), "w").write('<xsl:stylesheet version="1.0" %s%s><xsl:template name="m"><o>%s</o></xsl:template></xsl:stylesheet>' % (XSLNS, sp(docsp), body))
            open(os.path.join(sdir, "s%d.xsl" % k), "w").write('<xsl:stylesheet version="1.0" %s%s><xsl:%s href="m%d.xsl"/><xsl:template match="/"><xsl:call-template name="m"/></xsl:template></xsl:stylesheet>'
                                                               % (XSLNS, sp(outer), "include" if place == "included" else "import", k))
        cases.append({"id": k, "dir": sdir, "xsl": "s%d.xsl" % k, "trace": "none", "select": False})
    exe = vlib.build_harness("xslt")
    cp_ = os.path.join(sdir, "cases.ndjson"); vlib.write_ndjson(cp_, cases)
    out = subprocess.run([exe, cp_], capture_output=True, text=True, timeout=1200)
    dones = {}
    for line in out.stdout.splitlines():
        try:
            ev = json.loads(line)
        except ValueError:
            continue
        if ev.get("e") == "Done":
            dones[ev["id"]] = ev
    events = []
    for k, ((docsp, place, outer), ch) in enumerate(chunks):
        dn = dones.get(k)
        if dn is None or dn["status"] != 0:
            res.violation("stylesheet-text family: transformation %s (rc=%s): %s" % ("failed: " + dn["msg"][:150] if dn else "died", out.returncode, out.stderr[-200:]),
                          [{"xsl": open(os.path.join(sdir, "s%d.xsl" % k)).read()}]); continue
        o = [x for x in dn["tree"] if x["k"] == "elem" and x["qn"] == "o"][0]
        cs = [x for x in o["c"] if x["k"] == "elem"]
        for (raw, csp, _, _, _), c in zip(ch, cs):
            got = []
            for y in c["c"]:
                if y["k"] == "text":
                    if got and got[-1]["k"] == "text":
                        got[-1]["s"] += xdm.cps(y["v"])
                    elif y["v"]:
                        got.append({"k": "text", "s": xdm.cps(y["v"])})
                elif y["k"] == "elem":
                    got.append({"k": "elem"})
                else:
                    got.append({"k": y["k"]})
            events.append({"e": "StText", "raw": raw, "chain": [docsp, csp], "place": place, "outer": outer, "got": got, "family": "sttext",
                           "text": "%s in a %s document with%s on xsl:stylesheet%s" % (ctext(raw, csp), place, sp(docsp) or " nothing",
                                                                                    "" if place == "main" else ", which a document with%s %ss" % (sp(outer) or " nothing", place[:-2]))})
    rejects, st = vlib.tlc_validate_sharded(TRACE_ST, events, tag="c01st", stateless=True, timeout=3000)
    known = {k["key"]: k for k in vlib.known_findings(PROP)}
    for rj in rejects:
        ev = events[rj["line"]]
        if rj["msg"].startswith("KNOWN stylesheetCommentDoesNotSplitText") and "stylesheetCommentDoesNotSplitText" in known:
            res.known(known["stylesheetCommentDoesNotSplitText"]); continue
        res.violation("stylesheet content %s: %s" % (ev["text"], rj["msg"][:300]), [ev])
    res.notes["stylesheet_text_cases"] = len(events)
    return len(events), len(events) - len(rejects)


TRACE_VS = os.path.join(ROOT, "spec/trace/Trace_C01vs.tla")
MC_VS = os.path.join(ROOT, "spec/mc/MC_VariablesStack.tla")


def vstack_validate(res, vs_execs, cases, wd, quick):
    """MC_VariablesStack: the transcribed variable stack, driven by every program TLC can build within the bounds, implements the
    scoping rules of XSLT 11 (and does not with the repair 46a849f switched off: the counterexample must come back).
    Trace_C01vs: every operation the real stack performed in the recorded transformations (hook H2) is the model's operation."""
    cfg = os.path.join(wd, "vs.cfg")
    consts = "CONSTANTS NT = 2\n MaxCtl = %d\n MaxSeq = %d\n" % ((4, 3) if quick else (5, 4))
    open(cfg, "w").write("SPECIFICATION Spec\n" + consts + " Repaired = TRUE\nINVARIANT ScopingHolds\nINVARIANT Balanced\nPROPERTY RefIsPure\n")
    r = vlib.tlc_mc(MC_VS, cfg, name="c01vs", timeout=3000, extra=["-noGenerateSpecTE"])
    res.add_mc(r, "MC_VariablesStack (VariablesStackImpl under every program of calls / apply-templates / with-params / variables / nested elements within the bounds implements XSLT 11 scoping)")
    cfg2 = os.path.join(wd, "vs-unrepaired.cfg")
    open(cfg2, "w").write("SPECIFICATION Spec\nCONSTANTS NT = 2\n MaxCtl = 4\n MaxSeq = 2\n Repaired = FALSE\nINVARIANT ScopingHolds\n")
    r2 = vlib.tlc(MC_VS, cfg2, workers=4, name="c01vsw", timeout=1500, extra=["-noGenerateSpecTE"])
    if "Invariant ScopingHolds is violated" not in r2["out"]:
        raise vlib.Infra("MC_VariablesStack with Repaired = FALSE no longer finds the scoping counterexample (the model lost its teeth):\n" + r2["out"][-1500:])
    res.notes["variables_stack_model_finds_the_unrepaired_defect"] = True
    events, owner = [], []
    for cid in sorted(vs_execs):
        events.append({"e": "Reset", "id": cid}); owner.append(cid)
        for k, ev in enumerate(vs_execs[cid]):
            events.append(dict(ev, k=k + 1)); owner.append(cid)
    if not events:
        return 0, 0
    rejects, st = vlib.tlc_validate_sharded(TRACE_VS, events, tag="c01vs", timeout=3000)
    bad = set()
    for rj in rejects:
        cid = owner[rj["line"]]
        if cid in bad:
            continue
        bad.add(cid)
        cdir = cases[cid]["dir"]
        k = rj["line"]
        while events[k]["e"] != "Reset":
            k -= 1
        res.violation("variable stack: operation %d of the transformation is not the model's (VariablesStackImpl): %s" % (rj["line"] - k, rj["msg"][:400]),
                      [dict(ev, family="vstack") for ev in events[k:rj["line"] + 1]] + [{"e": "Sample", "xsl": all_xsl(cdir), "xml": open(os.path.join(cdir, "in.xml")).read()}])
    res.notes["variable_stack_operations_validated"] = len(events) - len(vs_execs)
    res.notes["variable_stack_executions"] = len(vs_execs)
    return len(vs_execs), len(vs_execs) - len(bad)


TRACE_NS = os.path.join(ROOT, "spec/trace/Trace_C01ns.tla")


def nsnodes_family(res, wd, quick, rng):
    """the NAMESPACE NODES of the result tree (7.1.1 literal result elements, 7.5 xsl:copy, 11.3 xsl:copy-of): the namespace generator
    and recorder of C14 (nests of lre / element / attribute / copy / copy-of with declarations, exclusions, aliases, attribute sets),
    judged by ResultTree!NsNodeFaults: every namespace node the Recommendation puts on a result element is in scope on it, with
    its prefix, in the recorded result tree and in the re-parsed output"""
    from props import c14
    nwd = os.path.join(wd, "ns"); os.makedirs(nwd)
    progs = c14.systematic()
    progs = progs[rng.randrange(6)::6] if quick else progs
    for k in range(700 if quick else 12000):
        progs.append(c14.Gen(rng, depth=3 if k % 3 else 2).stylesheet())
    cases, metas = [], []
    for k, (ss, src) in enumerate(progs):
        cdir = os.path.join(nwd, "case%d" % k); os.makedirs(cdir)
        open(os.path.join(cdir, "main.xsl"), "w").write(c14.Render(ss, src).stylesheet())
        open(os.path.join(cdir, "in.xml"), "w").write(c14.src_xml(src))
        cases.append({"id": k, "dir": cdir}); metas.append((ss, src))
    events = c14.run_cases(res, cases, metas, nwd)
    rejects, st = vlib.tlc_validate_sharded(TRACE_NS, events, tag="c01ns", stateless=True, timeout=3000)
    known = {k["key"]: k for k in vlib.known_findings(PROP)}
    tri = {}
    if rejects:
        verdicts, _ = vlib.tlc_validate_sharded(c14.TRACE_IMPL, [dict(events[rj["line"]], mode="triage") for rj in rejects], tag="c01nstriage", stateless=True, timeout=3000)
        tri = {v["line"]: v["msg"] for v in verdicts}
    for k, rj in enumerate(rejects):
        ev = events[rj["line"]]
        cdir = cases[ev["sample"]]["dir"]
        m = re.match(r"KNOWN (\{.*?\}) ", tri.get(k, ""))
        keys = classify_ns(ev, rj["msg"], bool(m) and '"staleExcludedPrefix"' in m.group(1))
        if keys and all(k in known for k in keys):
            for k in keys:
                res.known(known[k])
            continue
        res.violation("namespace nodes: %s" % rj["msg"][:500],
                      [dict(ev, family="nsnodes", xsl=open(os.path.join(cdir, "main.xsl")).read(), xml=open(os.path.join(cdir, "in.xml")).read())])
    res.notes["namespace_node_cases"] = len(events)
    res.notes["namespace_node_not_judged"] = st["dropped"]
    return len(events), len(events) - st["dropped"] - len(rejects)


def classify_ns(ev, msg, stale):
    """semantic keys of the known deviations behind a rejected namespace-node case; None unless EVERY fault is explained by one.
    stale: the execution is, tree for tree, what the transcribed algorithm (NsFixupImpl) does on its staleExcludedPrefix path"""
    faults = re.findall(r'<<"namespace-node-missing", "([^"]*)", "([^"]*)", "([^"]*)", "([^"]*)", <<([0-9, ]*)>>>>', msg)
    if not faults:
        return None
    keys = set()
    for kind, local, pfx, uri, path in faults:
        node, forest = None, ev["raw"]
        for i in [int(t) for t in path.split(",") if t.strip()]:
            node = forest[i - 1]; forest = node["c"]
        own = [a for a in node["a"] if (a["p"] == "xmlns" and a["l"] == pfx) or (pfx == "" and a["p"] == "" and a["l"] == "xmlns")]
        if pfx and own and own[-1]["v"] != uri and any(a["p"] == pfx for a in node["a"]):
            keys.add("nsNodeShadowedByAttributePrefix")      # the element re-declares the prefix for one of its attributes
        elif stale:
            keys.add("nsNodeStaleExcludedPrefix")            # C14 staleExcludedPrefix seen through the namespace nodes
        else:
            return None
    return sorted(keys)


MC_EXEC = os.path.join(ROOT, "spec/mc/MC_Exec.tla")


def exec_model(res, wd, quick, rng):
    """MC: ExecImpl (the iterative template executor with its explicit stacks, direct-template and single-text-child short cuts) = the
    recursive definition of instantiation, balanced stacks, termination, for every program of <= N elements.  GEN: one program per SET of
    executor transitions taken (VIEW), of which a stratified sample is rendered as real stylesheets (oracle there: XSLTSem)."""
    n = 5
    cfg = os.path.join(wd, "exec_mc.cfg")
    open(cfg, "w").write("SPECIFICATION Spec\nCONSTANTS N = %d\nINVARIANT Correct\nINVARIANT Balanced\nPROPERTY Terminates\nCHECK_DEADLOCK FALSE\n" % n)
    r = vlib.tlc_mc(MC_EXEC, cfg, name="c01exec", timeout=3000, xmx="12g", extra=["-noGenerateSpecTE"])
    res.add_mc(r, "MC_Exec (ExecImpl: the iterative executor's output = the recursive definition, every stack balanced, termination; every program <= %d elements)" % n)
    gcfg = os.path.join(wd, "exec_gen.cfg")
    open(gcfg, "w").write("SPECIFICATION SpecSig\nCONSTANTS N = %d\nVIEW SigView\nCHECK_DEADLOCK FALSE\n" % n)
    dump = os.path.join(wd, "exec_gen")
    g = vlib.tlc(MC_EXEC, gcfg, workers=1, name="c01execgen", timeout=3000, extra=["-noGenerateSpecTE", "-dump", dump])
    if not g["ok"]:
        raise vlib.Infra("MC_Exec program export failed: " + g["out"][-2000:])
    progs = []
    with open(dump + ".dump") as f:            # only the launched programs (s.pc = "sig"); the build states are skipped unparsed
        block = []
        def flush():
            if block and any('"sig"' in l for l in block):
                st = next(tlaparse.read_dump_lines(block, only={"P"}))
                progs.append(st["P"])
        for line in f:
            if line.startswith("State "):
                flush(); block = [line]
            else:
                block.append(line)
        flush()
    os.remove(dump + ".dump")
    if len(progs) < 1000:
        raise vlib.Infra("MC_Exec exported only %d programs" % len(progs))
    progs.sort(key=lambda p: json.dumps(p, sort_keys=True, default=list))
    # stratified by the (kind, parent kind, only child?) pairs a program contains: one program per stratum first, then a seeded sample
    def stratum(p):
        el = p["el"]
        return frozenset((e["kind"], el[e["parent"] - 1]["kind"] if e["parent"] else "-", len(el[e["parent"] - 1]["kids"]) == 1 if e["parent"] else False,
                          len(e["nodes"]), bool(e["b"])) for e in el)
    by = {}
    for p in progs:
        by.setdefault(stratum(p), []).append(p)
    budget = 260 if quick else 4000
    keys = sorted(by, key=lambda k: sorted(map(str, k)))
    rng.shuffle(keys)
    pick = [rng.choice(by[k]) for k in keys[:budget]]
    res.notes["exec_programs_exported"] = len(progs)
    res.notes["exec_strata"] = len(by)
    res.notes["exec_programs_replayed"] = len(pick)
    return pick


def run(res, tier, seed):
    rng = random.Random(seed)
    quick = tier == "quick"
    wd = vlib.workdir("c01-%d" % os.getpid())
    c02.mc_laws(res, tier, wd)
    exec_progs = exec_model(res, wd, quick, random.Random(seed + 17))
    docs = c02.make_docs(rng, 6 if quick else 40)
    # a document whose nodes NAME documents (document() with a node-set argument, 12.1: the union of the documents its nodes name)
    docs.append(xdm.R(xdm.E("a", xdm.E("b", xdm.T("d2.xml")), xdm.E("b", xdm.T("d3.xml")), xdm.E("b", xdm.T("d2.xml")), xdm.E("c", xdm.T("d3.xml"), a=[xdm.A("x", "d2.xml"), xdm.A("y", "d2.xml")]))))
    refs_doc_ix = len(docs) - 1
    docs.append(xslgen.exec_doc(5))
    exec_doc_ix = len(docs) - 1
    flats = [xdm.flatten(t, c02.ID_ATTRS) for t in docs]
    ncases = 700 if quick else 20000
    cases, metas = [], []
    for k in range(ncases):
        fam = os.environ.get("VERIF_C01_FAMILY")       # focused runs (development aid): every case from one family
        if fam:
            ss = getattr(xslgen, fam + "_stylesheet")(rng)
        elif k % 5 == 4:
            ss = xslgen.scoping_stylesheet(rng)       # the scoping family (see tools/xslgen.py)
        elif k % 10 == 3:
            ss = xslgen.sorting_stylesheet(rng)       # the sorting family
        elif k % 10 == 7:
            ss = xslgen.imports_stylesheet(rng)       # the imports family (import tree, apply-imports, named template overriding)
        elif k % 10 == 5:
            ss = xslgen.attrsets_stylesheet(rng)      # the attribute-set family (merging by import precedence, sets using sets, copy of non-elements)
        elif k % 10 == 6:
            ss = xslgen.rtfcompare_stylesheet(rng)    # result tree fragments as operands of every comparison (11.1), on the numeric-looking document
        elif k % 10 == 8:
            ss = xslgen.stripcopy_stylesheet(rng)     # the strip / copy family (strip-space with copy-of, the identity rule, string values)
        elif k % 10 == 1:
            ss = xslgen.multidoc_stylesheet(rng)      # the multi-document family (document(), keys / id / numbering / sorting in loaded documents)
        else:
            ss = xslgen.XslGen(rng).stylesheet()
        d = rng.randrange(len(docs) - 1)                  # (the last document is the executor family's)
        if ss.get("refs"):
            d = refs_doc_ix
        if (fam == "rtfcompare" or (not fam and k % 10 == 6 and k % 5 != 4)) and rng.random() < 0.8:
            d = 3                                     # the corpus document whose text values look like numbers
        cdir = os.path.join(wd, "case%d" % k); os.makedirs(cdir)
        for fname, text in xslgen.render_modules(ss).items():
            open(os.path.join(cdir, fname), "w").write(text)
        open(os.path.join(cdir, "in.xml"), "w").write(c02.doc_xml(docs[d]))
        aux = [rng.randrange(len(docs) - 1) for _ in range(ss.get("ndocs", 0))]
        for j, a in enumerate(aux):
            open(os.path.join(cdir, "d%d.xml" % (j + 2)), "w").write(c02.doc_xml(docs[a]))
        # hook H2: the scoping family and every third other case also record every operation of the engine's variable stack
        cases.append({"id": k, "dir": cdir, "trace": "none", "select": False, "vstack": bool(fam == "scoping" or (not fam and (k % 5 == 4 or k % 3 == 0)))})
        metas.append((ss, d, aux))
    # the EXECUTOR family: programs exported from MC_Exec (one per set of executor transitions), on the document built for them
    for prog in exec_progs:
        k = len(cases)
        ss = xslgen.exec_stylesheet(prog)
        cdir = os.path.join(wd, "case%d" % k); os.makedirs(cdir)
        for fname, text in xslgen.render_modules(ss).items():
            open(os.path.join(cdir, fname), "w").write(text)
        open(os.path.join(cdir, "in.xml"), "w").write(c02.doc_xml(docs[exec_doc_ix]))
        cases.append({"id": k, "dir": cdir, "trace": "none", "select": False, "vstack": False})
        metas.append((ss, exec_doc_ix, []))
    exe = vlib.build_harness("xslt")
    nsh = vlib.NCPU
    procs = []
    for s in range(nsh):
        ch = cases[s::nsh]
        if ch:
            cp = os.path.join(wd, "cases-%d.ndjson" % s); vlib.write_ndjson(cp, ch)
            rp = os.path.join(wd, "trace-%d.ndjson" % s)
            procs.append((ch, rp, subprocess.Popen([exe, cp], stdout=open(rp, "w"), stderr=subprocess.PIPE)))
    events, kinds, vs_execs = [], set(), {}
    for ch, rp, p in procs:
        try:
            _, err = p.communicate(timeout=600)
        except subprocess.TimeoutExpired:
            p.kill(); _, err = p.communicate(); err = b"TIMEOUT " + (err or b"")
        raw = vlib.read_ndjson(rp)
        dones = {ev["id"]: ev for ev in raw if ev["e"] == "Done"}
        cur = None
        for ev in raw:                      # the variable-stack operations of each transformation, as one execution
            if ev["e"] == "Reset":
                cur = ev["id"]
            elif ev["e"] == "VS":
                vs_execs.setdefault(cur, []).append(ev)
        died = False
        for c in ch:
            ss, d, aux = metas[c["id"]]
            dn = dones.get(c["id"])
            sample = {"xsl": all_xsl(c["dir"]), "xml": c02.doc_xml(docs[d])}
            if dn is None:
                if not died:
                    res.violation("transformation process died or hung (rc=%s): %s" % (p.returncode, (err or b"").decode()[-300:]), [sample])
                    died = True
                continue
            events.append({"e": "Transform", "doc": d + 1, "aux": [a + 1 for a in aux], "ss": xslgen.spec_stylesheet(ss), "status": dn["status"], "msg": dn["msg"][:300], "tree": canon(dn["tree"]), "sample": c["id"]})
    res.cov["evaluations"] = len(events)
    dpath = os.path.join(wd, "docs.ndjson")
    vlib.write_ndjson(dpath, flats)
    rejects, st = vlib.tlc_validate_sharded(TRACE, events, tag="c01tv", env={"DOCS": dpath}, stateless=True, timeout=3000)
    known = {x["key"]: x for x in vlib.known_findings(PROP)}
    for rj in rejects:
        ev = events[rj["line"]]
        cdir = cases[ev["sample"]]["dir"]
        keys = rj["msg"].split(" ")[0][3:].split("+") if rj["msg"].startswith("KD:") else []
        if keys and all(k in known for k in keys):
            for k in keys:
                res.known(known[k])
        else:
            res.violation("status %s %s | %s" % (ev["status"], ev["msg"][:100], rj["msg"][:300]),
                          [dict(ev, xsl=all_xsl(cdir), xml=open(os.path.join(cdir, "in.xml")).read(), flatdoc=flats[ev["doc"] - 1], flataux=[flats[a - 1] for a in ev["aux"]])])
    nvs, nvs_ok = vstack_validate(res, vs_execs, cases, wd, quick)
    nst, nst_ok = stylesheet_text_family(res, wd, quick)
    nvs, nvs_ok = nvs + nst, nvs_ok + nst_ok
    navt, navt_ok = avt_family(res, wd, quick)
    nfmt, nfmt_ok = fmt_family(res, wd, quick, rng)
    nns, nns_ok = nsnodes_family(res, wd, quick, rng)
    navt, navt_ok = navt + nfmt + nns + nvs, navt_ok + nfmt_ok + nns_ok + nvs_ok
    res.notes["dropped_unjudged"] = st["dropped"]
    rejected = {rj["line"] for rj in rejects}
    res.cov["traces_validated_against_impl"] = len(events) - len(rejects) - st["dropped"] + navt_ok
    res.cov["evaluations"] = len(events) + navt
    nt = set()
    for i, ev in enumerate(events):
        ks = set(); count_kinds(ev["ss"], ks)
        kinds |= ks
        if len(ks) >= 5 and ev["status"] == 0 and len(json.dumps(ev["tree"])) > 80:
            nt.add(vlib.canon_hash([ev["ss"], ev["doc"]]))
    res.notes["instruction_kinds_generated"] = sorted(kinds)
    res.cov["distinct_nontrivial"] = len(nt)
    res.cov["rule"] = ("seeded stylesheets: 1-5 match templates (14-pattern pool, 2 modes, priorities, params) + 0-2 named templates + the root template, 0-2 global variables, bodies nested "
                       "to depth 3 over the instruction kinds listed in instruction_kinds_generated, expressions from the typed XPath generator with the variables in scope; documents "
                       "from the XPath corpus; every 5th stylesheet from the scoping family (call-template / apply-templates with and without with-param under if/choose/for-each/"
                       "literal elements, same-named caller variables), every 10th from the sorting family (1-3 tie-prone sort keys, mixed order and data-type, position()/last() printed), every 10th from the imports family "
                       "(import tree of four modules, rules with overlapping patterns/modes/priorities, xsl:apply-imports, a named template defined in several modules, xsl:include'd runs), every 10th from the attribute-set family (sets merged by import precedence, sets using sets, use-attribute-sets on literal elements / xsl:element / "
                       "xsl:copy incl. copies of the root, text and attribute nodes), every 10th from the fragment-comparison family (result tree fragments against node-sets / strings / numbers / booleans / each other under all six operators), every 10th from the strip / copy family (strip-space and preserve-space declarations with xsl:copy-of of the root / elements / node lists, the identity rule, string values and text counts), every 10th from the multi-document family (document(): identity of loaded "
                       "documents, keys / id() / xsl:number / sorting / template application inside them, strip-space applied to them); non-trivial = at least 5 different instruction kinds in the stylesheet and a non-trivial result tree; distinct by (stylesheet, document). "
                       "Besides: the AVT family, the format-number family and the namespace-node family (see notes). Cases whose definition value involves a number outside the model or a dynamic error are not judged (counted in dropped_unjudged)")
    for ev in events[:2]:
        cdir = cases[ev["sample"]]["dir"]
        res.sample({"xsl": all_xsl(cdir), "doc": ev["doc"], "tree": ev["tree"]})
    res.assumptions += ["XSLTSem has no namespaces in result names: requested expanded names are C14's, the namespace NODES of the result are judged by the namespace-node family against ResultTree.tla; xsl:number value= is C17's; document() with one string argument only; format-number only in its own family; keys and space declarations only in the principal module",
                        "the result tree is compared as a canonical tree: adjacent text merged, attributes as a set, xmlns attributes ignored"]


def classify(ev):
    return None


def replay(path):
    events = vlib.read_ndjson(path)
    fam = events[0].get("family") if events else None
    if fam == "sttext":
        rejects, _ = vlib.tlc_validate_sharded(TRACE_ST, events, shards=1, tag="c01replay3", stateless=True)
        for r in rejects:
            print("REJECTED: %s" % r["msg"][:2000])
        return 1 if rejects else 0
    if fam in ("vstack", "nsnodes"):
        evs = [{k: v for k, v in ev.items() if k not in ("family", "xsl", "xml")} for ev in events if ev.get("e") != "Sample"]
        rejects, _ = vlib.tlc_validate_sharded(TRACE_VS if fam == "vstack" else TRACE_NS, evs, shards=1, tag="c01replay2", stateless=(fam == "nsnodes"))
        for r in rejects:
            print("REJECTED: %s" % r["msg"][:2000])
        return 1 if rejects else 0
    wd = vlib.workdir("c01replay")
    flat = events[0].pop("flatdoc")
    flataux = events[0].pop("flataux", [])
    events[0]["aux"] = [2 + j for j in range(len(flataux))]
    events[0]["doc"] = 1
    dpath = os.path.join(wd, "docs.ndjson")
    vlib.write_ndjson(dpath, [flat] + flataux)
    rejects, _ = vlib.tlc_validate_sharded(TRACE, events, shards=1, tag="c01replay", env={"DOCS": dpath}, stateless=True)
    for r in rejects:
        print("REJECTED: %s" % r["msg"])
    return 1 if rejects else 0
