"""C08 - output options change only the lexical form, never the content.
MC : MC_Indent.tla - the transcribed XalanIndentWriter + FormatterToXMLUnicode call sites (IndentImpl) over every event
     sequence of bounded length: what it writes reads back as the same tree modulo OutputOptions!SameContent - on every
     sequence, no named deviation KD_* is left since the repairs fixes/C08-wsAfter*.patch (the model is the repaired
     algorithm and asserts that the former witnesses conform).  MC_OutputOptions.tla - the option product, every vector
     well-formed.
GEN: one shortest event sequence per transition of the MC_Indent graph (hist + VIEW + tlc -dump) -> mixed-content shapes;
     the option vectors are TLC's enumeration of OutputOptions!OptionProduct (quick: a pairwise cover chosen from it);
     seeded random XML-ish and HTML-ish result trees (VERIF_SEED).
RUN: harness/c08.cpp - one real transformation per (tree, vector): a generated stylesheet builds the tree and carries the
     xsl:output rendered from the vector; transformer overrides applied; bytes out of a std::ostringstream.
     tools/c08lib.py reads the bytes back with expat / html.parser / plain decoding (independent parsers).
TV : Trace_C08.tla - first event of an execution = reference vector, every other event must satisfy SameContent /
     HtmlSame / the text rule of OutputOptions.tla.  TLC decides; a reject is attributed to a known finding only if
     undoing exactly that deviation makes TLC accept the event.  Only findings whose status is "known" suppress anything
     (vlib.known_findings): a class whose status is "fixed" is recognised the same way, but reported as a VIOLATION
     ("recurrence of repaired finding")."""
import copy, html, json, os, random, re, subprocess, itertools, time
from concurrent.futures import ThreadPoolExecutor, ProcessPoolExecutor
import vlib, tlaparse, c08lib
from vlib import ROOT

PROP = "C08"
MC_IND = os.path.join(ROOT, "spec/mc/MC_Indent.tla")
MC_OO = os.path.join(ROOT, "spec/mc/MC_OutputOptions.tla")
TRACE = os.path.join(ROOT, "spec/trace/Trace_C08.tla")
FIELDS = ["method", "indent", "indentAmount", "setIndent", "encoding", "setEncoding", "omitDecl", "standalone", "doctype", "cdata", "version",
          "setOmitMeta", "setEscapeURLs"]
REF = {"method": "xml", "indent": "no", "indentAmount": -1, "encoding": "UTF-8", "omitDecl": "absent", "standalone": "absent", "doctype": "none",
       "cdata": [], "version": "absent", "setIndent": -1, "setEncoding": "", "setOmitMeta": "default", "setEscapeURLs": "default"}
NODECL = {"present": False, "version": "", "encoding": "", "standalone": "absent"}
NODT = {"present": False, "name": "", "pub": "", "sys": ""}


# ----------------------------------------------------------------------------------------------- MC / GEN
def indent_cfg(maxhist, gen):
    s = ["SPECIFICATION " + ("GenSpec" if gen else "Spec"), "CONSTANTS", "  MaxHist = %d" % maxhist, "  MaxDepth = 3", "  Amount = 2",
         "  CdataElems <- MC_CdataElems"]
    if gen:
        s += ["VIEW View"]
    else:
        s += ["INVARIANT DummyExact", "INVARIANT IndentConforms", "INVARIANT NoWsNextToText", "INVARIANT PreservesDead"]
    return "\n".join(s) + "\n"


def export_shapes(wd):
    cfg = os.path.join(wd, "indent_gen.cfg")
    open(cfg, "w").write(indent_cfg(8, True))
    dump = os.path.join(wd, "indent_gen")
    r = vlib.tlc(MC_IND, cfg, workers=1, name="c08gen", timeout=1500, extra=["-noGenerateSpecTE", "-dump", dump])
    if not r["ok"]:
        raise vlib.Infra("MC_Indent behaviour export failed: " + r["out"][-3000:])
    hists = [s["hist"] for s in tlaparse.read_dump(dump + ".dump", only={"hist"}) if s["hist"]]
    trees, seen = [], set()
    for h in sorted(hists, key=lambda h: (len(h), json.dumps(h))):
        t = c08lib.tree_of_events(h)
        if not any(n["k"] == "elem" for n in t):
            continue                                        # no document element yet: nothing an XML parser can read
        key = c08lib._body(t)
        if key not in seen:
            seen.add(key); trees.append(t)
    return trees, len(hists), r


def export_vectors(wd):
    cfg = os.path.join(wd, "oo.cfg")
    open(cfg, "w").write("SPECIFICATION Spec\nINVARIANT WellFormed\nINVARIANT Meaning\n")
    dump = os.path.join(wd, "oo")
    r = vlib.tlc(MC_OO, cfg, workers=1, name="c08oo", timeout=900, extra=["-noGenerateSpecTE", "-dump", dump])
    if not r["ok"]:
        raise vlib.Infra("MC_OutputOptions failed: " + r["out"][-3000:])
    vs = [s["o"] for s in tlaparse.read_dump(dump + ".dump", only={"o"})]
    vs.sort(key=lambda o: json.dumps(o, sort_keys=True))
    return vs, r


def pairwise(vectors, rng):
    """greedy pairwise cover: every pair of settings that occurs together somewhere in the product occurs in the subset"""
    def pairs(o):
        vals = [(f, json.dumps(o[f])) for f in FIELDS]
        return {(a, b) for a, b in itertools.combinations(vals, 2)}
    ps = [pairs(o) for o in vectors]
    todo = set().union(*ps)
    order = list(range(len(vectors))); rng.shuffle(order)
    chosen = []
    while todo:
        best = max(order, key=lambda i: len(ps[i] & todo))
        chosen.append(best); todo -= ps[best]
    return [vectors[i] for i in sorted(chosen)]


# ---------------------------------------------------------------------------------------------- RUN side
def eff_method(o, tree):
    if o["method"] != "none":
        return o["method"]
    els = [n for n in tree if n["k"] == "elem"]
    return "html" if els and els[0]["name"].lower() == "html" else "xml"


def eff_encoding(o):
    return o["setEncoding"] or (o["encoding"] if o["encoding"] != "absent" else "UTF-8")


def observe(job):
    """(opts, python tree, Done record, is reference) -> trace event (parsing and canonicalisation only, no judgement)"""
    o, tree, dn, isref, tid = job
    m, enc = eff_method(o, tree), eff_encoding(o)
    ev = {"e": "Out", "treeId": tid, "opts": o, "status": dn["status"], "kind": m, "enc": enc, "perr": "", "tree": [], "text": [],
          "decl": NODECL, "doctype": NODT, "want": c08lib.canon(tree) if isref else []}
    if dn["status"] != 0:
        ev["perr"] = dn["msg"][:200]
        return ev
    data = bytes.fromhex(dn["hex"])
    if m == "text":
        r = c08lib.parse_text(data, enc)
        if "error" in r: ev["perr"] = r["error"]
        else: ev["text"] = c08lib.cps(r["text"])
        return ev
    if m == "html":
        r = c08lib.parse_html(data, enc)
        if "error" in r: ev["perr"] = r["error"]
        else: ev["tree"], ev["doctype"] = c08lib.canon_html(r["tree"]), r["doctype"]
        return ev
    declared = data[:5] == b"<?xml" or data[:2] in (b"\xff\xfe", b"\xfe\xff")
    r = c08lib.parse_xml(data, None if declared else enc)    # no declaration: the requested encoding is what the consumer is told
    if "error" in r: ev["perr"] = r["error"]
    else: ev["tree"], ev["decl"], ev["doctype"] = c08lib.canon(r["tree"]), r["decl"], r["doctype"]
    return ev


def run_harness(exe, wd, cases, res, describe):
    nsh = min(vlib.NCPU, max(1, len(cases) // 50))
    procs = []
    for s in range(nsh):
        ch = cases[s::nsh]
        cp = os.path.join(wd, "cases-%d.ndjson" % s); vlib.write_ndjson(cp, ch)
        rp = os.path.join(wd, "out-%d.ndjson" % s)
        procs.append((ch, rp, subprocess.Popen([exe, cp], stdout=open(rp, "w"), stderr=subprocess.PIPE)))
    dones = {}
    for ch, rp, p in procs:
        try:
            _, err = p.communicate(timeout=2400)
        except subprocess.TimeoutExpired:
            p.kill(); _, err = p.communicate(); err = b"TIMEOUT " + (err or b"")
        got = {}
        for line in open(rp):
            try:
                d = json.loads(line)
            except ValueError:
                continue                                    # a line cut short by a crash
            got[d["id"]] = d
        dones.update(got)
        if p.returncode != 0 or len(got) < len(ch):
            first = next(c for c in ch if c["id"] not in got)
            res.violation("transformation process died or hung (rc=%s) on this case: %s" % (p.returncode, (err or b"").decode("utf8", "replace")[-300:]),
                          [describe(first["id"])])
    return dones


# ------------------------------------------------------------------------- attribution of rejects to known findings
def _unrep(s, enc):
    lim = {"US-ASCII": 127, "ISO-8859-1": 255}.get(enc, 0x10FFFF)
    return [c for c in s if c > lim]


def _cdata_tail_unrep(tree, names, lim):
    """python (unmerged) tree: does a cdata-section element hold a text instruction whose last character (line feeds aside)
    the encoding cannot represent"""
    for n in tree:
        if n["k"] != "elem":
            continue
        if n["name"] in names:
            for k in n["kids"]:
                if k["k"] == "text" and not k.get("doe"):
                    v = k["v"].rstrip("\n")
                    if v and ord(v[-1]) > lim:
                        return True
        if _cdata_tail_unrep(n["kids"], names, lim):
            return True
    return False


_LEFT_OPEN = re.compile(rb"(&#\d+;<!\[CDATA\[)(?=[\n ]*(?:</|<!--|<\?|<!\[CDATA\[|<[A-Za-z]))")


def _tab_in_cdata_comment_pi(ns, names, incdata):
    for n in ns:
        if n["k"] in ("comment", "pi") and 9 in n["v"]:
            return True
        if n["k"] == "text" and incdata and 9 in n["v"]:
            return True
        if n["k"] == "elem" and _tab_in_cdata_comment_pi(n["kids"], names, "".join(map(chr, n["name"])) in names):
            return True
    return False


def _want_dt(o, ref):
    els = [n for n in ref if n["k"] == "elem"]
    if o["doctype"] in ("system", "public") and els:
        return {"present": True, "name": "".join(map(chr, els[0]["name"])), "sys": "c08.dtd", "pub": "-//C08//DTD T 1.0//EN" if o["doctype"] == "public" else ""}
    return NODT


def repair(ev, ref, tree, data):
    """undo exactly the known deviations in a rejected event; returns (repaired event, keys applied).  The repaired event goes
    back to TLC: only if it is then accepted is the reject attributed to those keys."""
    o, m, enc = ev["opts"], ev["kind"], ev["enc"]
    ev2, keys = copy.deepcopy(ev), []
    lim = {"US-ASCII": 127, "ISO-8859-1": 255}.get(enc, 0x10FFFF)
    auto_html = o["method"] == "none" and m == "html"
    if auto_html and tree and tree[0]["k"] in ("comment", "pi") and data[:1] == b"<" and not data.lstrip().lower().startswith((b"<html", b"<!doctype html")):
        # a comment / PI in front of <html>: the xml method was used; judge the output as what it is
        ev2 = observe((dict(o, method="xml"), tree, {"status": ev["status"], "msg": ev["perr"], "hex": data.hex()}, False, ev["treeId"]))
        return ev2, ["defaultHtmlNotChosenAfterLeadingComment"]
    if auto_html and o["setOmitMeta"] == "yes":
        ev2["opts"]["setOmitMeta"] = "default"; keys.append("autoHtmlIgnoresOmitMetaOverride")
    if auto_html and o["setEscapeURLs"] == "no":
        ev2["opts"]["setEscapeURLs"] = "default"; keys.append("autoHtmlIgnoresEscapeURLsOverride")
    if m == "text":
        txt = []
        def walk(ns):
            for n in ns:
                if n["k"] == "text": txt.extend(n["v"])
                elif n["k"] == "elem": walk(n["kids"])
        walk(ref)
        if ev["status"] == 0 and any(c > lim for c in txt) and ev["text"] == [x for c in txt for x in (([26, 26] if c > 65535 else [26]) if c > lim else [c])]:
            ev2["status"] = -1; ev2["text"] = []; keys.append("textUnrepresentableSubstituted")      # "had an error been signalled"
        return ev2, keys
    used = set()
    if m == "xml" and ev["status"] == 0 and o["cdata"] and lim < 0x10FFFF and _cdata_tail_unrep(tree, o["cdata"], lim) and _LEFT_OPEN.search(data):
        # the section re-opened after the character reference is never closed: put the missing "]]>" in and read the document again
        r = c08lib.parse_xml(_LEFT_OPEN.sub(rb"\1]]>", data), None if data[:5] == b"<?xml" else enc)
        if "error" not in r:
            ev2["perr"] = ""; ev2["tree"], ev2["decl"], ev2["doctype"] = c08lib.canon(r["tree"]), r["decl"], r["doctype"]
            used.add("cdataSectionLeftOpen")
    if (m == "xml" and ev["status"] != 0 and o["version"] == "1.1" and "code point '9' is not a legal XML 1.1 character" in ev["perr"]
            and _tab_in_cdata_comment_pi(ref, o["cdata"], False)):
        # the transformation was refused: nothing to read back; attributed on the input alone (TAB in a CDATA element / comment / PI, 1.1)
        return dict(ev2, status=0, perr="", tree=copy.deepcopy(ref), decl=NODECL, doctype=ev["doctype"] if ev["doctype"]["present"] else _want_dt(o, ref)), keys + ["xml11TabRejected"]
    if ev2["status"] != 0 or ev2["perr"]:
        return ev2, keys + sorted(used)

    def walk(rk, tk, parent):
        """parallel walk of reference and observed siblings (inserted whitespace-only nodes skipped)"""
        i = j = 0
        while i < len(rk) and j < len(tk):
            r, t = rk[i], tk[j]
            if t["k"] == "text" and r["k"] != "text" and all(c in (9, 10, 13, 32) for c in t["v"]):
                j += 1; continue
            if (m == "html" and t["k"] == "elem" and t["name"] == c08lib.cps("meta") and any(a[0] == c08lib.cps("http-equiv") for a in t["attrs"])
                    and not (r["k"] == "elem" and "".join(map(chr, r["name"])).lower() == "meta")):
                j += 1; continue                            # the inserted META
            if r["k"] != t["k"]:
                return
            if r["k"] == "text" and r["v"] != t["v"]:
                nxt = tk[j + 1]["k"] if j + 1 < len(tk) else None
                rest = t["v"][len(r["v"]):]
                if m == "xml" and nxt == "elem" and t["v"][:len(r["v"])] == r["v"] and rest and all(c in (10, 32) for c in rest):
                    if parent is not None and "".join(map(chr, parent)) in o["cdata"]:
                        t["v"] = list(r["v"]); used.add("wsAfterCdataBeforeElement")
                    elif _has_doe(tree, r["v"]):
                        t["v"] = list(r["v"]); used.add("wsAfterRawBeforeElement")
            elif r["k"] == "pi" and m == "html" and r["v"] != t["v"] and html.unescape("".join(map(chr, t["v"]))) == "".join(map(chr, r["v"])):
                t["v"] = list(r["v"]); used.add("htmlPIDataEscaped")
            elif r["k"] in ("comment", "pi") and r["v"] != t["v"]:
                if m == "xml" and t["v"] == [x for c in r["v"] for x in (c08lib.cps("&#%d;" % c) if c > lim else [c])]:
                    t["v"] = list(r["v"]); used.add("charRefInCommentOrPI")
                elif m == "html" and t["v"] == [(63 if c > lim else c) for c in r["v"]]:
                    t["v"] = list(r["v"]); used.add("htmlCommentUnrepresentableReplaced")
            elif r["k"] == "elem":
                if m == "html":
                    ra = {"".join(map(chr, a[0])).lower(): a[1] for a in r["attrs"]}
                    for a in t["attrs"]:
                        rv = ra.get("".join(map(chr, a[0])))
                        if rv is not None and rv != a[1] and any(c > 65535 for c in rv) and a[1] == [c & 65535 for c in rv]:
                            a[1] = list(rv); used.add("htmlAttrSupplementaryTruncated")
                        elif (rv is not None and rv != a[1] and any(c > 65535 for c in rv) and lim < 65535 and o["setEscapeURLs"] == "no"
                              and a[1] == [x for c in rv for x in ([65533, 65533] if c > 65535 else [c])]):
                            a[1] = list(rv); used.add("htmlUriAttrSurrogateRefs")
                walk(r["kids"], t["kids"], r["name"])
            i += 1; j += 1
    walk(ref, ev2["tree"], None)
    return ev2, keys + sorted(used)


def _has_doe(tree, v):
    s = "".join(map(chr, v))
    def w(ns):
        return any((n["k"] == "text" and n.get("doe") and s.endswith(n["v"])) or (n["k"] == "elem" and w(n["kids"])) for n in ns)
    return w(tree)


def fixed_keys():
    """keys of this property's findings that have been repaired (status "fixed"): they suppress nothing, the set only names a recurrence"""
    import glob
    out = set()
    for path in [os.path.join(ROOT, "known_findings.jsonl")] + sorted(glob.glob(os.path.join(ROOT, "known_findings.d", "*.jsonl"))):
        if os.path.exists(path):
            out |= {r["key"] for r in vlib.read_ndjson(path) if r.get("property") == PROP and r.get("status") == "fixed"}
    return out


def process_batch(res, exe, wd, batch, known, tot, nt):
    """one batch of executions: transform, read back, validate, attribute rejects"""
    os.makedirs(wd, exist_ok=True)
    t0 = time.time()
    cases, meta = [], []                                    # meta[id] = (exec index, opts, isref)
    trees, big = {}, {}
    for xi, (kind, t, vs) in batch:
        trees[xi] = t; big[xi] = len(c08lib._body(t)) > 100
        for isref, o in [(True, REF)] + [(False, v) for v in vs]:
            cid = len(cases)
            cases.append(c08lib.harness_case(cid, t, o)); meta.append((xi, o, isref))

    def describe(cid):
        xi, o, isref = meta[cid]
        return {"e": "Case", "opts": o, "tree": trees[xi], "xsl": cases[cid]["xsl"]}
    dones = run_harness(exe, wd, cases, res, describe)
    tot["cases"] += len(dones)
    t1 = time.time()
    # ---- read the bytes back
    ids = [c for c in range(len(cases)) if c in dones]
    jobs = [(meta[c][1], trees[meta[c][0]], dones[c], meta[c][2], meta[c][0]) for c in ids]
    if len(jobs) > 4000:
        with ProcessPoolExecutor(max_workers=min(8, vlib.NCPU)) as pp:
            obs = list(pp.map(observe, jobs, chunksize=500))
    else:
        obs = [observe(j) for j in jobs]
    events, evcase, last = [], [], None
    for cid, ev in zip(ids, obs):
        xi, o, isref = meta[cid]
        if isref:
            events.append({"e": "Reset", "treeId": xi}); evcase.append(None); last = xi
        elif last != xi:
            continue                                        # the reference run of this execution is missing (process died): already reported
        events.append(ev); evcase.append(cid)
        if not isref and big[xi] and (o["indent"] == "yes" or o["setIndent"] >= 0 or o["indentAmount"] >= 0 or o["method"] in ("html", "text", "none")
                                                         or eff_encoding(o) != "UTF-8" or o["cdata"]):
            nt.add(vlib.canon_hash([cases[cid]["xsl"], o]))
    t2 = time.time()
    # ---- TV
    nsh = max(1, min(vlib.NCPU, len(events) // 3000))
    rejects, st = vlib.tlc_validate_sharded(TRACE, events, shards=nsh, tag="c08tv", timeout=3000, xmx="3g")
    tot["tv_states"] += st["tv_states"]
    tot["out"] += sum(1 for e in events if e["e"] == "Out")
    tot["rejects"] += len(rejects)
    refs = {e["treeId"]: e for e in events if e["e"] == "Out" and e["want"]}
    bytree = {}
    for rj in rejects:
        ev = events[rj["line"]]
        cid = evcase[rj["line"]]
        xi, o, isref = meta[cid]
        if isref or xi not in refs:
            res.violation(rj["msg"][:300], [events[rj["line"] - 1], dict(ev, xsl=cases[cid]["xsl"], hex=dones[cid]["hex"])])
            continue
        ev2, keys = repair(ev, refs[xi]["tree"], trees[xi], bytes.fromhex(dones[cid]["hex"]))
        bytree.setdefault(xi, []).append((rj, ev, cid, keys, ev2))
    # second look: per tree one execution [Reset, reference, repaired events...] (every event is judged on its own, Step.cont)
    second, pos = [], {}
    for xi, lst in bytree.items():
        second += [{"e": "Reset", "treeId": xi}, refs[xi]]
        for k, item in enumerate(lst):
            pos[(xi, k)] = len(second); second.append(item[4])
    if second:
        rej2, _ = vlib.tlc_validate_sharded(TRACE, second, shards=max(1, min(vlib.NCPU, len(second) // 3000)), tag="c08tv2", timeout=3000, xmx="3g")
        still = {r["line"] for r in rej2}
        for xi, lst in bytree.items():
            for k, (rj, ev, cid, keys, ev2) in enumerate(lst):
                if keys and pos[(xi, k)] not in still and all(key in known for key in keys):
                    for key in keys:
                        res.known(known[key])
                else:
                    back = [key for key in keys if key in tot.get("fixed", ())] if pos[(xi, k)] not in still else []
                    res.violation("%s%s | opts %s" % ("recurrence of repaired finding %s: " % ", ".join(back) if back else "", rj["msg"][:260],
                                                      json.dumps({f: v for f, v in ev["opts"].items() if REF[f] != v})),
                                  [{"e": "Reset", "treeId": xi}, refs[xi], dict(ev, xsl=cases[cid]["xsl"], hex=dones[cid]["hex"], attributed=keys)])
    vlib.log("c08: batch of %d transformations: run %.0fs, read back %.0fs, validation %.0fs (%d rejects looked at twice)" % (
        len(cases), t1 - t0, t2 - t1, time.time() - t2, len(rejects)))
    if not os.environ.get("VERIF_KEEP"):
        import shutil
        shutil.rmtree(wd, ignore_errors=True)


# ------------------------------------------------------------------------------------------------- run
def run(res, tier, seed):
    quick = tier == "quick"
    rng = random.Random(seed)
    wd = vlib.workdir("c08-%d" % os.getpid())
    # ---- MC + GEN (the exhaustive indent model runs beside the conformance run)
    pool = ThreadPoolExecutor(max_workers=2)
    mh = 6 if quick else 8
    cfg = os.path.join(wd, "indent_mc.cfg")
    open(cfg, "w").write(indent_cfg(mh, False))
    mcfut = pool.submit(vlib.tlc_mc, MC_IND, cfg, workers=4, timeout=3000, name="c08mc", extra=["-noGenerateSpecTE"])
    shapes, nhist, rgen = export_shapes(wd)
    vectors, roo = export_vectors(wd)
    res.add_mc(roo, "MC_OutputOptions (the option product, %d vectors)" % len(vectors))
    res.notes["option_product"] = len(vectors)
    res.notes["indent_transitions_exported"] = nhist
    res.notes["indent_shapes"] = len(shapes)
    # ---- option vectors per tree class
    if quick:
        cover = pairwise(vectors, rng)
        res.notes["pairwise_cover"] = len(cover)
        rest = [o for o in vectors if o not in cover]
        cover = cover + rng.sample(rest, max(0, 60 - len(cover)))           # the cover, topped up to 60 vectors by seeded sampling
    else:
        cover = vectors
    res.notes["vectors_used"] = len(cover)
    shape_vecs = [o for o in vectors if o["method"] == "xml" and o["encoding"] == "absent" and o["setEncoding"] == "" and o["omitDecl"] == "absent"
                  and o["standalone"] == "absent" and o["version"] == "absent" and o["doctype"] in (("none",) if quick else ("none", "system"))]
    # ---- trees
    ntrees = 30 if quick else 100
    nhtml = ntrees * 2 // 5
    trees = [("xmlish", c08lib.gen_xmlish(rng)) for _ in range(ntrees - nhtml)]
    for k in range(nhtml):
        trees.append(("htmlish", c08lib.gen_htmlish(rng, root=("HTML" if k % 7 == 3 else "html"), lead_comment=(k % 9 == 5))))
    # a supplementary character whose surrogate pair straddles the 512-unit (and 1024-unit) output buffers, in text and in an attribute
    for k in (510, 511, 512, 1023):
        trees.append(("xmlish", [c08lib.E("r", c08lib.T("x" * k + "\U0001F600" + "tail"), a=[["t", "y" * (k - 8) + "\U0001D11E"]])]))
    # ---- executions: (tree, [vectors]) in chunks, each starting with the reference vector
    execs = []
    for t in shapes:
        execs.append(("shape", t, shape_vecs))
    for kind, t in trees:
        for c in range(0, len(cover), 120):
            execs.append((kind, t, cover[c:c + 120]))
    # XML 1.1 line ends / restricted characters and copied raw text: the vectors that write XML (every version x indent x encoding x cdata)
    xml_cover = [o for o in cover if o["method"] in ("xml", "none")]
    for t in c08lib.line_trees():
        for c in range(0, len(xml_cover), 120):
            execs.append(("xmlish", t, xml_cover[c:c + 120]))
    res.notes["line_end_trees"] = len(c08lib.line_trees())
    for t in c08lib.html_raw_trees():
        for c in range(0, len(cover), 120):
            execs.append(("htmlish", t, cover[c:c + 120]))
    # URL attributes with characters the encoding lacks: every html vector of the cover, and one html vector under each encoding with URL
    # escaping on / off / left alone
    html_cover = [o for o in cover if o["method"] == "html"]
    if html_cover:
        base_ = html_cover[0]
        uri_vecs = [cover[0]] + html_cover + [dict(base_, encoding=e_, setEncoding="", setEscapeURLs=u_) for e_ in ("ISO-8859-1", "US-ASCII", "UTF-8", "UTF-16") for u_ in ("no", "yes", "default")]
        for t in c08lib.html_uri_trees():
            execs.append(("htmlish", t, uri_vecs))
    exe = vlib.build_harness("c08")
    known = {k["key"]: k for k in vlib.known_findings(PROP)}
    tot = {"cases": 0, "out": 0, "rejects": 0, "tv_states": 0, "fixed": fixed_keys()}
    nt = set()
    vlib.log("c08: %d shapes x %d vectors, %d trees x %d vectors" % (len(shapes), len(shape_vecs), len(trees), len(cover)))
    batch, size, bi = [], 0, 0
    for xi, ex in enumerate(execs):
        batch.append((xi, ex)); size += 1 + len(ex[2])
        if size >= 24000 or xi == len(execs) - 1:
            process_batch(res, exe, os.path.join(wd, "b%d" % bi), batch, known, tot, nt)
            batch, size, bi = [], 0, bi + 1
    res.cov["evaluations"] = tot["cases"]
    res.notes["tv_states"] = tot["tv_states"]
    res.cov["traces_validated_against_impl"] = tot["out"] - tot["rejects"]
    # ---- the exhaustive model
    rmc = mcfut.result()
    res.add_mc(rmc, "MC_Indent/Spec (every event sequence of length <= %d, nesting <= 3: DummyExact, IndentConforms, NoWsNextToText, PreservesDead - no exclusions; ASSUME: former deviation witnesses conform)" % mh)
    res.add_mc(rgen, "MC_Indent/GenSpec (one shortest sequence per transition, VIEW)")
    # non-trivial (counted in process_batch): a non-reference vector that switches on something that can touch the content
    # (indentation, a non-UTF-8 encoding, html/text method, cdata sections) on a tree that is not tiny
    res.cov["distinct_nontrivial"] = len(nt)
    res.cov["rule"] = ("result trees = %d mixed-content shapes (one shortest event sequence per transition of the MC_Indent graph, %d transitions, open elements closed, "
                       "duplicates dropped) x the %d xml indentation/cdata vectors, + %d seeded random trees (%d XML-ish: mixed content, whitespace-only text, comments, PIs, "
                       "cdata-section element, disable-output-escaping text, special characters in attributes; %d HTML-ish: head/title/script/style/void elements/boolean and "
                       "URL attributes) x %s of OutputOptions!OptionProduct (%d vectors, enumerated by TLC); every (tree, vector) is one real transformation whose xsl:output is "
                       "rendered from the vector; non-trivial = the vector turns on indentation, a non-UTF-8 encoding, cdata sections or the html/text method and the tree is "
                       "not tiny; distinct by (tree, vector)" % (len(shapes), nhist, len(shape_vecs), len(trees), ntrees - nhtml, nhtml,
                                                                 "%d vectors (a pairwise cover of %d + seeded sample)" % (len(cover), res.notes["pairwise_cover"]) if quick else "ALL vectors", len(vectors)))
    for kind, t, vs in (execs[0], execs[len(shapes)], execs[-1]):
        res.sample({"tree": c08lib.show(t), "first_vector": vs[0] if vs else None})
    res.assumptions += [
        "the observed tree is what expat (pyexpat) / Python's html.parser read back from the bytes - independent parsers, trusted; html.parser only tokenizes, "
        "the tree builder on top is strict (explicit end tags, none for void elements)",
        "indentation counts as requested when indent=\"yes\", the html default applies, or an indent amount is given (xalan:indent-amount / setIndent(n>=0)) - "
        "Xalan's documented extension; whitespace inside mixed content between two tags is allowed by the property (XSLT 16.1 only warns), SameContentStrict is not enforced",
        "element and attribute names are namespace-free (C14 covers namespaces); characters needing character-level care beyond &<>\" and non-ASCII are C04's",
        "xalan:escape-urls / xalan:omit-meta-tag in xsl:output are not varied (the transformer overrides are)"]


def replay(path):
    events = [e for e in vlib.read_ndjson(path) if e.get("e") in ("Reset", "Out")]
    for e in events:
        for k in ("xsl", "hex", "attributed"):
            e.pop(k, None)
    if not events:
        print("REJECTED: the recorded case made the transformation process die"); return 1
    rejects, _ = vlib.tlc_validate_sharded(TRACE, events, shards=1, tag="c08replay")
    for r in rejects:
        print("REJECTED line %d: %s" % (r["line"], r["msg"]))
    return 1 if rejects else 0
