"""C15 - key() returns exactly the nodes its xsl:key declaration defines, independent of lookup history.
GEN: seeded declaration sets (1-3 xsl:key, a name declared twice, match patterns incl. attributes, use expressions
     yielding strings / node-sets / '' / duplicates) x documents (main + a document()-loaded one) x lookup sequences
     (string and node-set arguments), each sequence also in reversed and shuffled order.
RUN: harness/xslt.cpp; every lookup is an xsl:variable whose select event carries the delivered node list.
TV : Trace_C15.tla: delivered = XPathSem!KeyNodes in document order."""
import os, random, json, subprocess
from xml.sax.saxutils import quoteattr
import vlib, xdm, xpgen, tlaparse
from xpgen import *
from vlib import ROOT
from props import c02

PROP = "C15"
TRACE = os.path.join(ROOT, "spec/trace/Trace_C15.tla")
XSLNS = 'xmlns:xsl="http://www.w3.org/1999/XSL/Transform"'


def gen_decls(rng):
    P = lambda *steps, **kw: path(list(steps), **kw)
    ch = lambda t, *p: step("child", t, *p)
    at = lambda t, *p: step("attribute", t, *p)
    matches = [P(ch(t_name("a"))), P(ch(t_name("b"))), P(ch(T_ANY)), P(at(t_name("x"))), P(at(T_ANY)), P(ch(t_name("a")), ch(t_name("b"))),
               bin_("|", P(ch(t_name("b"))), P(ch(t_name("c")))), P(ch(T_ANY, P(at(t_name("x"))))), P(ch(T_TEXT)), P(ch(t_name("c"))),
               # every node kind a key can index: comments, processing instructions, any child node, mixed unions
               P(ch(T_COMMENT)), P(ch(t_pi())), bin_("|", P(ch(T_TEXT)), P(ch(T_COMMENT))), bin_("|", P(ch(t_pi())), P(at(T_ANY))), P(ch(T_ANY), ch(T_TEXT))]
    uses = [P(at(t_name("x"))), P(at(T_ANY)), P(step("self", T_NODE)), P(ch(T_ANY)), P(ch(T_TEXT)), fn("name"), fn("string", P(at(t_name("y")))),
            P(ch(t_name("b"))), fn("count", P(ch(T_ANY))), fn("concat", P(at(t_name("x"))), lit("")), P(step("parent", T_NODE), at(t_name("x"))), lit("t"),
            # current() inside use is the node being indexed (12.2); values that are numbers
            path([at(t_name("x"))], start=fn("current")), fn("string-length", P(step("self", T_NODE))), fn("local-name", P(step("parent", T_NODE, abbr=False))),
            fn("count", P(step("preceding-sibling", T_NODE, abbr=False))),
            # 12.2: the use expression sees a current node list of just the node - position() and last() are 1; and expressions that expand a
            # QName while the table is being built (the key name of the call must survive them)
            fn("position"), fn("last"), bin_("+", fn("position"), fn("count", P(at(T_ANY)))),
            fn("concat", P(at(t_name("x"))), fn("function-available", lit("concat"))), fn("string", fn("element-available", lit("xsl:if")))]
    # key names: k, j; N = a QName key whose prefix differs between declaration and use (same expanded name); O = same local name in another namespace
    names = ["k", "k", "j", "N", "O"]
    n = rng.randint(1, 3)
    return [{"name": rng.choice(names) if i else rng.choice(["k", "k", "N"]), "match": rng.choice(matches), "use": rng.choice(uses),
             "mod": rng.choice(["main", "main", "imp"])} for i in range(n)]


KEY_NS = 'xmlns:n="urn:key-ns" xmlns:m="urn:key-ns" xmlns:o="urn:other-key-ns"'


def key_qname(name, rng):
    """lexical form of a key name in the stylesheet: N is written n:k or m:k (two prefixes of one namespace), O is o:k"""
    return {"N": rng.choice(["n:k", "m:k"]), "O": "o:k"}.get(name, name)


def key_spec_name(name):
    """the expanded name the definition compares (Clark notation for the namespaced ones)"""
    return {"N": "{urn:key-ns}k", "O": "{urn:other-key-ns}k"}.get(name, name)


def gen_lookups(rng, n, decls):
    declared = [d["name"] for d in decls]
    uses_of = {nm: [d["use"] for d in decls if d["name"] == nm] for nm in declared}
    out = []
    strs = ["1", "2", "t", "", " ", "u", "1", "2", "t", "a", "b", "0", "tu"]
    nsargs = [path([DOS, step("child", T_ANY)], abs_=True), path([DOS, step("attribute", T_ANY)], abs_=True), path([DOS, step("child", T_TEXT)], abs_=True),
              path([step("child", T_ANY)]), path([DOS, step("child", t_name("b"))], abs_=True), path([DOS, step("child", t_name("zz"))], abs_=True),
              path([DOS, step("child", t_name("c"), num(1))], abs_=True)]
    for _ in range(n):
        name = rng.choice(declared)
        u = rng.choice(uses_of[name])
        if u.get("op") == "path" and not u["abs"] and rng.random() < 0.35:
            # the values the declaration itself produces, as a node-set argument
            arg = path([dict(DOS), step("child", T_ANY)] + u["steps"], abs_=True)
        elif rng.random() < 0.6:
            arg = lit(rng.choice(strs))
        elif rng.random() < 0.85:
            arg = rng.choice(nsargs)
        else:
            arg = num(rng.randint(0, 2))
        where = rng.choice(["main", "main", "other", "cross"])
        if where == "cross" and arg.get("op") not in ("str", "num"):
            where = "other"          # the cross form evaluates key() from many context nodes: only context-free arguments
        out.append({"name": name, "arg": arg, "where": where})
    return out


def render(decls, lookups, rng=None):
    """-> (main.xsl text, line map, imp.xsl text or None).  Declarations marked imp live in an imported module: 12.2 takes ALL
    xsl:key declarations of the stylesheet, whatever their import precedence."""
    rng = rng or random.Random(0)
    has_imp = any(d.get("mod") == "imp" for d in decls)
    lines = ['<xsl:stylesheet version="1.0" %s %s>' % (XSLNS, KEY_NS)]
    imp = ['<xsl:stylesheet version="1.0" %s %s>' % (XSLNS, KEY_NS)]
    if has_imp:
        lines.append('<xsl:import href="imp.xsl"/>')
    for d in decls:
        (imp if d.get("mod") == "imp" else lines).append('<xsl:key name="%s" match=%s use=%s/>' % (key_qname(d["name"], rng), quoteattr(xpgen.render(d["match"])), quoteattr(xpgen.render(d["use"]))))
    imp.append('</xsl:stylesheet>')
    lines.append('<xsl:template match="/">')
    lmap = {}
    for i, lk in enumerate(lookups):
        sel = "key('%s', %s)" % (key_qname(lk["name"], rng), xpgen.render(lk["arg"]))
        argsel = xpgen.render(lk["arg"])
        ctx = "/" if lk["where"] in ("main", "cross") else "document('other.xml')"
        if lk["where"] == "cross":
            # key() evaluated with context nodes of the OTHER document while the XSLT current node stays in the main document (12.2: "the
            # same document as the context node"): the nodes of the other document that are members of key(...), each asked from itself
            memb = "[count(. | %s) = count(%s)]" % (sel, sel)
            sel = "document('other.xml')/descendant-or-self::node()%s | document('other.xml')//@*%s" % (memb, memb)
        # the argument is observed separately (same context) so that the spec is given the actual argument value
        lines.append('<xsl:for-each select="%s"><xsl:variable name="a" select=%s/><xsl:variable name="r" select=%s/></xsl:for-each>' % (ctx, quoteattr(argsel), quoteattr(sel)))
        lmap[len(lines)] = i
    lines.append('</xsl:template>')
    lines.append('</xsl:stylesheet>')
    return "\n".join(lines) + "\n", lmap, ("\n".join(imp) + "\n") if has_imp else None


MC_KEYTABLE = os.path.join(ROOT, "spec/mc/MC_KeyTable.tla")


def keytable_model(res, wd, quick):
    """MC: KeyTableImpl (the transcribed walk, per-document lazily built table, look-up outcomes, FunctionKey's loop) = XSLT 12.2 on every
    document shape <= N nodes x declaration configurations x table-building orders.  GEN: one document per walk-branch signature (VIEW)."""
    n = 4 if quick else 5
    cfg = os.path.join(wd, "keytable_mc.cfg")
    open(cfg, "w").write("SPECIFICATION Spec\nCONSTANTS N = %d\nINVARIANT WalkOk\nINVARIANT Refines\nINVARIANT Lazy\nPROPERTY LazyStep\nCHECK_DEADLOCK FALSE\n" % n)
    r = vlib.tlc_mc(MC_KEYTABLE, cfg, name="c15keytable", timeout=3000, extra=["-noGenerateSpecTE"])
    res.add_mc(r, "MC_KeyTable (KeyTableImpl = XSLT 12.2: walk tests every node once in document order; every key() call in every table state; tables built once; all shapes <= %d nodes)" % n)
    gn = 6 if quick else 7
    gcfg = os.path.join(wd, "keytable_gen.cfg")
    open(gcfg, "w").write("SPECIFICATION SpecShapes\nCONSTANTS N = %d\nVIEW ShapeView\nCHECK_DEADLOCK FALSE\n" % gn)
    dump = os.path.join(wd, "keytable_gen")
    g = vlib.tlc(MC_KEYTABLE, gcfg, workers=1, name="c15keytablegen", timeout=3000, extra=["-noGenerateSpecTE", "-dump", dump])
    if not g["ok"]:
        raise vlib.Infra("MC_KeyTable shape export failed: " + g["out"][-2000:])
    shapes = [st["docs"][0] for st in tlaparse.read_dump(dump + ".dump", only={"docs"})]
    shapes.sort(key=lambda t: json.dumps(t, sort_keys=True, default=list))
    if len(shapes) < 50:
        raise vlib.Infra("MC_KeyTable exported only %d shapes" % len(shapes))
    return [shape_doc(t) for t in shapes]


def shape_doc(t):
    """an abstract shape [n, kind, parent] as a real document: elements a / b / c by depth, attributes x, y, z ..., other children as text /
    comment / processing instruction (never two text nodes in a row, no text under the root)"""
    n, kind, parent = t["n"], list(t["kind"]), list(t["parent"])
    nodes = {1: xdm.R()}
    depth = {1: 0}
    for i in range(2, n + 1):
        par = nodes[parent[i - 1]]
        k = kind[i - 1]
        depth[i] = depth[parent[i - 1]] + 1
        if k == "attr":
            a = xdm.A("xyzuvw"[len(par["a"]) % 6] + ("" if len(par["a"]) < 6 else str(len(par["a"]))), str(len(par["a"]) + 1))
            par["a"].append(a); nodes[i] = a
            continue
        if k == "elem":
            e = xdm.E("abc"[(depth[i] - 1) % 3])
        else:
            prev = par["c"][-1] if par["c"] else None
            under_root = parent[i - 1] == 1
            if not under_root and (prev is None or prev["k"] != "text") and i % 3 != 0:
                e = xdm.T("t%d" % i)
            elif i % 2 == 0:
                e = xdm.C("c%d" % i)
            else:
                e = xdm.PI("t", "d%d" % i)
        par["c"].append(e); nodes[i] = e
    return nodes[1]


ALLNODES = bin_("|", bin_("|", path([], abs_=True), path([step("child", T_NODE)])), path([step("attribute", T_ANY)]))


def shape_cases(rng, shape_ix, ndocs):
    """per exported shape: a key that indexes EVERY node under one value (the walk must reach each node exactly once), one that indexes the
    attributes under their names and one that indexes the elements under their number of attributes; asked in the main document, in the
    other document and across"""
    P = lambda *steps, **kw: path(list(steps), **kw)
    out = []
    for j, d1 in enumerate(shape_ix):
        d2 = shape_ix[(j + 7) % len(shape_ix)]
        decls = [{"name": "k", "match": ALLNODES, "use": lit("v"), "mod": "main"},
                 {"name": "j", "match": P(step("attribute", T_ANY)), "use": fn("name"), "mod": "main"},
                 {"name": "N", "match": P(step("child", T_ANY)), "use": fn("count", P(step("attribute", T_ANY))), "mod": rng.choice(["main", "imp"])}]
        if j % 2:
            # further declarations of the SAME names that give the same nodes the same values again, by values that are strings / numbers
            # (12.2: a node has the key value once, however many declarations say so)
            decls += [{"name": "k", "match": P(step("child", T_ANY)), "use": fn("concat", lit("v"), lit("")), "mod": rng.choice(["main", "imp"])},
                      {"name": "j", "match": P(step("attribute", T_ANY)), "use": fn("local-name"), "mod": "main"},
                      {"name": "N", "match": P(step("child", T_ANY)), "use": fn("string", fn("count", P(step("attribute", T_ANY)))), "mod": "main"}]
        lks = [{"name": "k", "arg": lit("v"), "where": "main"}, {"name": "j", "arg": lit(rng.choice("xyz")), "where": "main"},
               {"name": "N", "arg": num(rng.randint(0, 2)), "where": "main"},
               {"name": "k", "arg": lit("v"), "where": "other"}, {"name": "j", "arg": path([dict(DOS), step("attribute", T_ANY)], abs_=True), "where": "other"},
               {"name": "k", "arg": lit("v"), "where": "cross"}]
        rng.shuffle(lks)
        out.append((decls, lks, d1, d2))
    return out


def run(res, tier, seed):
    rng = random.Random(seed)
    quick = tier == "quick"
    wd = vlib.workdir("c15-%d" % os.getpid())
    c02.mc_laws(res, tier, wd)
    shapes = keytable_model(res, wd, quick)
    docs = c02.make_docs(rng, 4 if quick else 20)
    shape_ix = list(range(len(docs), len(docs) + len(shapes)))
    docs += shapes
    flats = [xdm.flatten(t, c02.ID_ATTRS) for t in docs]
    nbase = 120 if quick else 2500
    cases, metas = [], []
    k = 0
    plan = []
    for _ in range(nbase):
        decls = gen_decls(rng)
        lookups = gen_lookups(rng, rng.randint(2, 5), decls)
        d1, d2 = rng.sample(range(len(docs)), 2)
        orders = [lookups, list(reversed(lookups))]
        sh = list(lookups); rng.shuffle(sh); orders.append(sh)
        plan.append((decls, orders, d1, d2))
    for decls, lks, d1, d2 in shape_cases(rng, shape_ix, len(docs)):
        plan.append((decls, [lks], d1, d2))
    res.cov["walk_shapes_replayed"] = len(shape_ix)
    for decls, orders, d1, d2 in plan:
        for lks in orders:
            cdir = os.path.join(wd, "case%d" % k)
            os.makedirs(cdir)
            text, lmap, imptext = render(decls, lks, rng)
            open(os.path.join(cdir, "main.xsl"), "w").write(text)
            if imptext:
                open(os.path.join(cdir, "imp.xsl"), "w").write(imptext)
            open(os.path.join(cdir, "in.xml"), "w").write(c02.doc_xml(docs[d1]))
            open(os.path.join(cdir, "other.xml"), "w").write(c02.doc_xml(docs[d2]))
            cases.append({"id": k, "dir": cdir, "trace": "none", "select": True})
            metas.append((decls, lks, d1, d2, lmap))
            k += 1
    exe = vlib.build_harness("xslt")
    nsh = vlib.NCPU
    procs = []
    for s in range(nsh):
        ch = cases[s::nsh]
        if ch:
            cp = os.path.join(wd, "cases-%d.ndjson" % s)
            vlib.write_ndjson(cp, ch)
            rp = os.path.join(wd, "trace-%d.ndjson" % s)
            procs.append((ch, rp, subprocess.Popen([exe, cp], stdout=open(rp, "w"), stderr=subprocess.PIPE)))
    events, nlook, nexec, nontriv = [], 0, 0, set()
    for ch, rp, p in procs:
        _, err = p.communicate(timeout=3000)
        by_id, cur = {}, None
        for ev in vlib.read_ndjson(rp):
            if ev["e"] == "Reset":
                cur = by_id.setdefault(ev["id"], [])
            cur.append(ev)
        for c in ch:
            decls, lks, d1, d2, lmap = metas[c["id"]]
            evs = by_id.get(c["id"])
            sample = {"decls": [{"name": d["name"], "match": xpgen.render(d["match"]), "use": xpgen.render(d["use"])} for d in decls],
                      "lookups": [(l["name"], xpgen.render(l["arg"]), l["where"]) for l in lks], "xml": c02.doc_xml(docs[d1]), "other": c02.doc_xml(docs[d2])}
            if not evs or evs[-1]["e"] != "Done":
                res.violation("transformation process died (rc=%s): %s" % (p.returncode, (err or b"").decode()[-300:]), [sample]); continue
            if evs[-1]["status"] != 0:
                res.violation("error-free stylesheet failed: %s" % evs[-1]["msg"][:200], [sample]); continue
            # document numbering of the harness: 1 = main source, 2 = other.xml (first document() seen)
            def mapdoc(n):
                return [{1: d1 + 1, 2: d2 + 1}[n[0]], n[1], 0]
            events.append({"e": "Reset", "case": c["id"]})
            events.append({"e": "Keys", "decls": [{"name": xdm.cps(key_spec_name(d["name"])), "match": xpgen.strip_render_only(d["match"]), "use": xpgen.strip_render_only(d["use"])} for d in decls],
                           "sample": sample})
            sel = [e for e in evs if e["e"] == "S" and e["el"] == "xsl:variable"]
            if len(sel) != 2 * len(lks):
                raise vlib.Infra("expected %d variable events, got %d" % (2 * len(lks), len(sel)))
            nexec += 1
            for i, lk in enumerate(lks):
                a, r = sel[2 * i], sel[2 * i + 1]
                arg = a["val"]
                if arg["t"] == "ns":
                    arg = {"t": "ns", "v": [mapdoc(x) for x in arg["v"]]}
                if r["val"]["t"] != "ns":
                    raise vlib.Infra("key() did not return a node-set")
                ctxn = mapdoc(r["node"])
                if lk["where"] == "cross":
                    ctxn = [d2 + 1, 1, 0]            # the context nodes of the key() calls are in the other document
                events.append({"e": "Key", "doc": ctxn[0], "ctx": ctxn[1], "name": xdm.cps(key_spec_name(lk["name"])), "arg": arg, "argtext": xpgen.render(lk["arg"]),
                               "result": [mapdoc(x) for x in r["val"]["v"]]})
                nlook += 1
                if r["val"]["v"]:
                    nontriv.add(vlib.canon_hash([sample["decls"], lk["name"], xpgen.render(lk["arg"]), lk["where"], d1, d2]))
    res.cov["evaluations"] = nlook
    dpath = os.path.join(wd, "docs.ndjson")
    vlib.write_ndjson(dpath, flats)
    rejects, st = vlib.tlc_validate_sharded(TRACE, events, tag="c15tv", env={"DOCS": dpath}, timeout=3000)
    known = {x["key"]: x for x in vlib.known_findings(PROP)}
    execs = vlib.split_executions(events)
    starts, pos = [], 0
    for ex in execs:
        starts.append(pos); pos += len(ex)
    import bisect
    bad = set()
    for rj in rejects:
        e = bisect.bisect_right(starts, rj["line"]) - 1
        bad.add(e)
        ev = events[rj["line"]]
        key = rj["msg"].split(" ")[0][3:] if rj["msg"].startswith("KD:") else None
        if key and key in known:
            res.known(known[key])
        else:
            res.violation("%s | %s" % (ev.get("argtext"), rj["msg"][:200]), [execs[e][0], execs[e][1], ev])
    res.cov["traces_validated_against_impl"] = nexec - len(bad)
    res.cov["distinct_nontrivial"] = len(nontriv)
    res.cov["rule"] = ("seeded xsl:key declaration sets (1-3, a name possibly declared twice, a QName key name written with two prefixes of one namespace, the same local name in another namespace, declarations in an imported module; 15 match patterns over every node kind x 16 use expressions incl. current()) x 2 documents (main + document('other.xml'); key() asked with the current node in that document, or only the CONTEXT node in the other document) x "
                       "lookup sequences of 2-5 key() calls with string / node-set / number arguments, each sequence in given, reversed and shuffled order; non-trivial = the lookup "
                       "returned at least one node; distinct by (declarations, key name, argument, context document, documents)")
    for ex in execs[:2]:
        res.sample({"decls": ex[1]["sample"]["decls"], "lookups": [{"arg": e["argtext"], "result": e["result"]} for e in ex[2:6]]})
    res.assumptions += ["the lookup's argument value is taken from a second xsl:variable evaluated in the same context (validated as an ordinary expression by C02)",
                        "matching inside KeyNodes is the definition XPathSem!Matches"]


def classify(ev, flats):
    # known: a node-set argument with more than one node ignores the nodes whose string-value is ''
    if ev["arg"]["t"] == "ns" and len(ev["arg"]["v"]) > 1:
        import xdm as _x
        return "nodeSetArgSkipsEmptyString"
    return None


def replay(path):
    events = vlib.read_ndjson(path)
    raise vlib.Infra("replay needs the document set of the run; re-run tools/check C15 with the same VERIF_SEED")
