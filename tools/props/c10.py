"""C10 - template conflict resolution: import precedence, then priority, then last; built-in rules; apply-imports.
GEN: seeded rule sets (pattern pool with unions of unequal default priority, explicit priorities, two modes,
     import trees of depth <= 2, apply-imports in rule bodies) rendered to stylesheet files.
RUN: harness/xslt.cpp with a TraceListener: which xsl:template was instantiated for which source node.
TV : Trace_C10.tla: chosen = TemplateRules!Winner / ImportsWinner (matching by the DEFINITION XPathSem!Matches)."""
import os, random, json, subprocess
from xml.sax.saxutils import quoteattr
import vlib, xdm, xpgen
from xpgen import *
from vlib import ROOT
from props import c02

PROP = "C10"
TRACE = os.path.join(ROOT, "spec/trace/Trace_C10.tla")
XSLNS = 'xmlns:xsl="http://www.w3.org/1999/XSL/Transform"'


def pattern_pool():
    a, b, c_ = t_name("a"), t_name("b"), t_name("c")
    P = lambda *steps, **kw: path(list(steps), **kw)
    ch = lambda t, *p: step("child", t, *p)
    at = lambda t, *p: step("attribute", t, *p)
    return [
        P(ch(a)), P(ch(b)), P(ch(c_)), P(ch(T_ANY)), P(ch(T_NODE)), P(ch(T_TEXT)), P(ch(T_COMMENT)), P(ch(t_pi())), P(ch(t_pi("t"))),
        P(at(t_name("x"))), P(at(T_ANY)),
        bin_("|", P(ch(T_ANY)), P(ch(a))), bin_("|", P(ch(a)), P(ch(T_ANY))), bin_("|", P(ch(b)), P(ch(T_TEXT))),
        bin_("|", P(ch(T_NODE)), P(at(T_ANY))), bin_("|", P(ch(a), ch(b)), P(ch(b))),
        P(ch(a), ch(b)), P(ch(T_ANY), ch(b)), P(ch(b, P(ch(T_ANY)))), P(ch(a, num(1))), P(ch(T_ANY, P(at(t_name("x"))))),
        P(ch(a), abs_=True), P(abs_=True), P(dict(DOS), ch(b), abs_=True), P(ch(b), at(T_ANY)),
        P(ch(T_TEXT, bin_("=", path([step("self", T_NODE)]), lit("t")))),
        # id() / key() patterns: key() returns nodes of ANY kind (the declaration KEY_DECL below indexes every node by its string-value),
        # so these rules have to be looked up for text, comment, processing-instruction and root nodes as well
        fn("key", lit("kt"), lit("t")), fn("key", lit("kt"), lit("c")), fn("key", lit("kt"), lit("d")), fn("key", lit("kt"), lit("1")), fn("key", lit("kt"), lit("")),
        fn("id", lit("i1")), path([step("child", T_NODE)], start=fn("key", lit("kt"), lit("t"))),
    ]


KEY_DECL = {"name": xdm.cps("kt"), "match": bin_("|", bin_("|", path([step("child", T_NODE)]), path([step("attribute", T_ANY)])), path([], abs_=True)),
            "use": fn("string", path([step("self", T_NODE)]))}


# two more keys with the same QName text k:kt in different namespaces: {urn:u}kt indexes every node by its string-value, {urn:v}kt
# gives every node the value 't' - a key() pattern that names them through a prefix means one or the other depending on the
# namespace declarations in scope on ITS xsl:template
NS_KEYS = [("urn:u", {"name": xdm.cps("{urn:u}kt"), "match": KEY_DECL["match"], "use": KEY_DECL["use"]}),
           ("urn:v", {"name": xdm.cps("{urn:v}kt"), "match": KEY_DECL["match"], "use": lit("t")})]


MC_TABLES = os.path.join(ROOT, "spec/mc/MC_PatternTables.tla")


def mc_tables(res, tier, wd):
    """PatternTablesImpl (how a module files its rules per node kind / name and the two lookup loops of findTemplate) returns the
    rule XSLT 5.5 defines for every set of alternatives, node and admissible match relation within the bounds; with the repair of
    the id() / key() filing switched off the counterexample must come back."""
    from concurrent.futures import ThreadPoolExecutor
    cfg = os.path.join(wd, "pt.cfg")
    open(cfg, "w").write("SPECIFICATION Spec\nCONSTANTS MaxEntries = %d\n Repaired = TRUE\nINVARIANT LookupIsDefinition\n" % (2 if tier == "quick" else 3))
    cfg2 = os.path.join(wd, "pt-unrepaired.cfg")
    open(cfg2, "w").write("SPECIFICATION Spec\nCONSTANTS MaxEntries = 2\n Repaired = FALSE\nINVARIANT LookupIsDefinition\n")
    with ThreadPoolExecutor(max_workers=2) as ex:
        f1 = ex.submit(vlib.tlc_mc, MC_TABLES, cfg, name="c10pt", timeout=3000, workers=8, extra=["-noGenerateSpecTE"])
        f2 = ex.submit(vlib.tlc, MC_TABLES, cfg2, workers=2, name="c10ptw", timeout=1500, extra=["-noGenerateSpecTE"])
        r, r2 = f1.result(), f2.result()
    res.add_mc(r, "MC_PatternTables (PatternTablesImpl: filing per node kind / name, quiet and conflict-reporting lookup = XSLT 5.5, every entry set / node / match relation)")
    if "Invariant LookupIsDefinition is violated" not in r2["out"]:
        raise vlib.Infra("MC_PatternTables with Repaired = FALSE no longer finds the filing counterexample:\n" + r2["out"][-1500:])
    res.notes["pattern_tables_model_finds_the_unrepaired_defect"] = True


PRIOS = [None, None, None, -8, 0, 4, 8, -2, 2, 16]        # eighths


def prio_text(m):
    return xpgen.num_text(abs(m)) if m >= 0 else "-" + xpgen.num_text(-m)


def gen_tree(rng):
    """module tree with globally unique rule ids; rules in mode 'm' (tested) and 'o' (distractors)"""
    pool = pattern_pool()
    rid = [0]

    def rules(n):
        out = []
        for _ in range(n):
            rid[0] += 1
            pr = rng.choice(PRIOS)
            out.append({"rid": rid[0], "pat": rng.choice(pool), "mode": "m" if rng.random() < 0.85 else "o",
                        "hasPrio": pr is not None, "prio": {"k": "fin", "neg": (pr or 0) < 0, "m": abs(pr or 0)},
                        "imports": rng.random() < 0.3})
        return out

    shape = rng.choice(["flat", "flat", "one", "two", "chain", "twochain"])
    qmode = rng.random() < 0.3
    deco = lambda m: dict(m, qmode=qmode, style=rng.choice([0, 0, 1]))
    main = deco({"id": 1, "rules": rules(rng.randint(1, 4)), "imports": []})
    if shape in ("one", "two", "chain", "twochain"):
        i1 = deco({"id": 2, "rules": rules(rng.randint(1, 3)), "imports": []})
        main["imports"].append(i1)
        if shape in ("chain", "twochain"):
            i1["imports"].append(deco({"id": 4, "rules": rules(rng.randint(1, 2)), "imports": []}))
    if shape in ("two", "twochain"):
        main["imports"].append(deco({"id": 3, "rules": rules(rng.randint(1, 3)), "imports": []}))
    # 5.6: xsl:call-template does not change the current template rule, so a rule may reach its xsl:apply-imports through a named
    # template that stands in ANY module of the tree: the imports searched are still those of the module of the calling RULE
    mods = []
    def collect(m):
        mods.append(m)
        for i in m["imports"]:
            collect(i)
    collect(main)
    for m in mods:
        for r in m["rules"]:
            if r["imports"] and rng.random() < 0.45:
                r["callmod"] = rng.choice([x for x in mods if not x.get("simplified")])["id"]
    if rng.random() < 0.2:
        # a simplified stylesheet as one more import of some module: its single rule matches "/" in the default mode only
        rid[0] += 1
        host = rng.choice([main] + main["imports"])
        host["imports"].insert(rng.randrange(len(host["imports"]) + 1), simplified_module(5, rid[0]))
    return main


def simplified_module(mid, rid):
    return {"id": mid, "simplified": True, "imports": [], "qmode": False, "style": 0,
            "rules": [{"rid": rid, "pat": path([], abs_=True), "mode": "", "hasPrio": False, "prio": {"k": "fin", "neg": False, "m": 0}, "imports": False}]}


def twin_trees():
    """Rules whose match attributes have the SAME TEXT but are different patterns, because each template binds the prefix to another
    namespace (p:b / @p:x / p:*), side by side in one module in both orders, with equal priorities or none, with and without a third
    rule that shares a table with them, and across an import; and a simplified stylesheet imported next to ordinary modules.
    Runs on the namespace document (elements b and attributes x in urn:u, urn:v, a default namespace and none)."""
    P = lambda *steps, **kw: path(list(steps), **kw)
    ch = lambda t, *p: step("child", t, *p)
    at = lambda t, *p: step("attribute", t, *p)
    U, V = "urn:u", "urn:v"
    def rule(rid, pat, pr, nsd):
        return {"rid": rid, "pat": pat, "mode": "m", "hasPrio": pr is not None, "prio": {"k": "fin", "neg": (pr or 0) < 0, "m": abs(pr or 0)}, "imports": False, "nsdecl": nsd}
    keyname = lambda u: dict(lit("{%s}kt" % u), rtext="p:kt")
    forms = [lambda u: fn("key", keyname(u), lit("t")), lambda u: path([step("child", T_NODE)], start=fn("key", keyname(u), lit("t"))),
             lambda u: P(ch(t_name("b", u, "p"))), lambda u: P(at(t_name("x", u, "p"))), lambda u: P(ch(xpgen.t_nsany(u, "p"))),
             lambda u: P(ch(T_ANY), ch(t_name("b", u, "p"))), lambda u: P(ch(t_name("b", u, "p"), P(at(T_ANY))))]
    out = []
    for f in forms:
        for (u1, u2) in ((U, V), (V, U)):
            for pr in (None, 1):
                for third in (None, P(ch(T_ANY)), P(ch(t_name("b", U, "p")))):
                    r1, r2 = rule(1, f(u1), pr, [("p", u1)]), rule(2, f(u2), pr, [("p", u2)])
                    rs = [r1, r2] + ([rule(3, third, -2, [("p", U)])] if third else [])
                    out.append({"id": 1, "rules": rs, "imports": [], "qmode": False, "style": 0})
            out.append({"id": 1, "rules": [rule(1, f(u1), None, [("p", u1)])], "qmode": False, "style": 0,
                        "imports": [{"id": 2, "rules": [rule(2, f(u2), None, [("p", u2)])], "imports": [], "qmode": False, "style": 0}]})
    b = P(ch(t_name("b")))
    plain = lambda rid, pat: rule(rid, pat, None, None)
    for where in ("only", "first", "last", "nested"):
        simp = simplified_module(5, 9)
        m2 = {"id": 2, "rules": [plain(2, P(ch(T_ANY)))], "imports": [], "qmode": False, "style": 0}
        if where == "only":
            imps = [simp]
        elif where == "first":
            imps = [simp, m2]
        elif where == "last":
            imps = [m2, simp]
        else:
            m2["imports"] = [simp]; imps = [m2]
        for ai in (False, True):
            out.append({"id": 1, "rules": [dict(plain(1, b), imports=ai)], "imports": [dict(i) for i in imps], "qmode": False, "style": 0})
    return out


def targeted_trees():
    """5.5: a union pattern is a SET of rules, one per alternative, each with its own default priority.  Systematic family
    (both tiers): a union rule without priority whose alternatives have unequal default priorities, next to one competitor
    whose priority lies between / beside them, in both document orders and as importer / imported module - decided wrongly by
    a table entry that tests the whole union (unionRankedByBestAlternative, repaired)"""
    a, b = t_name("a"), t_name("b")
    P = lambda *steps, **kw: path(list(steps), **kw)
    ch = lambda t, *p: step("child", t, *p)
    unions = [bin_("|", P(ch(a), ch(b)), P(ch(b))), bin_("|", P(ch(b)), P(ch(a), ch(b))), bin_("|", P(ch(T_ANY, P(step("attribute", t_name("x"))))), P(ch(T_ANY))),
              bin_("|", P(ch(b, num(1))), P(ch(T_NODE))), bin_("|", P(ch(T_ANY)), P(ch(a), ch(T_ANY))), bin_("|", bin_("|", P(ch(a), ch(b)), P(ch(T_ANY))), P(ch(b)))]
    comps = [(P(ch(b)), None), (P(ch(b)), 2), (P(ch(b)), -2), (P(ch(T_ANY)), None), (P(ch(T_ANY)), 2), (P(ch(T_ANY)), 0), (P(ch(T_NODE)), -2), (P(ch(a), ch(b)), None)]
    def rule(rid, pat, pr):
        return {"rid": rid, "pat": pat, "mode": "m", "hasPrio": pr is not None, "prio": {"k": "fin", "neg": (pr or 0) < 0, "m": abs(pr or 0)}, "imports": False}
    out = []
    for u in unions:
        for cp, pr in comps:
            for shape in ("uc", "cu", "imp"):
                ru, rc = rule(1, u, None), rule(2, cp, pr)
                if shape == "imp":        # same import precedence is what 5.5 ranks; across modules precedence must still win
                    out.append({"id": 1, "rules": [rc], "qmode": False, "style": 0,
                                "imports": [{"id": 2, "rules": [ru], "imports": [], "qmode": False, "style": 0}]})
                else:
                    out.append({"id": 1, "rules": [ru, rc] if shape == "uc" else [rc, ru], "imports": [], "qmode": False, "style": 0})
    return out


def ladder_trees():
    """5.5 default priorities, systematically: for every node kind the pattern forms of each priority class that can match it
    (processing-instruction('t') and NCName / @name = 0; *, @*, node(), text(), comment(), processing-instruction() = -0.5; a pattern
    with a predicate or more than one step = 0.5), every ordered pair of them without explicit priority, and each form next to a
    competitor whose explicit priority lies between / on the class values (-0.5, -0.25, 0, 0.25, 0.5), in both document orders."""
    a, b = t_name("a"), t_name("b")
    P = lambda *steps, **kw: path(list(steps), **kw)
    ch = lambda t, *p: step("child", t, *p)
    at = lambda t, *p: step("attribute", t, *p)
    TRUE1 = bin_("=", num(1), num(1))
    kinds = {
        "elem": [P(ch(b)), P(ch(T_ANY)), P(ch(T_NODE)), P(ch(b, TRUE1)), P(ch(T_ANY), ch(b)), P(ch(T_ANY, TRUE1))],
        "text": [P(ch(T_TEXT)), P(ch(T_NODE)), P(ch(T_TEXT, TRUE1)), P(ch(T_ANY), ch(T_TEXT))],
        "comment": [P(ch(T_COMMENT)), P(ch(T_NODE)), P(ch(T_COMMENT, TRUE1))],
        "pi": [P(ch(t_pi("t"))), P(ch(t_pi())), P(ch(T_NODE)), P(ch(t_pi("t"), TRUE1)), P(ch(T_ANY), ch(t_pi()))],
        "attr": [P(at(t_name("x"))), P(at(T_ANY)), P(at(t_name("x"), TRUE1)), P(ch(T_ANY), at(T_ANY))],
    }
    def rule(rid, pat, pr):
        return {"rid": rid, "pat": pat, "mode": "m", "hasPrio": pr is not None, "prio": {"k": "fin", "neg": (pr or 0) < 0, "m": abs(pr or 0)}, "imports": False}
    def tree(rs):
        return {"id": 1, "rules": rs, "imports": [], "qmode": False, "style": 0}
    out = []
    for forms in kinds.values():
        for i, p1 in enumerate(forms):
            for j, p2 in enumerate(forms):
                if i != j:
                    out.append(tree([rule(1, p1, None), rule(2, p2, None)]))
            for pr in (-4, -2, 0, 2, 4):                  # eighths: -0.5 -0.25 0 0.25 0.5
                out.append(tree([rule(1, p1, None), rule(2, forms[-1] if p1 is not forms[-1] else forms[0], pr)]))
                out.append(tree([rule(1, forms[-1] if p1 is not forms[-1] else forms[0], pr), rule(2, p1, None)]))
    return out


def render_module(mod, first_line, is_main, named=()):
    """returns (text, line->rid map, next free line). One template per line; lines are globally unique.
    Lexical variation that must not matter (XSLT 2.4: an unprefixed QName in mode= is in NO namespace, whatever default namespace
    is declared; a prefixed mode is compared by expanded name): a module may declare a default namespace, and may spell the tested
    mode with its own prefix bound to the shared mode namespace."""
    if mod.get("simplified"):
        # a literal result element as stylesheet (XSLT 2.3): ONE rule, match="/", default mode, no priority.  Blank lines in front keep
        # the rule's line number unique among the modules of the case.
        r = mod["rules"][0]
        text = "\n" * (first_line - 1) + '<lre xsl:version="1.0" %s>simplified</lre>\n' % XSLNS
        return text, {first_line: r["rid"]}, first_line + 2
    style = mod.get("style", 0)
    extra = ' xmlns:p="urn:u" xmlns:q="urn:v"'
    if style & 1:
        extra += ' xmlns="urn:default-ns-of-module-%d"' % mod["id"]
    qmode = bool(mod.get("qmode"))
    pfx = "m%d" % mod["id"]
    if qmode:
        extra += ' xmlns:%s="urn:mode-ns"' % pfx
    mode_text = lambda m: (pfx + ":" + m) if qmode else m
    lines = ['<xsl:stylesheet version="1.0" %s%s>' % (XSLNS, extra)]
    for imp in mod["imports"]:
        lines.append('<xsl:import href="mod%d.xsl"/>' % imp["id"])
    while len(lines) < first_line - 1:
        lines.append("")
    lmap = {}
    for r in mod["rules"]:
        attrs = 'match=%s mode="%s"' % (quoteattr(xpgen.render(r["pat"])), mode_text(r["mode"]))
        if r["hasPrio"]:
            m = r["prio"]["m"] * (-1 if r["prio"]["neg"] else 1)
            attrs += ' priority="%s"' % prio_text(m)
        # the xsl:if marks the end of the dynamic extent of apply-imports in the trace
        body = '<xsl:apply-imports/><xsl:if test="false()"/>' if r["imports"] else ""
        if r["imports"] and r.get("callmod") is not None:
            body = '<xsl:call-template name="n%d"/>' % r["rid"]
        if r.get("nsdecl"):
            attrs += "".join(' xmlns:%s="%s"' % (pf, u) for pf, u in r["nsdecl"])     # this template's own bindings of the prefixes its pattern uses
        lines.append("<xsl:template %s>%s</xsl:template>" % (attrs, body))
        lmap[len(lines)] = r["rid"]
    for rid in named:        # named templates called by rules (of any module) that reach their xsl:apply-imports through them
        lines.append('<xsl:template name="n%d"><xsl:apply-imports/><xsl:if test="false()"/></xsl:template>' % rid)
        lmap[len(lines)] = rid
        lmap.setdefault("named", set()).add(len(lines))
    if is_main:
        lines.append('<xsl:template match="/" priority="99"><xsl:apply-templates select="//node() | //@* | /" mode="%s"/></xsl:template>' % mode_text("m"))
        lmap[len(lines)] = -99
    lines.append(('<xsl:key name="kt" match=%s use=%s/>' % (quoteattr(xpgen.render(KEY_DECL["match"])), quoteattr(xpgen.render(KEY_DECL["use"])))
                  + "".join('<xsl:key name="k:kt" xmlns:k="%s" match=%s use=%s/>' % (u, quoteattr(xpgen.render(kd["match"])), quoteattr(xpgen.render(kd["use"]))) for u, kd in NS_KEYS) if is_main else "")
                 + "</xsl:stylesheet>")
    return "\n".join(lines) + "\n", lmap, len(lines) + 2


def write_case(cdir, tree, xml):
    os.makedirs(cdir, exist_ok=True)
    lmap, nxt = {}, 4
    named = {}
    for r in all_rules(tree):
        if r["imports"] and r.get("callmod") is not None:
            named.setdefault(r["callmod"], []).append(r["rid"])
    def go(mod):
        nonlocal nxt
        # imported modules first so that every module gets its own line range
        for imp in mod["imports"]:
            go(imp)
        text, lm, nxt2 = render_module(mod, nxt, mod["id"] == 1, named.get(mod["id"], ()))
        nxt = nxt2
        nm = lmap.get("named", set()) | lm.pop("named", set())
        lmap.update(lm)
        if nm:
            lmap["named"] = nm
        open(os.path.join(cdir, "main.xsl" if mod["id"] == 1 else "mod%d.xsl" % mod["id"]), "w").write(text)
    go(tree)
    open(os.path.join(cdir, "in.xml"), "w").write(xml)
    return lmap


def spec_tree(mod):
    return {"id": mod["id"], "rules": [{"rid": r["rid"], "pat": xpgen.strip_render_only(r["pat"]), "mode": r["mode"], "hasPrio": r["hasPrio"], "prio": r["prio"]} for r in mod["rules"]],
            "imports": [spec_tree(i) for i in mod["imports"]]}


def all_rules(mod):
    out = list(mod["rules"])
    for i in mod["imports"]:
        out += all_rules(i)
    return out


def picks_from_trace(events, lmap):
    """T events -> Pick events.  Inside the dynamic extent of an xsl:apply-imports (from its trace event to the trace event
    of the xsl:if that follows it in the same rule body) the first template instantiated is the imports winner; if there is
    none, no imported rule was found and a built-in rule that fires no trace event ran."""
    picks, stack, last = [], [], None
    for ev in events:
        if ev["e"] != "T":
            continue
        el = ev["el"]
        if el == "xsl:apply-imports":
            stack.append({"from": lmap.get(ev["line"]), "node": ev["node"], "got": None}); last = None
            continue
        if el == "xsl:if":
            if not stack or stack[-1]["from"] != lmap.get(ev["line"]) or stack[-1]["node"] != ev["node"]:
                raise vlib.Infra("unbalanced apply-imports extent in trace")
            fr = stack.pop()
            if fr["got"] is None:
                picks.append({"e": "Pick", "node": fr["node"], "mode": "m", "via": "imports", "from": fr["from"], "chosen": 0})
            last = None
            continue
        if el != "xsl:template":
            last = None
            continue
        if ev["line"] in lmap.get("named", ()):       # a called named template is not a pick
            continue
        key = (ev["line"], tuple(ev["node"]))
        if key == last:            # each instantiation is traced twice in a row
            last = None
            continue
        last = key
        rid = 0 if ev["line"] < 0 else lmap.get(ev["line"])
        if rid == -99:
            continue
        if rid is None:
            raise vlib.Infra("trace event for unknown template line %s" % ev["line"])
        if stack and stack[-1]["got"] is None:
            if stack[-1]["node"] != ev["node"]:
                raise vlib.Infra("apply-imports extent starts with another node")
            stack[-1]["got"] = rid
            picks.append({"e": "Pick", "node": ev["node"], "mode": "m", "via": "imports", "from": stack[-1]["from"], "chosen": rid})
        else:
            picks.append({"e": "Pick", "node": ev["node"], "mode": "m", "via": "apply", "from": 0, "chosen": rid})
    return picks


def run(res, tier, seed):
    rng = random.Random(seed)
    quick = tier == "quick"
    wd = vlib.workdir("c10-%d" % os.getpid())
    c02.mc_laws(res, tier, wd)
    mc_tables(res, tier, wd)
    docs = c02.make_docs(rng, 3 if quick else 20)
    # b with and without a parent a, with and without @x, first and later b, text and comment: the document of the targeted family
    docs.append(xdm.R(xdm.E("c", xdm.E("a", xdm.E("b"), xdm.E("a", xdm.E("b", a=[xdm.A("x", "1")]), a=[xdm.A("x", "1")]), xdm.T("t")),
                            xdm.E("b", xdm.E("b"), xdm.E("b", a=[xdm.A("x", "2")]), xdm.T("t")))))
    flats = [xdm.flatten(t, c02.ID_ATTRS) for t in docs]
    targeted = targeted_trees()
    nunion = len(targeted)
    ladder = ladder_trees()
    targeted = targeted + ladder
    twins = twin_trees()
    nsdoc = max(i for i, t in enumerate(docs) if any(c.get("nsd") for c in t["c"] if c["k"] == "elem"))       # c02.ns_doc()
    # a document with an element b (with @x), text, a comment and two processing instructions under an element: the ladder family's
    docs.append(xdm.R(xdm.E("c", xdm.E("b", xdm.T("t"), xdm.C("c"), xdm.PI("t", "d"), xdm.PI("u", ""), a=[xdm.A("x", "1")]), xdm.PI("t", ""), xdm.C("k"))))
    flats = [xdm.flatten(t, c02.ID_ATTRS) for t in docs]
    ntarget = len(targeted)
    targeted = targeted + twins
    ncases = (400 if quick else 8000) + len(targeted)
    cases, metas = [], []
    for k in range(ncases):
        tree = gen_tree(rng) if k >= len(targeted) else targeted[k]
        d = rng.randrange(len(docs)) if k >= len(targeted) else (len(docs) - 2 if k < nunion else len(docs) - 1 if k < ntarget else nsdoc)
        cdir = os.path.join(wd, "case%d" % k)
        lmap = write_case(cdir, tree, c02.doc_xml(docs[d]))
        cases.append({"id": k, "dir": cdir, "trace": "all", "select": False})
        metas.append((tree, d, lmap))
    # two lookup paths: XalanTransformer (quiet conflict warnings: first match in the sorted table) and XSLTEngineImpl driven
    # directly with setQuietConflictWarnings(false), TestXSLT's default (scan all candidates and report conflicts)
    exe = vlib.build_harness("xslt")
    exed = vlib.build_harness("xsltd")
    nsh = vlib.NCPU
    procs = []
    for s in range(nsh):
        ch = cases[s::nsh]
        if not ch:
            continue
        cp = os.path.join(wd, "cases-%d.ndjson" % s)
        vlib.write_ndjson(cp, ch)
        rp = os.path.join(wd, "trace-%d.ndjson" % s)
        procs.append((ch, rp, "quiet", subprocess.Popen([exe, cp], stdout=open(rp, "w"), stderr=subprocess.PIPE)))
        cpd = os.path.join(wd, "casesd-%d.ndjson" % s)
        vlib.write_ndjson(cpd, [dict(c, quiet=False) for c in ch])
        rpd = os.path.join(wd, "traced-%d.ndjson" % s)
        procs.append((ch, rpd, "reporting", subprocess.Popen([exed, cpd], stdout=open(rpd, "w"), stderr=subprocess.PIPE)))
    events, npicks, nexec = [], 0, 0
    nontriv = set()
    for ch, rp, lookup, p in procs:
        _, err = p.communicate(timeout=3000)
        by_id, cur = {}, None
        for ev in vlib.read_ndjson(rp):
            if ev["e"] == "Reset":
                cur = by_id.setdefault(ev["id"], [])
            cur.append(ev)
        for c in ch:
            tree, d, lmap = metas[c["id"]]
            evs = by_id.get(c["id"])
            if not evs or evs[-1]["e"] != "Done":
                res.violation("transformation process died (rc=%s) on case %d: %s" % (p.returncode, c["id"], (err or b"").decode()[-300:]),
                              [{"tree": spec_tree(tree), "xml": c02.doc_xml(docs[d])}])
                continue
            done = evs[-1]
            if done["status"] != 0:
                res.violation("error-free stylesheet failed: %s" % done["msg"][:200], [{"tree": spec_tree(tree), "xml": c02.doc_xml(docs[d]), "done": done}])
                continue
            picks = picks_from_trace(evs, lmap)
            # the root rule pushes EVERY node and attribute of the document through apply-templates in the tested mode: a node for which
            # no template was instantiated got a built-in rule that fires no trace event (text, attributes, comments, PIs) - that is a
            # pick too (chosen = 0), and wrong whenever a rule of the stylesheet matches the node
            seen = {pk["node"][1] for pk in picks if pk["via"] == "apply"}
            for i in range(1, flats[d]["n"] + 1):
                if i not in seen:
                    picks.append({"e": "Pick", "node": [1, i, 0], "mode": "m", "via": "apply", "from": 0, "chosen": 0})
            for pk in picks:
                pk["doc"] = d + 1; pk["node"] = [d + 1, pk["node"][1], 0]
            events.append({"e": "Reset", "case": c["id"], "lookup": lookup})
            events.append({"e": "Rules", "tree": spec_tree(tree), "docn": d + 1,
                           "keys": [{"name": kd["name"], "match": xpgen.strip_render_only(kd["match"]), "use": xpgen.strip_render_only(kd["use"])} for kd in [KEY_DECL] + [x[1] for x in NS_KEYS]]})
            events += picks
            npicks += len(picks); nexec += 1
            rules_m = [r for r in all_rules(tree) if r["mode"] == "m"]
            if len({pk["chosen"] for pk in picks}) >= 3 or any(pk["via"] == "imports" for pk in picks):
                nontriv.add(vlib.canon_hash([spec_tree(tree), d]))
    res.cov["evaluations"] = npicks
    dpath = os.path.join(wd, "docs.ndjson")
    vlib.write_ndjson(dpath, flats)
    rejects, st = vlib.tlc_validate_sharded(TRACE, events, tag="c10tv", env={"DOCS": dpath}, timeout=3000)
    known = {k["key"]: k for k in vlib.known_findings(PROP)}
    execs = vlib.split_executions(events)
    starts, pos = [], 0
    for ex in execs:
        starts.append(pos); pos += len(ex)
    import bisect
    bad = set()
    for rj in rejects:
        e = bisect.bisect_right(starts, rj["line"]) - 1
        bad.add(e)
        ex = execs[e]
        ev = events[rj["line"]]
        key = classify(ex[1]["tree"], ev, ex[0].get("lookup"))
        if key and key in known:
            res.known(known[key])
        else:
            res.violation(rj["msg"][:200], [ex[0], dict(ex[1], flatdoc=flats[ex[1]["docn"] - 1]), ev])
    res.cov["traces_validated_against_impl"] = nexec - len(bad)
    npr, npr_ok = priority_family(res, wd)
    res.cov["evaluations"] += npr
    res.cov["traces_validated_against_impl"] += npr_ok
    res.cov["distinct_nontrivial"] = len(nontriv)
    res.cov["rule"] = ("%d targeted rule sets (a union rule with unequal default priorities x a competitor of every relative priority x document order / import; the default-priority "
                       "ladder: per node kind every ordered pair of pattern forms of the classes -0.5 / 0 / 0.5 and each form against explicit priorities -0.5 .. 0.5) + " % len(targeted) +
                       "%d twin rule sets (match attributes with the same text under different namespace bindings, side by side and across an import; a simplified stylesheet among the imports) on the namespace document + " % len(twins) +
                       "seeded rule sets (every 5th with a simplified stylesheet among the imports): 1-9 rules over a 33-pattern pool (unions with unequal default priorities, *, node(), text(), @*, '/', predicates, id() and key() patterns over a key that indexes every node by its string-value), priorities "
                       "{none,-1,-0.25,0,0.25,0.5,1,2}, a tested and a distractor mode, import trees (flat / one / two / chain / two+chain), apply-imports bodies; every node "
                       "and attribute of the document is pushed through apply-templates; non-trivial = at least 3 different rules chosen or an apply-imports pick; distinct by (rule tree, document)")
    for ex in execs[:3]:
        res.sample({"rules": ex[1]["tree"], "picks": ex[2:8]})
    res.assumptions += ["pattern matching inside Winner is the definition XPathSem!Matches; the pattern pool avoids the constructs listed as C09 known findings",
                        "template identity is taken from the TraceListener (line number of xsl:template), the quiet (XalanTransformer default) lookup path"]


def _alts(p):
    if p.get("op") == "bin" and p["o"] == "|":
        return _alts(p["a"]) + _alts(p["b"])
    return [p]


def _default_prio(alt):
    if alt.get("op") == "path" and not alt["abs"] and alt["start"]["op"] == "none" and len(alt["steps"]) == 1 \
            and not alt["steps"][0]["preds"] and alt["steps"][0]["axis"] in ("child", "attribute"):
        t = alt["steps"][0]["test"]
        if t["t"] == "name" or (t["t"] == "pi" and t["hasTarget"]):
            return 0
        return -0.25 if t["t"] == "nsany" else -0.5
    return 0.5


PRIORITY_TEXTS = ["1", "2", "-1", "0.5", ".5", "5.", "-0.25", "007", "1.125", "2.000", "-.5", "0", "-0", "1.0", "3", "10",
                  "+3", "1e1", "x", "", "1 2", "--1", "NaN", "Infinity", "-Infinity", "1.2.3", "0x10", "1,5", "-", ".", "- 1", "2-", "1e0", "+.5", "one", "2;", "1.5.", "-+1"]


def priority_family(res, wd):
    """the priority ATTRIBUTE as a text: a Number with an optional minus sign counts as that number, anything else is an error
    (TemplateRules!PriorityLexOk / PriorityPick), on both lookup paths"""
    from xml.sax.saxutils import quoteattr
    pwd = os.path.join(wd, "prio"); os.makedirs(pwd)
    open(os.path.join(pwd, "in.xml"), "w").write("<doc><a/></doc>")
    cases = []
    for k, t in enumerate(PRIORITY_TEXTS):
        open(os.path.join(pwd, "p%d.xsl" % k), "w").write(
            '<xsl:stylesheet version="1.0" xmlns:xsl="http://www.w3.org/1999/XSL/Transform"><xsl:output method="text"/>'
            '<xsl:template match="/"><xsl:apply-templates select="doc/a"/></xsl:template>'
            '<xsl:template match="a" priority=%s>A</xsl:template><xsl:template match="a" priority="1">B</xsl:template></xsl:stylesheet>' % quoteattr(t))
        cases.append({"id": k, "dir": pwd, "xsl": "p%d.xsl" % k, "trace": "none", "select": False})
    events = []
    for lookup, hname, extra in (("quiet", "xslt", {}), ("reporting", "xsltd", {"quiet": False})):
        exe = vlib.build_harness(hname)
        cp_ = os.path.join(pwd, "cases-%s.ndjson" % lookup); vlib.write_ndjson(cp_, [dict(c, **extra) for c in cases])
        out = subprocess.run([exe, cp_], capture_output=True, text=True, timeout=600)
        dones = {}
        for line in out.stdout.splitlines():
            try:
                ev = json.loads(line)
            except ValueError:
                continue
            if ev.get("e") == "Done":
                dones[ev["id"]] = ev
        for k, t in enumerate(PRIORITY_TEXTS):
            dn = dones.get(k)
            if dn is None:
                res.violation("priority family: the process died on priority=%r (%s lookup)" % (t, lookup), [{"priority": t}]); continue
            txt = "".join(x.get("v", "") for x in dn.get("tree", []) if x.get("k") == "text") if dn["status"] == 0 else ""
            events.append({"e": "Priority", "text": xdm.cps(t), "status": dn["status"], "chosen": txt, "lookup": lookup, "shown": t})
    rejects, st = vlib.tlc_validate_sharded(TRACE, events, tag="c10prio", env={"DOCS": os.path.join(wd, "docs.ndjson")}, stateless=True, timeout=600)
    for rj in rejects:
        ev = events[rj["line"]]
        res.violation("priority=%r (%s lookup): %s" % (ev["shown"], ev["lookup"], rj["msg"][:300]), [ev])
    res.notes["priority_texts"] = len(events)
    return len(events), len(events) - len(rejects)


def classify(tree, ev, lookup="quiet"):
    """class of the (repaired) deviation unionRankedByBestAlternative: a union pattern without explicit priority was ranked as a
    whole by the highest default priority of its alternatives (each table entry tested the complete union), so it could beat a
    rule that should win.  The entry has status "fixed", so it suppresses nothing: a reject of this class is a violation"""
    def rules(m):
        for r in m["rules"]:
            yield r
        for i in m["imports"]:
            yield from rules(i)
    got = [r for r in rules(tree) if r["rid"] == ev["chosen"]]
    if got and not got[0]["hasPrio"]:
        ps = {_default_prio(a) for a in _alts(got[0]["pat"])}
        if len(ps) > 1:
            return "unionRankedByBestAlternative"
    return None


def replay(path):
    events = vlib.read_ndjson(path)
    wd = vlib.workdir("c10replay")
    flat = events[1].pop("flatdoc")
    n = events[1]["docn"]
    dpath = os.path.join(wd, "docs.ndjson")
    vlib.write_ndjson(dpath, [flat] * n)
    rejects, _ = vlib.tlc_validate_sharded(TRACE, events, shards=1, tag="c10replay", env={"DOCS": dpath})
    for r in rejects:
        print("REJECTED: %s" % r["msg"])
    return 1 if rejects else 0
