"""C09 - a node matches a pattern exactly when the pattern, as an expression, selects it from some ancestor-or-self.
GEN: seeded pattern ASTs ('/', '//', positional and boolean predicates, all node tests, id() heads, unions) + systematic families.
RUN: XPathProcessorImpl::initMatchPattern + XPath::getMatchScore for every node of the document (harness/xp.cpp, mode match).
TV : Trace_C09.tla computes the match set from the definition (XPathSem!MatchSet) and compares."""
import os, random, json, subprocess
import vlib, xdm, xpgen
from xpgen import *
from vlib import ROOT
from props import c02

PROP = "C09"
TRACE = os.path.join(ROOT, "spec/trace/Trace_C09.tla")


class PGen:
    def __init__(self, rng):
        self.r = rng

    def test(self, axis):
        r = self.r.random()
        if axis == "attribute":
            return t_name(self.r.choice(["x", "y", "id"])) if r < 0.6 else (T_ANY if r < 0.9 else T_NODE)
        if r < 0.5:
            return t_name(self.r.choice(["a", "b", "c"]))
        if r < 0.65:
            return T_ANY
        if r < 0.77:
            return T_NODE
        if r < 0.87:
            return T_TEXT
        if r < 0.93:
            return T_COMMENT
        return t_pi(self.r.choice(["t", "u"]) if self.r.random() < 0.5 else None)

    def pred(self):
        r = self.r.random()
        if r < 0.2:
            return num(self.r.randint(1, 3))
        if r < 0.3:
            return fn("last")
        if r < 0.45:
            return bin_(self.r.choice(["=", "!=", "<", ">", ">=", "<="]), fn("position"), self.r.choice([num(1), num(2), fn("last")]))
        if r < 0.55:
            return path([step("attribute", self.r.choice([t_name("x"), T_ANY]))])
        if r < 0.65:
            return path([step("child", self.test("child"))])
        if r < 0.72:
            return bin_("=", path([step("self", T_NODE)]), lit(self.r.choice(["t", "u", "1"])))
        if r < 0.8:
            return fn("not", path([step("child", T_ANY)]))
        if r < 0.88:
            return path([step("child", t_name(self.r.choice(["a", "b"]))), step("child", self.test("child"))])
        if r < 0.94:
            return bin_("=", bin_("mod", fn("position"), num(2)), num(self.r.randint(0, 1)))
        return bin_("=", path([step("attribute", t_name("x"))]), lit(self.r.choice(["1", "2"])))

    def steppat(self, last):
        axis = "attribute" if (last and self.r.random() < 0.2) else "child"
        preds = []
        while self.r.random() < 0.35 and len(preds) < 2:
            preds.append(self.pred())
        return step(axis, self.test(axis), *preds, abbr=self.r.random() < 0.85)

    def lpp(self):
        n = self.r.choice([1, 1, 2, 2, 3, 3, 4])
        steps = []
        for i in range(n):
            if i > 0 and self.r.random() < 0.35:
                steps.append(dict(DOS))
            steps.append(self.steppat(i == n - 1))
        r = self.r.random()
        if r < 0.15:
            return path(steps, abs_=True)
        if r < 0.25:
            return path([dict(DOS)] + steps, abs_=True)
        if r < 0.33:
            st = fn("id", lit(self.r.choice(["i1", "i2", "i1 i3", "zz"])))
            if self.r.random() < 0.3:
                return st
            return path(([dict(DOS)] if self.r.random() < 0.4 else []) + steps, start=st)
        if r < 0.36:
            return path([], abs_=True)
        return path(steps)

    def pattern(self):
        p = self.lpp()
        while self.r.random() < 0.15:
            p = bin_("|", p, self.lpp())
        return p


def systematic():
    out = []
    names = [t_name("a"), t_name("b"), T_ANY, T_NODE, T_TEXT]
    for t1 in names:
        for t2 in names:
            for sep in ("/", "//"):
                mid = [dict(DOS)] if sep == "//" else []
                out.append(path([step("child", t1)] + mid + [step("child", t2)]))
                out.append(path([step("child", t1)] + mid + [step("child", t2)], abs_=True))
                out.append(path([step("child", t_name("a"))] + mid + [step("child", t1)] + mid + [step("child", t2)]))
                for p in (num(1), num(2), fn("last"), bin_(">", fn("position"), num(1))):
                    out.append(path([step("child", t1)] + mid + [step("child", t2, p)]))
                    out.append(path([step("child", t1, p)] + mid + [step("child", t2)]))
    for t in (t_name("x"), T_ANY, T_NODE):
        out.append(path([step("attribute", t)]))
        out.append(path([step("child", t_name("b")), step("attribute", t)]))
        out.append(path([step("child", T_ANY), dict(DOS), step("attribute", t)]))
        out.append(path([step("attribute", t, num(1))]))
    for t in (T_COMMENT, t_pi(), t_pi("t"), T_TEXT, T_NODE, T_ANY):
        out.append(path([step("child", t)]))
        out.append(path([step("child", t)], abs_=True))
        out.append(path([dict(DOS), step("child", t)], abs_=True))
    out.append(path([], abs_=True))
    return out


# ------------------------------------------------------------------------------------ MC_Pattern family
MC = os.path.join(ROOT, "spec/mc/MC_Pattern.tla")
MC_TESTS = [t_name("a"), t_name("b"), T_ANY, T_NODE, T_TEXT]
MC_ATESTS = [t_name("x"), T_ANY, T_NODE]
MC_PREDS = [num(1), fn("last"), path([step("child", t_name("b"))]), path([step("attribute", t_name("x"))])]


def _rel_paths(nsteps, maxpreds, tests, attr_last=True):
    """all relative patterns of exactly nsteps steps: tests x separators x (<= maxpreds predicates, one per step at most)"""
    import itertools
    out = []
    lasts = [("child", t) for t in tests] + ([("attribute", t) for t in MC_ATESTS] if attr_last else [])
    for firsts in itertools.product(tests, repeat=nsteps - 1):
        for last in lasts:
            axes_tests = [("child", t) for t in firsts] + [last]
            for seps in itertools.product(("/", "//"), repeat=nsteps - 1):
                for npred in range(0, min(maxpreds, nsteps) + 1):
                    for where in itertools.combinations(range(nsteps), npred):
                        for ps in itertools.product(MC_PREDS, repeat=npred):
                            steps = []
                            for i, (ax, t) in enumerate(axes_tests):
                                if i > 0 and seps[i - 1] == "//":
                                    steps.append(dict(DOS))
                                pr = [ps[where.index(i)]] if i in where else []
                                steps.append(step(ax, t, *pr))
                            out.append(steps)
    return out


def _anchored(steps_list, anchors):
    out = []
    for steps in steps_list:
        for a in anchors:
            if a == "":
                out.append(path(steps))
            elif a == "/":
                out.append(path(steps, abs_=True))
            else:
                out.append(path([dict(DOS)] + steps, abs_=True))
    return out


def mc_family(tier):
    """the bounded pattern family of MC_Pattern (also replayed on the real matcher in the thorough tier)"""
    quick = tier == "quick"
    q = 1 if quick else 2
    pats = _anchored(_rel_paths(1, q, MC_TESTS), ("", "/", "//"))
    pats += _anchored(_rel_paths(2, q, MC_TESTS), ("", "/", "//"))
    if quick:
        pats += _anchored(_rel_paths(3, 0, [t_name("a"), t_name("b"), T_ANY, T_NODE], attr_last=False), ("", "/"))
        pats += _anchored(_rel_paths(3, 1, [t_name("a"), T_NODE], attr_last=False), ("",))
    else:
        pats += _anchored(_rel_paths(3, 1, MC_TESTS), ("", "/", "//"))
        pats += _anchored(_rel_paths(3, 2, [t_name("a"), t_name("b"), T_NODE], attr_last=False), ("", "/"))
    # unions of two: every deviation class next to an unaffected alternative, and pairs of classes
    alts = [path([step("child", t_name("a")), dict(DOS), step("child", t_name("b"))], abs_=True),
            path([step("child", t_name("b")), step("child", t_name("a")), dict(DOS), step("child", t_name("b"))]),
            path([step("child", T_NODE)]), path([step("attribute", T_NODE)]), path([step("attribute", t_name("x"), num(1))]),
            path([step("child", t_name("a"))]), path([step("child", T_TEXT)]), path([], abs_=True),
            path([step("child", t_name("b"), fn("last"))]), path([step("child", T_ANY), step("attribute", T_ANY)])]
    for i, a in enumerate(alts):
        for b in alts[i + 1:]:
            pats.append(bin_("|", a, b))
            pats.append(bin_("|", b, a))
    # heads and predicate sequences outside the product
    idh = fn("id", lit("i1 i2"))
    ab = [step("child", t_name("a")), step("child", t_name("b"))]
    pats += [idh, path(ab[:1], start=idh), path([dict(DOS)] + ab[:1], start=idh), path([ab[0], dict(DOS), ab[1]], start=idh),
             path([dict(DOS), ab[0], dict(DOS), ab[1]], start=idh), path([], abs_=True)]
    for t in (t_name("a"), T_ANY, T_NODE, T_TEXT):
        for ps in ([num(1), MC_PREDS[2]], [MC_PREDS[2], num(1)], [fn("last"), fn("last")], [num(2)], [bin_(">", fn("position"), num(1))],
                   [bin_(">", fn("position"), num(1)), num(1)], [fn("count", path([step("child", T_ANY)]))], [fn("not", MC_PREDS[2])]):
            pats.append(path([step("child", t, *ps)]))
            pats.append(path([step("child", t, *ps), dict(DOS), step("child", t_name("b"))]))
            pats.append(path([step("child", t_name("a")), step("child", t, *ps)]))
    seen, out = set(), []
    for p_ in pats:
        txt = xpgen.render(p_)
        if txt not in seen:
            seen.add(txt)
            out.append(p_)
    return out


def mc_docs(tier):
    E, A, T, R = xdm.E, xdm.A, xdm.T, xdm.R
    nested = [R(E("c", E("a", E("a", E("b"))))),                                              # the c/a//b example
              R(E("b", E("a", E("b", E("a", E("b", a=[A("x", "1")])), T("t"))), E("b"))),
              R(E("a", E("a", E("a", E("b", a=[A("x", "1")]), E("a", E("b"), E("b"))), E("b")), a=[A("id", "i1")])),
              R(E("b", E("b", E("a", E("a", T("t"), E("b", T("t"))), a=[A("id", "i2"), A("x", "1")])))),
              c02.fixed_docs()[2], c02.fixed_docs()[4]]
    fam = list(xdm.enum_docs(5))
    if tier == "quick":
        fam = fam[::2]
    return nested + fam


def mc_pattern(res, tier, wd, workers=4):
    pats, docs = mc_family(tier), mc_docs(tier)
    pp, dp = os.path.join(wd, "mc-pats.ndjson"), os.path.join(wd, "mc-pdocs.ndjson")
    vlib.write_ndjson(pp, [{"text": xpgen.render(p_), "pat": xpgen.strip_render_only(p_)} for p_ in pats])
    vlib.write_ndjson(dp, [xdm.flatten(t, c02.ID_ATTRS) for t in docs])
    r = vlib.tlc_mc(MC, name="patmc", env={"DOCS": dp, "PATS": pp}, workers=workers, timeout=3000)
    res.add_mc(r, "MC_Pattern (PatternMatcherImpl vs XPathSem!MatchSet: %d patterns x %d documents, every node; known deviations named and shown real)" % (len(pats), len(docs)))
    return pats, docs


def run(res, tier, seed):
    rng = random.Random(seed)
    quick = tier == "quick"
    wd = vlib.workdir("c09-%d" % os.getpid())
    c02.mc_laws(res, tier, wd)
    docs = c02.make_docs(rng, 4 if quick else 30)
    flats = [xdm.flatten(t, c02.ID_ATTRS) for t in docs]
    g = PGen(rng)
    pats = systematic() + [g.pattern() for _ in range(1500 if quick else 40000)]
    cases = []
    for p in pats:
        for d in rng.sample(range(len(docs)), 3 if quick else 5):
            cases.append((d + 1, 1, 1, 1, p, {}))
    events, crashes = c02.run_cases(docs, flats, cases, wd, mode="match", tag="c09")
    for c, err, rc in crashes:
        res.violation("matcher process died (rc=%s) on pattern %s: %s" % (rc, c["text"], err), [c])
    evs = [dict({"e": "Match", "doc": e["doc"], "text": e["text"], "pat": e["expr"]},
                **{k: e[k] for k in ("matched", "error") if k in e}) for e in events]
    res.cov["evaluations"] = len(evs)
    dpath = os.path.join(wd, "docs.ndjson")
    vlib.write_ndjson(dpath, flats)
    rejects, st = vlib.tlc_validate_sharded(TRACE, evs, tag="c09tv", env={"DOCS": dpath}, stateless=True, timeout=3000)
    known = {k["key"]: k for k in vlib.known_findings(PROP)}
    for rj in rejects:
        ev = evs[rj["line"]]
        key = classify(ev, rj["msg"])
        if key and key in known:
            res.known(known[key])
        else:
            res.violation("pattern %s on doc %s: %s" % (ev["text"], ev["doc"], rj["msg"][:200]), [dict(ev, flatdoc=flats[ev["doc"] - 1], xml=c02.doc_xml(docs[ev["doc"] - 1]))])
    res.cov["traces_validated_against_impl"] = len(evs) - len(rejects)
    res.cov["distinct_nontrivial"] = len({vlib.canon_hash([e["text"], e["doc"]]) for e in evs if e.get("matched")})
    res.cov["rule"] = ("systematic two/three-step patterns over {a,b,*,node(),text()} x {/,//} x positional predicates, attribute/comment/PI/text/root patterns, "
                       "+ %d seeded random patterns (1-4 steps, '//' anywhere, positional/boolean/nested-path predicates, id() heads, unions), each on sampled documents "
                       "with getMatchScore asked for EVERY node; non-trivial = at least one node matches; distinct by (pattern text, document)" % (len(pats) - len(systematic())))
    for ev in evs[::max(1, len(evs) // 4)][:4]:
        res.sample({"pattern": ev["text"], "doc": ev["doc"], "matched": ev.get("matched", ev.get("error"))})
    res.assumptions += ["patterns are matched through XPath::getMatchScore (the entry point template matching, xsl:key and xsl:number use); stylesheet-level uses are covered by C10/C15/C17",
                        "key() pattern heads are exercised in C15"]


def _alts(p):
    if p.get("op") == "bin" and p["o"] == "|":
        return _alts(p["a"]) + _alts(p["b"])
    return [p]


def _is_dos(s):
    return s["axis"] == "descendant-or-self" and s["test"]["t"] == "node" and not s["preds"]


def _positional(p):
    """does predicate p depend on the context position (number-valued or uses position()/last())?"""
    if p.get("op") == "num":
        return True
    txt = xpgen.render(p)
    return "position()" in txt or "last()" in txt


def features(pat):
    f = set()
    for alt in _alts(pat):
        if alt.get("op") != "path":
            continue
        steps = alt["steps"]
        inner = [i for i, s in enumerate(steps) if _is_dos(s) and i > 0]
        if inner and any(not _is_dos(s) for s in steps[:inner[-1]]):
            f.add("descendantNoBacktrack")              # a '//' with a step pattern to its left
        if inner and (alt["abs"] or alt["start"].get("op") != "none"):
            f.add("anchorLostAfterDescendant")          # '/...//' or id()...//: the anchor is not re-checked
        for s_ in steps:
            if _is_dos(s_):
                continue
            if s_["axis"] == "child" and s_["test"]["t"] == "node":
                f.add("childNodeTestAcceptsRoot")
            if s_["axis"] == "attribute" and s_["test"]["t"] == "node":
                f.add("attributeNodeTestAcceptsNonAttributes")
            if s_["axis"] == "attribute" and any(_positional(p) for p in s_["preds"]):
                f.add("attributeStepPositionalPredicate")
    return f


EXTRA_KEYS = ["childNodeTestAcceptsRoot", "attributeNodeTestAcceptsNonAttributes", "anchorLostAfterDescendant"]
MISSING_KEYS = ["attributeStepPositionalPredicate", "descendantNoBacktrack"]


def classify(ev, msg):
    """semantic classes of the known matcher deviations: a rejection is attributed to a known class only when the
    pattern has the syntactic feature of that class AND the direction of the error (false positive / false negative)
    is the one that class produces"""
    if "error" in ev:
        return None
    missing = "missing {}" not in msg
    extra = not msg.rstrip().endswith("extra {}")
    f = features(ev["pat"])
    ek = [k for k in EXTRA_KEYS if k in f]
    mk = [k for k in MISSING_KEYS if k in f]
    if (extra and not ek) or (missing and not mk):
        return None
    return (ek[0] if extra else mk[0])


def replay(path):
    events = vlib.read_ndjson(path)
    wd = vlib.workdir("c09replay")
    flats = {}
    for e in events:
        flats[e["doc"]] = e.pop("flatdoc"); e.pop("xml", None)
    n = max(flats)
    dpath = os.path.join(wd, "docs.ndjson")
    any_doc = next(iter(flats.values()))
    vlib.write_ndjson(dpath, [flats.get(i + 1, any_doc) for i in range(n)])
    rejects, _ = vlib.tlc_validate_sharded(TRACE, events, shards=1, tag="c09replay", env={"DOCS": dpath}, stateless=True)
    for r in rejects:
        print("REJECTED: %s" % r["msg"])
    return 1 if rejects else 0
