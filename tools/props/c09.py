"""C09 - a node matches a pattern exactly when the pattern, as an expression, selects it from some ancestor-or-self.
GEN: seeded pattern ASTs ('/', '//', positional and boolean predicates, all node tests, id() heads, unions) + systematic families.
RUN: XPathProcessorImpl::initMatchPattern + XPath::getMatchScore for every node of the document (harness/xp.cpp, mode match).
TV : Trace_C09.tla computes the match set from the definition (XPathSem!MatchSet) and compares.
MC : MC_Pattern.tla - the transcription of Xalan's right-to-left matcher (spec/impl/PatternMatcherImpl.tla) agrees with
     the definition over a bounded family outside the named deviation classes, which are shown real (none at present: the
     six classes found so far were repaired in the code and the transcription follows the repaired matcher).
KNOWN vs VIOLATION: a case the definition rejects is re-examined by Trace_C09impl.tla: KNOWN iff the recorded set is
     exactly what the transcribed algorithm computes and every differing node is in a named class (KD_<key>)."""
import os, random, json, subprocess
import vlib, xdm, xpgen
from xpgen import *
from vlib import ROOT
from props import c02

PROP = "C09"
TRACE = os.path.join(ROOT, "spec/trace/Trace_C09.tla")
IMPL = os.path.join(ROOT, "spec/trace/Trace_C09impl.tla")


class PGen:
    def __init__(self, rng):
        self.r = rng

    def test(self, axis):
        r = self.r.random()
        if axis == "attribute":
            return t_name(self.r.choice(["x", "y", "id"])) if r < 0.6 else (T_ANY if r < 0.9 else T_NODE)
        if r < 0.5:
            return t_name(self.r.choice(["a", "b", "c"]))
        if r < 0.65:
            return T_ANY
        if r < 0.77:
            return T_NODE
        if r < 0.87:
            return T_TEXT
        if r < 0.93:
            return T_COMMENT
        return t_pi(self.r.choice(["t", "u"]) if self.r.random() < 0.5 else None)

    def pred(self):
        r = self.r.random()
        if r < 0.2:
            return num(self.r.randint(1, 3))
        if r < 0.3:
            return fn("last")
        if r < 0.45:
            return bin_(self.r.choice(["=", "!=", "<", ">", ">=", "<="]), fn("position"), self.r.choice([num(1), num(2), fn("last")]))
        if r < 0.55:
            return path([step("attribute", self.r.choice([t_name("x"), T_ANY]))])
        if r < 0.65:
            return path([step("child", self.test("child"))])
        if r < 0.72:
            return bin_("=", path([step("self", T_NODE)]), lit(self.r.choice(["t", "u", "1"])))
        if r < 0.8:
            return fn("not", path([step("child", T_ANY)]))
        if r < 0.88:
            return path([step("child", t_name(self.r.choice(["a", "b"]))), step("child", self.test("child"))])
        if r < 0.94:
            return bin_("=", bin_("mod", fn("position"), num(2)), num(self.r.randint(0, 1)))
        return bin_("=", path([step("attribute", t_name("x"))]), lit(self.r.choice(["1", "2"])))

    def steppat(self, last):
        axis = "attribute" if (last and self.r.random() < 0.2) else "child"
        preds = []
        while self.r.random() < 0.35 and len(preds) < 2:
            preds.append(self.pred())
        return step(axis, self.test(axis), *preds, abbr=self.r.random() < 0.85)

    def lpp(self):
        n = self.r.choice([1, 1, 2, 2, 3, 3, 4])
        steps = []
        for i in range(n):
            if i > 0 and self.r.random() < 0.35:
                steps.append(dict(DOS))
            steps.append(self.steppat(i == n - 1))
        r = self.r.random()
        if r < 0.15:
            return path(steps, abs_=True)
        if r < 0.25:
            return path([dict(DOS)] + steps, abs_=True)
        if r < 0.33:
            st = fn("id", lit(self.r.choice(["i1", "i2", "i1 i3", "zz"])))
            if self.r.random() < 0.3:
                return st
            return path(([dict(DOS)] if self.r.random() < 0.4 else []) + steps, start=st)
        if r < 0.36:
            return path([], abs_=True)
        return path(steps)

    def pattern(self):
        p = self.lpp()
        while self.r.random() < 0.15:
            p = bin_("|", p, self.lpp())
        return p


def systematic():
    out = []
    names = [t_name("a"), t_name("b"), T_ANY, T_NODE, T_TEXT]
    for t1 in names:
        for t2 in names:
            for sep in ("/", "//"):
                mid = [dict(DOS)] if sep == "//" else []
                out.append(path([step("child", t1)] + mid + [step("child", t2)]))
                out.append(path([step("child", t1)] + mid + [step("child", t2)], abs_=True))
                out.append(path([step("child", t_name("a"))] + mid + [step("child", t1)] + mid + [step("child", t2)]))
                for p in (num(1), num(2), fn("last"), bin_(">", fn("position"), num(1))):
                    out.append(path([step("child", t1)] + mid + [step("child", t2, p)]))
                    out.append(path([step("child", t1, p)] + mid + [step("child", t2)]))
    for t in (t_name("x"), T_ANY, T_NODE):
        out.append(path([step("attribute", t)]))
        out.append(path([step("child", t_name("b")), step("attribute", t)]))
        out.append(path([step("child", T_ANY), dict(DOS), step("attribute", t)]))
        out.append(path([step("attribute", t, num(1))]))
    for t in (T_COMMENT, t_pi(), t_pi("t"), T_TEXT, T_NODE, T_ANY):
        out.append(path([step("child", t)]))
        out.append(path([step("child", t)], abs_=True))
        out.append(path([dict(DOS), step("child", t)], abs_=True))
    out.append(path([], abs_=True))
    return out


# ------------------------------------------------------------------------------------ MC_Pattern family
MC = os.path.join(ROOT, "spec/mc/MC_Pattern.tla")
MC_TESTS = [t_name("a"), t_name("b"), T_ANY, T_NODE, T_TEXT]
MC_ATESTS = [t_name("x"), T_ANY, T_NODE]
MC_PREDS = [num(1), fn("last"), path([step("child", t_name("b"))]), path([step("attribute", t_name("x"))])]


def _rel_paths(firsts, lasts, seps, maxpreds, preds=None):
    """relative patterns t1 sep t2 ... sep tn: firsts = list of test lists for steps 1..n-1, lasts = (axis, test) of the
    last step, every separator choice out of seps, every placement of <= maxpreds predicates (at most one per step)"""
    import itertools
    preds = MC_PREDS if preds is None else preds
    n = len(firsts) + 1
    out = []
    for fs in itertools.product(*firsts):
        for last in lasts:
            axes_tests = [("child", t) for t in fs] + [last]
            for sp in itertools.product(seps, repeat=n - 1):
                for npred in range(0, min(maxpreds, n) + 1):
                    for where in itertools.combinations(range(n), npred):
                        for ps in itertools.product(preds, repeat=npred):
                            steps = []
                            for i, (ax, t) in enumerate(axes_tests):
                                if i > 0 and sp[i - 1] == "//":
                                    steps.append(dict(DOS))
                                steps.append(step(ax, t, *([ps[where.index(i)]] if i in where else [])))
                            out.append(steps)
    return out


def _anchored(steps_list, anchors):
    out = []
    for steps in steps_list:
        for a in anchors:
            if a == "":
                out.append(path(steps))
            elif a == "/":
                out.append(path(steps, abs_=True))
            else:
                out.append(path([dict(DOS)] + steps, abs_=True))
    return out


def mc_family(tier):
    """the bounded pattern family of MC_Pattern (also replayed on the real matcher)"""
    quick = tier == "quick"
    T5 = MC_TESTS
    T3 = [t_name("a"), T_ANY, T_NODE]
    L8 = [("child", t) for t in T5] + [("attribute", t) for t in MC_ATESTS]
    L3 = [("child", t_name("a")), ("child", T_NODE), ("attribute", t_name("x"))]
    ALL, SL = ("", "/", "//"), ("/", "//")
    pats = _anchored(_rel_paths([], L8, SL, 1), ALL)                                             # 1 step, <= 1 predicate
    pats += _anchored(_rel_paths([T5], L8, SL, 0), ALL)                                          # 2 steps, no predicate
    if quick:
        pats += _anchored(_rel_paths([T3], L3, SL, 1), ("",))                                    # 2 steps, 1 predicate
        pats += _anchored(_rel_paths([[t_name("a"), t_name("b"), T_NODE]] * 2, [("child", t) for t in (t_name("a"), t_name("b"), T_NODE)], SL, 0), ("", "/"))
    else:
        pats += _anchored(_rel_paths([T5], L8, SL, 1), ALL)
        pats += _anchored(_rel_paths([T3], L3 + [("child", T_TEXT), ("attribute", T_NODE)], SL, 2), ("", "/"))
        pats += _anchored(_rel_paths([T5, T5], L8, SL, 0), ALL)                                  # 3 steps, no predicate
        pats += _anchored(_rel_paths([T3, T3], L3, SL, 1), ("", "/"))                            # 3 steps, 1 predicate
    # unions of two: every deviation class next to an unaffected alternative, and pairs of classes
    alts = [path([step("child", t_name("a")), dict(DOS), step("child", t_name("b"))], abs_=True),
            path([step("child", t_name("b")), step("child", t_name("a")), dict(DOS), step("child", t_name("b"))]),
            path([step("child", T_NODE)]), path([step("attribute", T_NODE)]), path([step("attribute", t_name("x"), num(1))]),
            path([step("child", t_name("a"))]), path([step("child", T_TEXT)]), path([], abs_=True),
            path([step("child", t_name("b"), fn("last"))]), path([step("child", T_ANY), step("attribute", T_ANY)])]
    for i, a in enumerate(alts):
        for b in alts[i + 1:]:
            pats.append(bin_("|", a, b))
            pats.append(bin_("|", b, a))
    # heads and predicate sequences outside the product
    idh = fn("id", lit("i1 i2"))
    ab = [step("child", t_name("a")), step("child", t_name("b"))]
    pats += [idh, path(ab[:1], start=idh), path([dict(DOS)] + ab[:1], start=idh), path([ab[0], dict(DOS), ab[1]], start=idh),
             path([dict(DOS), ab[0], dict(DOS), ab[1]], start=idh), path([], abs_=True)]
    for t in (t_name("a"), T_ANY, T_NODE, T_TEXT):
        for ps in ([num(1), MC_PREDS[2]], [MC_PREDS[2], num(1)], [fn("last"), fn("last")], [num(2)], [bin_(">", fn("position"), num(1))],
                   [bin_(">", fn("position"), num(1)), num(1)], [fn("count", path([step("child", T_ANY)]))], [fn("not", MC_PREDS[2])],
                   [bin_("=", fn("position"), num(2))] * 2, [bin_(">", fn("position"), num(1)), bin_("=", fn("position"), num(2))],
                   [bin_("=", fn("position"), fn("last")), bin_("!=", fn("position"), num(1))],
                   [bin_(">", fn("position"), num(1)), MC_PREDS[2], bin_("=", fn("position"), num(2))]):
            pats.append(path([step("child", t, *ps)]))
            pats.append(path([step("child", t, *ps), dict(DOS), step("child", t_name("b"))]))
            pats.append(path([step("child", t_name("a")), step("child", t, *ps)]))
    # backtracking over '//': one, two and three steps left of a '//', two '//', anchors, id() head, predicates and
    # wildcards on the steps that make the nearest ancestor fail
    ca, cb, cany, cnode = step("child", t_name("a")), step("child", t_name("b")), step("child", T_ANY), step("child", T_NODE)
    D = dict(DOS)
    for steps in ([ca, cb, ca, D, cb], [cb, ca, ca, D, cb], [ca, D, cb, ca, D, cb], [cb, ca, D, ca, D, cb], [ca, ca, D, ca, D, cb],
                  [step("child", t_name("a"), num(1)), ca, D, cb], [step("child", t_name("a"), MC_PREDS[2]), ca, D, cb],
                  [cb, step("child", t_name("a"), num(1)), D, cb], [ca, cany, D, cb], [cany, ca, D, cnode], [cb, ca, D, step("attribute", t_name("x"))],
                  [ca, ca, D, step("child", T_TEXT)], [cnode, cnode, D, cb], [cb, cany, ca, D, cany, D, cb]):
        pats += [path(steps), path(steps, abs_=True), path([D] + steps, abs_=True)]
    pats += [path([ca, ca, D, cb], start=idh), path([D, cb, ca, D, cb], start=idh)]
    seen, out = set(), []
    for p_ in pats:
        txt = xpgen.render(p_)
        if txt not in seen:
            seen.add(txt)
            out.append(p_)
    return out


def mc_docs(tier):
    E, A, T, R = xdm.E, xdm.A, xdm.T, xdm.R
    nested = [R(E("c", E("a", E("a", E("b"))))),                                              # the c/a//b example
              R(E("b", E("a", E("b", E("a", E("b", a=[A("x", "1")])), T("t"))), E("b"))),
              R(E("a", E("a", E("a", E("b", a=[A("x", "1")]), E("a", E("b"), E("b"))), E("b")), a=[A("id", "i1")])),
              R(E("b", E("b", E("a", E("a", T("t"), E("b", T("t"))), a=[A("id", "i2"), A("x", "1")])))),
              c02.fixed_docs()[2], c02.fixed_docs()[4],
              R(E("a", E("b", E("a", E("a", E("b", E("a", E("b", a=[A("x", "1")]), T("t")), E("b"))), E("b")), E("a", E("b"))))),   # deep a/b chains: the ancestor that fits is the 2nd or 3rd
              R(E("b", E("a", E("a", E("a", E("b", E("b"), T("t"))), a=[A("id", "i1")]), E("a", E("b", E("a", E("a", E("b"))))))))]
    fam = list(xdm.enum_docs(5, texts=("t",)))           # all documents with <= 5 nodes over {a, b}, @x, text 't'
    if tier == "quick":
        fam = fam[::4]
    return nested + fam


def mc_pattern(tier, wd, workers):
    pats, docs = mc_family(tier), mc_docs(tier)
    pp, dp = os.path.join(wd, "mc-pats.ndjson"), os.path.join(wd, "mc-pdocs.ndjson")
    vlib.write_ndjson(pp, [{"text": xpgen.render(p_), "pat": xpgen.strip_render_only(p_)} for p_ in pats])
    vlib.write_ndjson(dp, [xdm.flatten(t, c02.ID_ATTRS) for t in docs])
    r = vlib.tlc_mc(MC, name="patmc", env={"DOCS": dp, "PATS": pp}, workers=workers, timeout=3000, extra=["-noGenerateSpecTE"])
    return r, "MC_Pattern (PatternMatcherImpl vs XPathSem!MatchSet: %d patterns x %d documents, every node; no deviation class excluded)" % (len(pats), len(docs))


def classify_rejects(rej_evs, dpath, tag="c09cl"):
    """second opinion on the events the DEFINITION rejected: Trace_C09impl in classify mode compares the recorded set
    with what the transcribed (known-deviating) algorithm computes.  Returns one (verdict, detail) per event:
    ("KNOWN", [keys]) | ("UNNAMED", msg) | ("VIOLATION", msg)"""
    if not rej_evs:
        return []
    cl, _ = vlib.tlc_validate_sharded(IMPL, rej_evs, shards=min(vlib.NCPU, len(rej_evs) // 150 + 1), tag=tag,
                                      env={"DOCS": dpath, "MODE": "classify"}, stateless=True, timeout=3000)
    by = {c["line"]: c["msg"] for c in cl}
    out = []
    for k in range(len(rej_evs)):
        msg = by.get(k)
        if msg is None:
            raise vlib.Infra("Trace_C09impl gave no classification for event %d" % k)
        if msg.startswith("KNOWN "):
            out.append(("KNOWN", [x for x in msg[6:].split(",") if x]))
        elif msg.startswith("UNNAMED") or msg.startswith("AGREES"):
            out.append(("UNNAMED", msg))
        else:
            out.append(("VIOLATION", msg))
    return out


def uses_key_or_var(e):
    if isinstance(e, dict):
        if e.get("op") == "var" or (e.get("op") == "fn" and e.get("name") in ("key", "current")):
            return True
        return any(uses_key_or_var(v) for v in e.values())
    if isinstance(e, list):
        return any(uses_key_or_var(v) for v in e)
    return False


def key_use_family(res, wd, rng, quick, docs, flats, dpath, pats):
    """xsl:key match=P use="'v'": key('k','v') must be exactly the nodes of the document that match P (XSLT 12.2) - the second
    place where patterns are matched, with its own walk over the document (elements, their attributes, the other children)"""
    import subprocess
    from xml.sax.saxutils import quoteattr
    kwd = os.path.join(wd, "keyuse"); os.makedirs(kwd)
    pats = [p_ for p_ in pats if not uses_key_or_var(p_)]
    if quick:
        pats = pats[rng.randrange(3)::3]
    cases, metas = [], []
    for k, p_ in enumerate(pats):
        for d in rng.sample(range(len(docs)), 2 if quick else 4):
            cdir = os.path.join(kwd, "case%d" % len(cases)); os.makedirs(cdir)
            open(os.path.join(cdir, "main.xsl"), "w").write(
                '<xsl:stylesheet version="1.0" xmlns:xsl="http://www.w3.org/1999/XSL/Transform" xmlns:p="urn:u" xmlns:q="urn:v">'
                '<xsl:key name="k" match=%s use="\'v\'"/><xsl:template match="/"><xsl:variable name="r" select="key(\'k\',\'v\')"/></xsl:template></xsl:stylesheet>'
                % quoteattr(xpgen.render(p_)))
            open(os.path.join(cdir, "in.xml"), "w").write(c02.doc_xml(docs[d]))
            cases.append({"id": len(cases), "dir": cdir, "trace": "none", "select": True})
            metas.append((p_, d))
    exe = vlib.build_harness("xslt")
    nsh = vlib.NCPU
    procs = []
    for s_ in range(nsh):
        ch = cases[s_::nsh]
        if ch:
            cp = os.path.join(kwd, "cases-%d.ndjson" % s_); vlib.write_ndjson(cp, ch)
            rp = os.path.join(kwd, "trace-%d.ndjson" % s_)
            procs.append((ch, rp, subprocess.Popen([exe, cp], stdout=open(rp, "w"), stderr=subprocess.PIPE)))
    evs = []
    for ch, rp, pr in procs:
        _, err = pr.communicate(timeout=3000)
        by, cur = {}, None
        for ev in vlib.read_ndjson(rp):
            if ev["e"] == "Reset":
                cur = by.setdefault(ev["id"], [])
            cur.append(ev)
        for c in ch:
            p_, d = metas[c["id"]]
            es = by.get(c["id"]) or []
            sample = {"xsl": open(os.path.join(c["dir"], "main.xsl")).read(), "xml": c02.doc_xml(docs[d])}
            if not es or es[-1]["e"] != "Done":
                res.violation("transformation process died in the key-use family (rc=%s): %s" % (pr.returncode, (err or b"").decode()[-200:]), [sample]); continue
            sel = [e for e in es if e["e"] == "S" and e["el"] == "xsl:variable" and e["val"]["t"] == "ns"]
            ev = {"e": "Match", "doc": d + 1, "text": "xsl:key match=" + xpgen.render(p_), "pat": xpgen.strip_render_only(p_), "sample": sample}
            if es[-1]["status"] != 0 or len(sel) != 1:
                ev["error"] = (es[-1].get("msg") or "no selection event")[:200]
            else:
                ev["matched"] = [[d + 1, x[1], 0] for x in sel[0]["val"]["v"]]
            evs.append(ev)
    rejects, st = vlib.tlc_validate_sharded(TRACE, [{k: v for k, v in e.items() if k != "sample"} for e in evs], tag="c09key", env={"DOCS": dpath}, stateless=True, timeout=3000)
    for rj in rejects:
        ev = evs[rj["line"]]
        res.violation("%s on doc %s: %s" % (ev["text"], ev["doc"], rj["msg"][:300]), [dict(ev, flatdoc=flats[ev["doc"] - 1], xml=ev["sample"]["xml"])])
    res.notes["key_use_cases"] = len(evs)
    return len(evs), len(evs) - len(rejects)


def run(res, tier, seed):
    from concurrent.futures import ThreadPoolExecutor
    rng = random.Random(seed)
    quick = tier == "quick"
    wd = vlib.workdir("c09-%d" % os.getpid())
    pool = ThreadPoolExecutor(max_workers=1)
    mcf = pool.submit(mc_pattern, tier, wd, 4 if quick else 8)       # model checking runs beside the conformance run
    c02.mc_laws(res, tier, wd)
    docs = c02.make_docs(rng, 4 if quick else 30) + mc_docs(tier)[:4]
    flats = [xdm.flatten(t, c02.ID_ATTRS) for t in docs]
    g = PGen(rng)
    fam = mc_family(tier)
    nrand = 1500 if quick else 40000
    pats = systematic() + fam + [g.pattern() for _ in range(nrand)]
    cases = []
    for p in pats:
        for d in rng.sample(range(len(docs)), 3 if quick else 5):
            cases.append((d + 1, 1, 1, 1, p, {}))
    events, crashes = c02.run_cases(docs, flats, cases, wd, mode="match", tag="c09")
    for c, err, rc in crashes:
        res.violation("matcher process died (rc=%s) on pattern %s: %s" % (rc, c["text"], err), [c])
    evs = [dict({"e": "Match", "doc": e["doc"], "text": e["text"], "pat": e["expr"]},
                **{k: e[k] for k in ("matched", "error", "targets") if k in e}) for e in events]
    res.cov["evaluations"] = len(evs)
    dpath = os.path.join(wd, "docs.ndjson")
    vlib.write_ndjson(dpath, flats)
    # 1. the definition decides
    rejects, st = vlib.tlc_validate_sharded(TRACE, evs, tag="c09tv", env={"DOCS": dpath}, stateless=True, timeout=3000)
    # 2. what the definition rejects is either exactly the behaviour of the transcribed algorithm inside a named
    #    deviation class (KNOWN) or a violation
    known = {k["key"]: k for k in vlib.known_findings(PROP)}
    verdicts = classify_rejects([evs[rj["line"]] for rj in rejects], dpath)
    for rj, (verdict, detail) in zip(rejects, verdicts):
        ev = evs[rj["line"]]
        if verdict == "KNOWN" and detail and all(k in known for k in detail):
            for k in detail:
                res.known(known[k])
            continue
        why = {"KNOWN": "deviation class without a known_findings entry: %s" % detail,
               "UNNAMED": "the transcribed matcher computes this set too, but no named deviation class explains it: %s" % detail,
               "VIOLATION": detail}[verdict]
        res.violation("pattern %s on doc %s: %s; %s" % (ev["text"], ev["doc"], rj["msg"][:160], str(why)[:240]),
                      [dict(ev, flatdoc=flats[ev["doc"] - 1], xml=c02.doc_xml(docs[ev["doc"] - 1]))])
    # 3. thorough: EVERY case against the transcription - a case the definition accepts but the transcription does
    #    not is a stale/incorrect model (reported, not a violation of the property); rejected-by-both is already above
    if not quick:
        irej, _ = vlib.tlc_validate_sharded(IMPL, evs, tag="c09impl", env={"DOCS": dpath, "MODE": "validate"}, stateless=True, timeout=3000)
        defrej = {rj["line"] for rj in rejects}
        stale = [r_ for r_ in irej if r_["line"] not in defrej]
        res.notes["cases_equal_to_transcribed_matcher"] = len(evs) - len(irej)
        res.notes["transcription_mismatch_where_definition_holds"] = len(stale)
        for r_ in stale[:5]:
            vlib.log("C09: PatternMatcherImpl differs from the real matcher where the definition holds: %s on doc %s: %s" % (
                evs[r_["line"]]["text"], evs[r_["line"]]["doc"], r_["msg"][:200]))
    # 4. the same patterns where xsl:key uses them (KeyTable walks the document itself and asks the matcher node by node)
    nk, nk_ok = key_use_family(res, wd, rng, quick, docs, flats, dpath, systematic() + [g.pattern() for _ in range(100 if quick else 3000)])
    res.cov["evaluations"] += nk
    r, label = mcf.result()
    res.add_mc(r, label)
    res.cov["traces_validated_against_impl"] = len(evs) - len(rejects) + nk_ok
    res.cov["distinct_nontrivial"] = len({vlib.canon_hash([e["text"], e["doc"]]) for e in evs if e.get("matched")})
    res.cov["rule"] = ("systematic two/three-step patterns over {a,b,*,node(),text()} x {/,//} x positional predicates, attribute/comment/PI/text/root patterns, "
                       "+ the %d patterns of the model-checked family (MC_Pattern) + %d seeded random patterns (1-4 steps, '//' anywhere, positional/boolean/nested-path "
                       "predicates, id() heads, unions), each on sampled documents with getMatchScore asked for EVERY node; non-trivial = at least one node matches; "
                       "distinct by (pattern text, document)" % (len(fam), nrand))
    for ev in evs[::max(1, len(evs) // 4)][:4]:
        res.sample({"pattern": ev["text"], "doc": ev["doc"], "matched": ev.get("matched", ev.get("error"))})
    res.assumptions += ["patterns are matched through XPath::getMatchScore (the entry point template matching, xsl:key and xsl:number use); stylesheet-level uses are covered by C10/C15/C17",
                        "key() pattern heads are exercised in C15",
                        "a rejected case is a KNOWN finding only if the recorded match set is exactly what the transcribed algorithm (PatternMatcherImpl.tla) computes and "
                        "every differing node lies in a named deviation class of known_findings.jsonl; the transcription itself is compared with the real matcher on every case in the thorough tier"]


def replay(path):
    events = vlib.read_ndjson(path)
    wd = vlib.workdir("c09replay")
    flats = {}
    for e in events:
        flats[e["doc"]] = e.pop("flatdoc"); e.pop("xml", None)
    n = max(flats)
    dpath = os.path.join(wd, "docs.ndjson")
    any_doc = next(iter(flats.values()))
    vlib.write_ndjson(dpath, [flats.get(i + 1, any_doc) for i in range(n)])
    rejects, _ = vlib.tlc_validate_sharded(TRACE, events, shards=1, tag="c09replay", env={"DOCS": dpath}, stateless=True)
    verdicts = classify_rejects([events[r["line"]] for r in rejects], dpath, tag="c09replaycl")
    known = {k["key"] for k in vlib.known_findings(PROP)}
    bad = 0
    for r, (verdict, detail) in zip(rejects, verdicts):
        if verdict == "KNOWN" and detail and all(k in known for k in detail):
            print("KNOWN-FINDING (%s): %s" % (",".join(detail), r["msg"]))
        else:
            bad += 1
            print("REJECTED: %s; %s" % (r["msg"], detail))
    return 1 if bad else 0
