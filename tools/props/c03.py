"""C03 - no input crashes, hangs or corrupts memory; every failure is a reported error.
MC : MC_ApiProtocol - every event sequence (<= MaxLen) over a small alphabet: the step-wise acceptor of ApiProtocol.tla (the one
     the trace spec runs) accepts exactly the sequences with P1-P4 (AcceptorIsContract); POSTCONDITION: non-zero Return taken,
     Probe after a failure taken, every kind of violation refused (the trace spec is not vacuous).
GEN: the same model ENUMERATES the input classes (MC_ApiProtocol!Cases: mutations of well-formed seeds, extreme parameters);
     tools/c03gen.py renders the descriptors to bytes (renderer cross-checked with expat) and adds seeded byte-level fuzz inputs.
RUN: harness/c03.cpp (ASan+UBSan+LSan build of the working tree) feeds every input to the entry-point scenarios of its role, many
     executions per child process, one transformer / C-API handle / evaluator per child, a Probe after every call, a leak check
     after every execution; crashes are attributed to the execution in flight and the sweep continues in a new child.
TV : Trace_C03.tla accepts an execution iff it is a behaviour of ApiProtocol.tla.  Rejected executions are keyed semantically
     (input class + symptom + call site) and are KNOWN-FINDINGs when listed, VIOLATIONs otherwise."""
import bisect, collections, hashlib, json, os, re, subprocess, time
import vlib
import c03gen
from vlib import ROOT

PROP = "C03"
LEVEL = "exploration"
MC = os.path.join(ROOT, "spec/mc/MC_ApiProtocol.tla")
TRACE = os.path.join(ROOT, "spec/trace/Trace_C03.tla")
HFLAGS = dict(extra_flags=["-rdynamic"], libs=["-ldl"])
JOBS = 8

# entry-point scenarios (harness/c03.cpp) per role of the input; group T = transformer (C++ and C API), X = XPath (C++ and C API)
SCEN = {
    "xml": [("T", s) for s in ("stream", "callback", "file", "prebuilt", "prebuiltXerces", "parsedStream", "capiData", "capiFile", "capiHandler",
                                "capiPrebuilt", "capiPrebuiltFile")] + [("X", "evalDoc"), ("X", "evalDocXerces"), ("X", "xcOneShot")],
    "xsl": [("T", s) for s in ("stream", "callback", "file", "prebuilt", "prebuiltXerces", "parsedStream", "capiData", "capiFile", "capiHandler",
                                "capiPrebuilt", "capiPrebuiltFile")],
    "xpath": [("X", s) for s in ("evaluate", "selectNodeList", "selectSingleNode", "createXPath", "xcExpr", "xcExprUtf8", "xcExprSjis", "xcExprEucJp", "xcExprLatin1", "xcOneShot")] +
             [("T", s) for s in ("param", "paramChar", "capiParam")],
    "param": [("T", s) for s in ("param", "paramChar", "capiParam")],
}
NODESET_ONLY = {"selectNodeList", "selectSingleNode"}        # a number-valued expression legitimately fails there (type error)
XERCES_SCEN = {"prebuiltXerces", "evalDocXerces"}
INVALID = {"truncate", "dropTag", "dupTag", "swapTag", "unclosedQuote", "illegalChar", "brokenUtf8", "loneSurrogate", "fffe", "nul",
           "unknownXmlEncoding", "wrongXslNamespaceRoot", "unknownXslElement", "unknownXslAttribute", "missingRequiredAttribute",
           "avtUnbalanced", "nonExpression", "undefinedVariable"}
OPEN = {"unknownOutputEncoding", "xpathIllegalChar", "fuzz", "xmlDeclVersion"}
SAN_ENV = {"ASAN_OPTIONS": "detect_leaks=1:abort_on_error=0:handle_segv=0:handle_abort=0:handle_sigbus=0:handle_sigfpe=0:handle_sigill=0:"
                           "allocator_may_return_null=1:detect_stack_use_after_return=0:malloc_context_size=12:fast_unwind_on_malloc=1",
           "UBSAN_OPTIONS": "print_stacktrace=1:halt_on_error=1", "LSAN_OPTIONS": "print_suppressions=0:max_leaks=3"}


# ------------------------------------------------------------------------------------------------- MC + GEN
def model_check(res, wd, quick):
    seeds = os.path.join(wd, "seeds.json")
    json.dump(c03gen.metrics(), open(seeds, "w"))
    cases = os.path.join(wd, "descriptors.ndjson")
    cfg = os.path.join(wd, "mc.cfg")
    open(cfg, "w").write("SPECIFICATION Spec\nCONSTANTS MaxLen = %d\nINVARIANT AcceptorIsContract\nINVARIANT TypeOK\nPOSTCONDITION Post\n" % (5 if quick else 6))
    # the POSTCONDITION reads counters kept in TLC registers: one worker
    r = vlib.tlc_mc(MC, cfg, workers=1, env={"C03_SEEDS": seeds, "C03_CASES": cases}, name="c03mc", timeout=1500, extra=["-noGenerateSpecTE"])
    res.add_mc(r, "MC_ApiProtocol MaxLen=%d (acceptor = contract; Covered; Cases exported)" % (5 if quick else 6))
    if not os.path.exists(cases):
        raise vlib.Infra("MC_ApiProtocol exported no cases")
    ds = vlib.read_ndjson(cases)
    ds.sort(key=lambda c: json.dumps(c, sort_keys=True))
    return ds


def select(ds, quick, seed):
    """which enumerated descriptors this tier renders: everything in thorough; in quick a seed-offset stride of the big
    position-indexed classes and everything of the small ones.  Depth 100000 / 10000 run in both tiers (fewer scenarios in quick)."""
    if not quick:
        return ds
    by = collections.defaultdict(list)
    for c in ds:
        by[c["cls"]].append(c)
    cap = {"truncate": 160, "brokenUtf8": 60, "illegalChar": 50, "loneSurrogate": 40, "fffe": 40, "nul": 30, "numberLiteral": 120, "cdataBracket": 80,
           "numberFormat": 50, "numberValue": 264, "dropTag": 40, "dupTag": 40, "swapTag": 40, "unclosedQuote": 30,
           "nonExpression": 110}
    out = []
    for cls in sorted(by):
        lst = by[cls]
        n = cap.get(cls)
        if n is None or len(lst) <= n:
            out += lst
        else:
            stride = len(lst) / float(n)
            off = (seed - 1) % max(1, int(stride))
            out += [lst[min(len(lst) - 1, int(k * stride) + off)] for k in range(n)]
    return out


def build_inputs(ds, quick, seed, stats):
    """-> inputs (list of bytes), items (list of dict(cls, role, d, in, nodeset, desc, embedded))"""
    inputs, index, items = [], {}, []

    def add(b):
        h = hashlib.sha1(b).digest()
        if h not in index:
            index[h] = len(inputs)
            inputs.append(b)
        return index[h]
    fixed = {"seedXml": add(c03gen.DOC_SEEDS[c03gen.SEED_XML].encode("utf-8")), "seedXsl": add(c03gen.DOC_SEEDS[c03gen.SEED_XSL].encode("utf-8")),
             "paramXsl": add(c03gen.PARAM_XSL.encode("utf-8"))}
    for c in ds:
        r = c03gen.render(c)
        if r is None:
            stats["descriptor_not_applicable"] += 1
            continue
        role, b, fl = r
        if role != c["role"]:
            raise vlib.Infra("renderer and model disagree on the role of %s" % c)
        if not c03gen.renderer_consistent(c["cls"], role, b, c["d"]):
            stats["mutation_kept_well_formedness_dropped"] += 1
            continue
        items.append({"cls": c["cls"], "role": role, "d": c["d"], "in": add(b), "nodeset": bool(fl.get("nodeset")), "desc": c})
        if role == "xpath" and c["cls"] != "seed":
            # the same expression inside a stylesheet (select of xsl:value-of): reaches the XSLT entry points
            try:
                text = b.decode("utf-8")
            except UnicodeDecodeError:
                continue
            if "\x00" in text or any(ord(ch) < 0x20 or 0xD800 <= ord(ch) < 0xE000 or ord(ch) in (0xFFFE, 0xFFFF) for ch in text):
                continue       # would no longer be a well-formed stylesheet: another class
            items.append({"cls": c["cls"], "role": "xsl", "d": c["d"], "in": add(c03gen.in_stylesheet(text)), "nodeset": False, "desc": c, "embedded": True})
    nf = 400 if quick else 2500
    for k, (role, b) in enumerate(c03gen.fuzz_inputs(seed, nf)):
        items.append({"cls": "fuzz", "role": role, "d": 0, "in": add(b), "nodeset": True, "desc": {"cls": "fuzz", "k": k, "seed": seed}})
    return inputs, items, fixed


# depth 100000: a document / template body of that depth costs minutes of CPU under ASan (quadratic), a path of 100000 steps too
QUICK_DEEPEST = {("deepParens", "parens"), ("deepParens", "calls"), ("deepPredicates", "nested"), ("deepSteps", "child")}
THOROUGH_DEEPEST_DOCS = {("deepDocument", "elements"), ("deepDocument", "mixed")}
BATCH = 25


def plan(items, quick, seed):
    """one execution per (item, scenario): the first item(s) of every class go through every scenario of their role, the others through
    three (quick) / five (thorough) scenarios chosen round-robin, so that all scenarios are used equally; depth >= 10000 through two
    scenarios each, the slowest depth-100000 / depth-10000 constructions only in the thorough tier."""
    cases, seen_cls = [], collections.Counter()
    rr = collections.Counter()
    for it in items:
        scen = list(SCEN[it["role"]])
        if not it["nodeset"] and it["cls"] not in INVALID and it["cls"] not in OPEN:
            scen = [s for s in scen if s[1] not in NODESET_ONLY]
        if it.get("embedded"):
            scen = [("T", "stream"), ("T", "prebuilt"), ("T", "capiData")]
        big = it["d"] >= 10000
        cv = (it["cls"], it["desc"].get("v"))
        if quick and it["d"] >= 100000 and cv not in QUICK_DEEPEST:
            continue
        if quick and it["d"] >= 10000 and it["cls"] == "deepTemplateBody":
            continue                  # 2-3 CPU minutes each under ASan (quadratic in the depth)
        if not quick and it["cls"] == "deepTemplateBody" and it["d"] >= 10000:
            if it["d"] >= 100000:
                continue              # hours
            scen = [x for x in scen if x[1] in ("stream", "prebuilt")]
        if not quick and it["cls"] == "deepDocument" and it["d"] >= 100000:
            # a transformation of a document of depth 100000 takes more than 15 CPU minutes under ASan (ancestor walks per
            # element): only parsed and queried
            if cv not in THOROUGH_DEEPEST_DOCS:
                continue
            scen = [("X", "evalDoc"), ("X", "xcOneShot")]
        ck = (it["cls"], it["role"], bool(it.get("embedded")))
        full = seen_cls[ck] < (1 if quick else 4) and not big
        seen_cls[ck] += 1
        if not full:
            k = 3 if quick else (2 if big else 5)
            start = rr[it["role"]]
            rr[it["role"]] += k
            scen = [scen[(start + j) % len(scen)] for j in range(min(k, len(scen)))]
        for grp, s in scen:
            cases.append({"grp": grp, "scen": s, "role": it["role"], "cls": it["cls"], "d": it["d"], "in": it["in"],
                          "timeout": 900 if big else 30, "solo": big, "leak": False, "item": it})
    # children are per group: keep the groups in long runs; the big inputs (one child each) first, they take longest
    cases.sort(key=lambda c: (not c["solo"], c["grp"]))
    for n, c in enumerate(cases):
        c["id"] = n
    return cases


# ------------------------------------------------------------------------------------------------------ RUN
def run_harness(exe, cases, inputs, fixed, wd, tag, flavour, batch=BATCH, timeout=3000):
    out = os.path.join(wd, "out-" + tag)
    data = os.path.join(wd, "data-" + tag)
    os.makedirs(out, exist_ok=True); os.makedirs(data, exist_ok=True)
    ipath = os.path.join(wd, "inputs-%s.ndjson" % tag)
    used = set(fixed.values()) | {c["in"] for c in cases}
    with open(ipath, "w") as f:
        for i in sorted(used):
            f.write('{"i":%d,"hex":"%s"}\n' % (i, inputs[i].hex()))
    cpath = os.path.join(wd, "cases-%s.ndjson" % tag)
    cfgline = dict(fixed, config=True, seedExpr=c03gen.SEED_EXPR, timeout=30, batch=batch, leak=False)
    vlib.write_ndjson(cpath, [cfgline] + [{k: v for k, v in c.items() if k != "item"} for c in cases])
    env = dict(os.environ, **SAN_ENV)
    try:
        r = subprocess.run([exe, cpath, ipath, out, str(JOBS), data], capture_output=True, text=True, timeout=timeout, env=env)
    except subprocess.TimeoutExpired:
        raise vlib.Infra("harness sweep %s did not finish within %d s" % (tag, timeout))
    if r.returncode != 0 or r.stdout.strip() != str(len(cases)):
        raise vlib.Infra("harness sweep %s failed (rc=%d, %s of %d executions): %s" % (tag, r.returncode, r.stdout.strip(), len(cases), r.stderr[-2000:]))
    events = []
    for p in sorted(os.listdir(out)):
        if p.endswith(".nd"):
            for line in open(os.path.join(out, p), errors="replace"):
                line = line.strip()
                if line:
                    try:
                        ev = json.loads(line)
                    except ValueError:
                        raise vlib.Infra("unreadable event in %s: %s" % (p, line[:200]))
                    if ev.get("e") == "Reset":
                        ev["child"] = p[:-3]
                    events.append(ev)
    execs = vlib.split_executions(events)
    if len(execs) != len(cases):
        raise vlib.Infra("harness sweep %s recorded %d executions for %d cases" % (tag, len(execs), len(cases)))
    byid = {}
    for ex in execs:
        # structure the trace spec cannot see across Reset: every execution is closed by an Exit event
        if ex[0].get("e") != "Reset" or ex[-1].get("e") != "Exit":
            raise vlib.Infra("incomplete execution in sweep %s: %s" % (tag, json.dumps(ex[-3:])[:400]))
        ex[0]["build"] = flavour
        byid[ex[0]["case"]] = ex
    return [byid[c["id"]] for c in cases]


# ------------------------------------------------------------------------------------------- classification
_dem = {}


def demangle(names):
    todo = [n for n in set(names) if n not in _dem]
    if todo:
        r = subprocess.run(["c++filt"], input="\n".join(todo) + "\n", capture_output=True, text=True)
        for n, d in zip(todo, r.stdout.split("\n")):
            _dem[n] = d
    return [_dem[n] for n in names]


def short_name(d):
    out, depth = [], 0
    for ch in d:
        if ch == "<":
            depth += 1
        elif ch == ">":
            depth -= 1
        elif depth == 0:
            out.append(ch)
    s = "".join(out)
    s = re.sub(r"\(.*$", "", s).strip()
    s = re.sub(r"^.* ", "", s) if " " in s and "operator" not in s else s
    s = re.sub(r"xalanc_\d+_\d+::", "", s)
    s = re.sub(r"xercesc_\d+_\d+::", "xercesc::", s)
    return s


def library_frames(frames):
    dem = demangle(frames)
    return [short_name(d) for f, d in zip(frames, dem) if re.match(r"(xalanc_\d+_\d+|xercesc_\d+_\d+)::", d)]


def collapse(fr):
    out = []
    for f in fr:
        if not out or out[-1] != f:
            out.append(f)
    return out


def report_frames(report):
    """library frames of the first stack of a sanitizer report (symbolised text)"""
    out = []
    for m in re.finditer(r"#\d+ 0x[0-9a-f]+ in (.+?) (?:/|\(|\?)", report):
        name = m.group(1)
        if re.match(r"(xalanc_\d+_\d+|xercesc_\d+_\d+)::", name):
            out.append(short_name(name))
        if len(out) >= 6:
            break
    return out


CLASS_FAMILY = {"numberLiteral": "number", "numberFormat": "number", "numberValue": "number", "paramExpression": "number",
                "deepDocument": "deep", "deepTemplateBody": "deep", "deepParens": "deep", "deepPredicates": "deep", "deepSteps": "deep"}


def family(cls):
    return CLASS_FAMILY.get(cls, cls)


def symptom_key(ex, k):
    """semantic key of the rejected event ex[k]: (symptom and call site, class family)"""
    ev = ex[k]
    call = next((e for e in reversed(ex[:k]) if e.get("e") == "Call"), {})
    e = ev.get("e")
    if e == "Abort" and k > 0 and ex[k - 1].get("e") == "Return" and ev.get("why") in ("SIGSEGV", "SIGBUS", "sanitizer", "SIGILL", "SIGABRT"):
        # the call had returned: the crash is in the Probe, i.e. the object was left unusable; how the damaged object fails
        # (wild jump, overrun of whatever lies there) is not part of the finding
        r = ex[k - 1]
        obj = {"T": "XalanTransformer", "C": "XalanTransformer (C API)", "E": "XPathEvaluator", "X": "XPathEvaluator (XPath C API)"}.get(r.get("h"), "?")
        return "the next use of the %s crashes after a call that %s" % (obj, "reported an error" if r.get("status") != 0 else "succeeded")
    if e == "Abort":
        why, detail = ev.get("why", "?"), ev.get("detail", "")
        lib = library_frames(ev.get("frames", []))
        if why == "stack-overflow":
            # named by the classes whose member functions form the recursion cycle (which member is on top when the stack
            # runs out is incidental)
            cnt = collections.Counter(lib)
            cyc = sorted(f for f, n in cnt.items() if n >= 3) or sorted(set(lib[:6]))
            owners = sorted({f.rsplit("::", 1)[0] if "::" in f else f for f in cyc})
            return "stack-overflow: unbounded recursion in " + " / ".join(owners)
        if why == "sanitizer":
            kind = detail
            if detail == "ubsan":
                hs = [f for f in ev.get("frames", []) if f.startswith("__ubsan_handle_")]
                kind = "ubsan " + (re.sub(r"^__ubsan_handle_|_abort$|_v1_abort$", "", hs[0]) if hs else "")
                m = re.search(r"runtime error: ([^\\\n]{0,80})", ev.get("report", ""))
                if m:
                    kind = "ubsan: " + re.sub(r"0x[0-9a-f]+|-?\d[\d.e+]*", "N", m.group(1)).strip()
            return "%s: %s" % (kind.strip(), " < ".join(collapse(lib)[:3]) or "(no library frame)")
        if why == "exception":
            tn = detail.split(":")[-1] if detail else "?"
            d = demangle(["_ZTI" + tn])[0].replace("typeinfo for ", "") if re.match(r"^[A-Za-z0-9_]+$", tn) else tn
            d = re.sub(r"xalanc_\d+_\d+::", "", re.sub(r"xercesc_\d+_\d+::", "xercesc::", d))
            return "escaped exception %s from %s" % (d, call.get("op", "?"))
        if why == "timeout":
            return "timeout in %s: %s" % (call.get("op", "?"), " < ".join(collapse(lib)[:2]))
        return "%s: %s" % (why, " < ".join(collapse(lib)[:3]) or "(no library frame)")
    if e == "LeakCheck":
        fr = report_frames(ev.get("report", ""))
        return "leak: " + (" < ".join(collapse(fr)[:3]) or "(no library frame)")
    if e == "Exit":
        m = re.search(r"runtime error: ([^\\\n]{0,80})", ev.get("stderr", ""))
        return "died in %s (exit %s, signal %s)%s" % (call.get("op", "?"), ev.get("code"), ev.get("signal"), (": " + m.group(1)) if m else "")
    if e == "Return":
        if ev.get("status") == 0:
            return "accepted by " + ("the XPath entry points" if ev.get("h") in ("E", "X") else "the transformer entry points")
        if ev.get("msgEmpty") and ev.get("h") != "X":
            return "status %s with empty message from %s" % (ev.get("status"), ev.get("op"))
        msg = re.sub(r"\(Occurred.*$|expression = .*$|\d+", "", ev.get("msg", ""))[:60].strip()
        return "refused by %s: %s" % (ev.get("op"), msg)
    if e == "Probe":
        return "probe fails after %s (status %s)" % (call.get("op", "?"), ev.get("status"))
    return "protocol: " + e


def variant_of(it):
    """the part of the descriptor that names the variant inside its class (for accepted / refused keys)"""
    d = it["desc"]
    cls = d["cls"]
    if cls in ("missingRequiredAttribute", "unknownXslElement", "avtUnbalanced", "unknownOutputEncoding", "unknownXmlEncoding", "xmlDeclVersion", "longName"):
        return d.get("v", "")
    if cls == "nonExpression":
        return (d.get("kind", "") + " " + d.get("v", "")).strip()
    if cls in c03gen.CHAR_VARIANTS:
        return d.get("v", "") + " in " + d.get("kind", "")
    if cls in ("numberLiteral", "numberFormat", "numberValue"):
        return d.get("v", "").split("/")[0]
    if cls in c03gen.DEEP_V:
        return d.get("v", "")
    if cls == "unknownXslAttribute":
        t = c03gen.xsl_elems(c03gen.DOC_SEEDS[d["seed"]])[d["i"] - 1]
        return t[3]
    return ""


def finding_key(ex, k, it):
    sym = symptom_key(ex, k)
    e = ex[k].get("e")
    fam = family(it["cls"])
    if e == "Return":          # wrong status: the class and its variant ARE the finding
        v = variant_of(it)
        return "%s%s | %s" % (it["cls"], (" [" + v + "]") if v else "", sym)
    if sym.startswith("the next use of the"):      # whatever made the call fail
        return "* | " + sym
    call = next((x for x in reversed(ex[:k]) if x.get("e") == "Call"), None)
    if call is not None and call.get("cls") == "seed":       # the crash is in a call on a fixed well-formed input
        fam = "seed"
    elif sym.endswith("(no library frame)"):                  # no call site to name (wild jump): the variant of the class names the case
        v = variant_of(it)
        fam = "%s%s" % (it["cls"], (" [" + v + "]") if v else "")
    return "%s | %s" % (fam, sym)


# ---------------------------------------------------------------------------------------------------- run
def validate(execs, wd, tag):
    events = [ev for ex in execs for ev in ex]
    slim = []
    for ev in events:          # the trace spec does not read the bulky diagnostic fields
        if ev.get("e") in ("Abort", "LeakCheck", "Exit") and ("report" in ev or "stderr" in ev or "frames" in ev):
            ev = {k: v for k, v in ev.items() if k not in ("report", "stderr", "frames")}
        slim.append(ev)
    rejects, st = vlib.tlc_validate_sharded(TRACE, slim, shards=min(JOBS, max(1, len(execs) // 150)), tag=tag, timeout=3000)
    starts, pos = [], 0
    for ex in execs:
        starts.append(pos); pos += len(ex)
    out = {}
    for rj in rejects:
        e = bisect.bisect_right(starts, rj["line"]) - 1
        out[e] = {"k": rj["line"] - starts[e], "msg": rj["msg"]}
    return out, st


def run(res, tier, seed):
    quick = tier == "quick"
    wd = vlib.workdir("c03-%d" % os.getpid())
    t0 = time.time()
    stats = collections.Counter()
    ds = model_check(res, wd, quick)
    res.notes["descriptors_enumerated"] = len(ds)
    res.notes["t_mc_s"] = round(time.time() - t0, 1)
    sel = select(ds, quick, seed)
    inputs, items, fixed = build_inputs(sel, quick, seed, stats)
    cases = plan(items, quick, seed)
    exe = vlib.build_harness("c03", "asan", **HFLAGS)
    exe_plain = vlib.build_harness("c03", "hooks", **HFLAGS)
    res.notes["t_build_s"] = round(time.time() - t0, 1)
    known = {k["key"]: k for k in vlib.known_findings(PROP)}

    sweeps = [("asan", exe, cases)]
    # the Xerces-DOM scenarios again without sanitizers (under UBSan they end at the first successful parse, see known findings)
    plain = [dict(c) for c in cases if c["scen"] in XERCES_SCEN and c["d"] < 10000]
    for n, c in enumerate(plain):
        c["id"] = n
    sweeps.append(("hooks", exe_plain, plain))

    tot_exec, accepted, nt = 0, 0, set()
    per_class = collections.defaultdict(lambda: collections.Counter())
    per_op = collections.Counter()
    candidates = []
    for flavour, exe_, cs in sweeps:
        if not cs:
            continue
        execs = run_harness(exe_, cs, inputs, fixed, wd, flavour, flavour, timeout=1500 if quick else 9000)
        res.notes["t_run_%s_s" % flavour] = round(time.time() - t0, 1)
        rejects, st = validate(execs, wd, "c03tv-" + flavour)
        res.notes["tv_states"] = res.notes.get("tv_states", 0) + st["tv_states"]
        # a leak is looked for when a child ends: a child that ends with a leak runs again with a check after every execution,
        # so that the leak is attributed to the execution that caused it
        dirty = sorted({execs[n][0]["child"] for n, r in rejects.items() if execs[n][r["k"]].get("e") == "LeakCheck"})
        for child in dirty[:60]:
            idx = [n for n, ex in enumerate(execs) if ex[0]["child"] == child]
            cs2 = [dict(cs[n], id=j, leak=True) for j, n in enumerate(idx)]
            ex2 = run_harness(exe_, cs2, inputs, fixed, wd, "%s-leak-%s" % (flavour, child), flavour, batch=len(cs2) + 1, timeout=1500)
            rej2, st2 = validate(ex2, wd, "c03tv-%s-leak-%s" % (flavour, child))
            res.notes["tv_states"] += st2["tv_states"]
            stats["children_rerun_for_leak_attribution"] += 1
            for j, n in enumerate(idx):
                execs[n] = ex2[j]
                rejects.pop(n, None)
                if j in rej2:
                    rejects[n] = rej2[j]
        res.notes["t_tv_%s_s" % flavour] = round(time.time() - t0, 1)
        for n, (c, ex) in enumerate(zip(cs, execs)):
            it = c["item"]
            tot_exec += 1
            pc = per_class[it["cls"]]
            pc["executions"] += 1
            for ev in ex:
                if ev.get("e") == "Call":
                    per_op[ev["h"] + "." + ev["op"]] += 1
                elif ev.get("e") == "Return" and ev.get("status") != 0:
                    pc["failed_calls"] += 1
            if it["cls"] != "seed" and any(ev.get("e") == "Return" for ev in ex):
                nt.add((c["scen"], flavour, it["in"]))
            if n not in rejects:
                accepted += 1
                pc["accepted"] += 1
                if it["cls"] not in ("seed", "truncate") and len(res.cov["samples"]) < 4 and (n % 211) == 7:
                    res.sample(sample_of(ex, inputs[it["in"]], it))
                continue
            rj = rejects[n]
            key = finding_key(ex, rj["k"], it)
            hit = known.get(key)
            if hit is None and it["cls"] == "fuzz":       # fuzzed bytes: the same symptom and call site under any class
                suffix = key.split(" | ", 1)[1]
                hit = next((v for kk, v in sorted(known.items()) if kk.split(" | ", 1)[-1] == suffix), None)
            if hit is not None:
                res.known(hit)
                pc["known"] += 1
                res.notes.setdefault("known_classes_seen", {}).setdefault(hit["key"], 0)
                res.notes["known_classes_seen"][hit["key"]] += 1
            else:
                pc["rejected_unlisted"] += 1
                candidates.append((key, rj, c, ex, flavour))
    # ---- an unlisted rejection is reported if it repeats when the execution is run again on its own
    res.notes["rejected_not_known"] = len(candidates)
    vlib.log("c03: %d executions, %d rejected and not listed, %.0f s" % (tot_exec, len(candidates), time.time() - t0))
    seen_keys = collections.Counter()
    confirm = []
    for cand in candidates:
        seen_keys[cand[0]] += 1
        if seen_keys[cand[0]] <= 3:
            confirm.append(cand)
    res.notes["unlisted_classes"] = {k: n for k, n in sorted(seen_keys.items())}
    confirm = confirm[:40]
    for flavour, exe_ in (("asan", exe), ("hooks", exe_plain)):
        group = [x for x in confirm if x[4] == flavour]
        if not group:
            continue
        cs1 = [dict(x[2], id=j, solo=True, leak=True) for j, x in enumerate(group)]
        ex2 = run_harness(exe_, cs1, inputs, fixed, wd, "confirm-" + flavour, flavour, batch=1, timeout=3000)
        rej2, _ = validate(ex2, wd, "c03tv-confirm-" + flavour)
        for j, (key, rj, c, ex, fl) in enumerate(group):
            it = c["item"]
            if j not in rej2:
                res.notes.setdefault("unrepeatable", []).append(key)
                continue
            key2 = finding_key(ex2[j], rej2[j]["k"], it)
            cut = [dict(ev) for ev in ex2[j][:rej2[j]["k"] + 1]]
            cut[0]["replay"] = {"case": {k: v for k, v in cs1[j].items() if k != "item"}, "input_hex": inputs[it["in"]].hex(), "descriptor": it["desc"], "key": key2}
            res.violation("%s | key %s" % (rej2[j]["msg"][:300], key2), cut)
    res.cov["evaluations"] = tot_exec
    res.cov["traces_validated_against_impl"] = accepted
    res.cov["distinct_nontrivial"] = len(nt)
    res.cov["exhaustive"] = False
    res.cov["rule"] = (
        "one evaluation = one execution: one input through one entry-point scenario (1-5 API calls, a Probe after each, a leak check at the end) in a "
        "sanitizer-instrumented process. Inputs: the case descriptors enumerated by TLC from MC_ApiProtocol!Cases (%d descriptors; %s tier renders %d of them: "
        "all of the small classes, a seed-offset stride of the position-indexed ones) + every XPath-role input again inside a stylesheet + %d seeded byte-level "
        "fuzz inputs (VERIF_SEED=%d). Scenarios: %s. non-trivial = the input is not an unmodified seed and the call under test returned; distinct = by "
        "(scenario, build flavour, input bytes)" % (len(ds), tier, len(sel), sum(1 for i in items if i["cls"] == "fuzz"), seed,
                                                     "every scenario for the first four inputs of each class, five round-robin scenarios for the others (two for depth >= 10000)" if not quick else
                                                     "every scenario for the first input of each class, three round-robin scenarios for the others"))
    res.notes["inputs"] = len(inputs)
    res.notes["per_class"] = {k: dict(v) for k, v in sorted(per_class.items())}
    res.notes["per_entry_point_calls"] = dict(sorted(per_op.items()))
    res.notes["generator"] = dict(stats)
    res.notes["t_total_s"] = round(time.time() - t0, 1)
    res.assumptions += [
        "TLA+ does not decide memory safety: AddressSanitizer / UndefinedBehaviorSanitizer / LeakSanitizer are the observation instrument that turns an "
        "out-of-bounds access, undefined behaviour or a leak into an Abort event (a missing Return); the claim is bounded by the inputs executed (level: exploration)",
        "input classes are mutations of fixed well-formed seeds enumerated by MC_ApiProtocol!Cases; the byte-level fuzz inputs lie outside the spec's classes (verdict: either outcome, no Abort)",
        "the verdict of a class (must succeed / must fail / either) is ApiProtocol!Verdict; tools/c03gen.py only renders descriptors, cross-checked with expat for well-formedness (mismatches dropped and counted in coverage.generator)",
        "non-terminating stylesheets (unbounded recursion of templates / variables) are programs, not malformed input: excluded; nesting depth of documents, template bodies and expressions IS input",
        "nesting depth above 100 may be refused with a reported error (verdict either); a time-out is 60 s per execution (120 s for depth >= 10000) on a loaded machine",
        "the XPath C API has no message channel (status code only); XPathEvaluator reports by documented exceptions (XSLException, SAXException, XMLException, XalanDOMException), mapped to the transformer's status numbers",
        "an unlisted rejection is reported as a VIOLATION only if it repeats when its execution is run again in a process of its own (listed under coverage.unrepeatable otherwise)",
        "call sites are the top three distinct xalanc:: / xercesc:: frames of the -O1 sanitizer build (template arguments stripped); a stack overflow is named by the functions of its recursion cycle",
        "the Xerces-DOM scenarios also run without sanitizers because under UBSan they end at the first successful parse (known finding)",
    ]


def sample_of(ex, b, it):
    txt = b[:160].decode("utf-8", "replace")
    return {"class": it["cls"], "role": it["role"], "descriptor": it["desc"], "input_prefix": txt, "input_bytes": len(b),
            "events": [{k: v for k, v in ev.items() if k not in ("report", "stderr", "frames", "msg")} for ev in ex[:8]]}


def replay(path):
    """re-run the recorded execution (its Reset event carries the case and the input) on the current build and validate it;
    without that information validate the recorded events"""
    events = vlib.read_ndjson(path)
    wd = vlib.workdir("c03-replay-%d" % os.getpid())
    rp = events[0].get("replay") if events else None
    if rp:
        flavour = events[0].get("build", "asan")
        exe = vlib.build_harness("c03", flavour, **HFLAGS)
        inputs = [c03gen.DOC_SEEDS[c03gen.SEED_XML].encode("utf-8"), c03gen.DOC_SEEDS[c03gen.SEED_XSL].encode("utf-8"), c03gen.PARAM_XSL.encode("utf-8"),
                  bytes.fromhex(rp["input_hex"])]
        c = dict(rp["case"], id=0)
        c["in"] = 3
        c["item"] = None
        execs = run_harness(exe, [c], inputs, {"seedXml": 0, "seedXsl": 1, "paramXsl": 2}, wd, "replay", flavour, batch=1, timeout=600)
    else:
        evs = [dict(e) for e in events]
        if not evs or evs[-1].get("e") != "Exit":
            evs.append({"e": "Exit", "normal": False, "how": "recorded slice", "code": -1, "signal": 0})
        execs = [evs]
    rej, _ = validate(execs, wd, "c03tv-replay")
    for n, r in sorted(rej.items()):
        print("REJECTED event %d: %s" % (r["k"], r["msg"][:400]))
        ev = execs[n][r["k"]]
        if ev.get("e") == "Abort":
            print("  call site: " + " < ".join(collapse(library_frames(ev.get("frames", [])))[:5]))
    if not rej:
        print("accepted: the execution is a behaviour of ApiProtocol.tla")
    return 1 if rej else 0
