"""C06 - a reused XalanTransformer behaves like a fresh one: no state leaks between calls.
MC : MC_Transformer - XalanTransformer's bookkeeping (TransformerImpl, transcribed) refines the abstract life cycle
     Transformer.tla for all bounded call histories; the two known deviations are kept out and shown real.
GEN: the same model exports one shortest call history per view (abstract state, implementation-shaped state,
     previous transformation, last call) with `tlc -dump`; thorough adds seeded random long histories.
RUN: harness/c06.cpp replays every history on ONE XalanTransformer and every distinct (stylesheet, source, params,
     functions) tuple on a newly constructed one (Fresh events).
TV : Trace_C06.tla accepts an execution iff every event is a step of Transformer.tla (each Transform returns the
     oracle entry learned from the Fresh events: status, output bytes, error text; getLastError() emptiness)."""
import bisect, json, os, random, shutil, subprocess, time
from concurrent.futures import ThreadPoolExecutor
import vlib, tlaparse
from vlib import ROOT
from props.c06_pool import POOL

PROP = "C06"
MC = os.path.join(ROOT, "spec/mc/MC_Transformer.tla")
TRACE = os.path.join(ROOT, "spec/trace/Trace_C06.tla")
ALL_SS = ["S1", "S2", "S3", "S4", "S5", "S6", "S7", "S8", "S9", "SD1", "SD2", "SE", "SU", "SM", "SX", "SV"]
ALL_SRC = ["D1", "D2", "DX"]
CLASSES = {"ok", "terminated", "xpathError", "extError", "encoding", "unserializable", "missingDoc",
           "malformedSS", "invalidSS", "malformedSrc"}
EXPR_VALS = {"str"}          # PoolExprVals of TransformerPool.tla
STATUS_CALLS = ("Compile", "Parse", "Transform")


def tla_set(xs):
    return "{" + ", ".join('"%s"' % x for x in xs) + "}"


def cfg_text(c, check):
    s = ["SPECIFICATION MCSpec", "CONSTANTS", "  PNames <- PoolPNames", "  PVals <- PoolPVals", "  FNames <- PoolFNames",
         "  MaxHist = %d" % c["hist"], "  MaxH = %d" % c["maxh"], "  CompileDocs = " + tla_set(c["compile"]),
         "  ParseDocs = " + tla_set(c["parse"]), "  InlineSS = " + tla_set(c["inline_ss"]), "  InlineSrc = " + tla_set(c["inline_src"]),
         "  Vals = " + tla_set(c["vals"]), "  Fns = " + tla_set(c.get("fns", ["f"])), "VIEW " + ("ViewMC" if check else "View")]
    if check:
        s += ["INVARIANT Refinement", "INVARIANT TypeInv", "INVARIANT ImplAgrees", "INVARIANT OracleDeterministic", "PROPERTY Sticky"]
    return "\n".join(s) + "\n"


# ------------------------------------------------------------------------------------------ histories
def changes_overload(ops):
    """the history sets a parameter through the XObjectPtr / double overload while an expression string set earlier for
    the same name is still in place, and transforms afterwards (round 1 found the new value ignored; repaired in /repo)"""
    expr, hit = set(), False
    for op in ops:
        if op["op"] == "SetParam":
            if op["v"] in EXPR_VALS:
                expr.add(op["k"])
            elif op["k"] in expr:
                expr.discard(op["k"]); hit = True
        elif op["op"] == "ClearParams":
            expr = set()
        elif op["op"] == "Transform" and hit:
            return True
    return False


def random_history(rng, n, c):
    """a legal call history of length n (handles live); deeper than the TLC-exported ones"""
    ops, live_ss, live_src, nss, nsrc, expr, cur, fn = [], [], [], 0, 0, set(), {}, {"f": False, "g": False, "h": False}
    ok_ss = [d for d in ALL_SS if d not in ("SX", "SV")]
    while len(ops) < n:
        r = rng.random()
        if r < 0.08 and nss < 4:
            d = rng.choice(c["compile"]); ops.append({"op": "Compile", "ss": d})
            if d in ok_ss:
                nss += 1; live_ss.append(nss)
        elif r < 0.14 and nsrc < 4:
            d = rng.choice(c["parse"]); ops.append({"op": "Parse", "src": d})
            if d != "DX":
                nsrc += 1; live_src.append(nsrc)
        elif r < 0.24:
            v = rng.choice(c["vals"] + ["nz", "pz"])
            ops.append({"op": "SetParam", "k": "p", "v": v}); cur["p"] = v
            if v in EXPR_VALS:
                expr.add("p")
        elif r < 0.28:
            ops.append({"op": "ClearParams"}); expr, cur = set(), {}
        elif r < 0.36:
            f_ = rng.choice(["f", "f", "g", "h"])
            fn[f_] = not fn[f_]; ops.append({"op": "InstallFn" if fn[f_] else "UninstallFn", "f": f_})
        elif r < 0.40 and live_ss:
            h = rng.choice(live_ss); live_ss.remove(h); ops.append({"op": "DestroySS", "h": h})
        elif r < 0.44 and live_src:
            h = rng.choice(live_src); live_src.remove(h); ops.append({"op": "DestroySrc", "h": h})
        else:
            ss = {"k": "h", "h": rng.choice(live_ss)} if live_ss and rng.random() < 0.4 else {"k": "i", "d": rng.choice(ALL_SS)}
            src = {"k": "h", "h": rng.choice(live_src)} if live_src and rng.random() < 0.4 else {"k": "i", "d": rng.choice(ALL_SRC if rng.random() < 0.3 else ALL_SRC[:2])}
            ops.append({"op": "Transform", "ss": ss, "src": src})
    return ops


# ------------------------------------------------------------------------------------------ running
def run_harness(exe, wd, pool, cases, procs, timeout, tag="run", max_restarts=4):
    """runs the cases in `procs` parallel harness processes; returns (events, crashes) where a crash is
    (message, events of the execution that was running).  After a crash the process is restarted behind the
    crashing case (a few times), so that one crashing history does not hide the others."""
    procs = max(1, min(procs, len(cases)))
    per = (len(cases) + procs - 1) // procs
    env = dict(os.environ, ASAN_OPTIONS="detect_leaks=0:abort_on_error=0", UBSAN_OPTIONS="print_stacktrace=1")

    def one(i):
        chunk = cases[i * per:(i + 1) * per]
        evs, crashes, attempt = [], [], 0
        deadline = time.time() + timeout
        while chunk:
            cp = os.path.join(wd, "%s-cases-%d-%d.ndjson" % (tag, i, attempt))
            tp = os.path.join(wd, "%s-trace-%d-%d.ndjson" % (tag, i, attempt))
            vlib.write_ndjson(cp, [{"pool": pool}] + chunk)
            with open(tp, "w") as f:
                try:
                    r = subprocess.run([exe, cp], stdout=f, stderr=subprocess.PIPE, text=True, timeout=max(5, deadline - time.time()), env=env)
                    rc, err = r.returncode, r.stderr
                except subprocess.TimeoutExpired:
                    rc, err = 124, "time-out after %ds" % timeout
            got = []
            with open(tp) as f:
                for line in f:
                    try:
                        got.append(json.loads(line))
                    except ValueError:
                        pass                               # a line cut short by the crash
            if rc == 0:
                evs += got
                break
            if rc == 2 and not ("Sanitizer" in err or "runtime error" in err):
                raise vlib.Infra("harness c06 refused its input: " + err[-600:])
            execs = vlib.split_executions(got)
            lastex = execs[-1] if execs else []
            crashes.append(("harness terminated abnormally while replaying a legal history (rc=%d): %s" % (rc, " ".join(err.split())[:400]), lastex))
            evs += [e for ex_ in execs[:-1] for e in ex_]
            done = max(1, len(execs))                      # cases started, the last one crashed
            chunk = chunk[done:]
            attempt += 1
            if attempt > max_restarts or rc == 124:
                break
        return evs, crashes

    events, crashes = [], []
    n = (len(cases) + per - 1) // per
    with ThreadPoolExecutor(max_workers=n) as ex:
        for evs, cr in ex.map(one, range(n)):
            events += evs
            crashes += cr
    return events, crashes


def ops_of(ex):
    """the call history of a recorded execution"""
    ops = []
    for ev in ex:
        e = ev["e"]
        if e in ("Reset", "Fresh"):
            continue
        op = {"op": e}
        for k in ("ss", "src", "k", "v", "f"):
            if k in ev:
                op[k] = ev[k]
        if e in ("DestroySS", "DestroySrc"):
            op["h"] = ev["h"]
        ops.append(op)
    return ops


def nontrivial(ex):
    """a failing call followed by a succeeding Transform, or a parameter / function change between two transforms"""
    failed = seen_t = changed = False
    for ev in ex:
        e = ev["e"]
        if e in STATUS_CALLS and ev["status"] != 0:
            failed = True
        if e == "Transform":
            if (failed and ev["status"] == 0) or (seen_t and changed):
                return True
            seen_t, changed = True, False
        if e in ("SetParam", "ClearParams", "InstallFn", "UninstallFn") and seen_t:
            changed = True
    return False


# entries of the residue vector of hook H1 (hooks/H1-residue.patch), in the order verifResidue() appends them
RESIDUE_NAMES = ["m_variablesStack", "m_elementRecursionStack", "m_formatterListeners", "m_printWriters", "m_outputStreams",
                 "m_matchPatternCache", "m_keyTables", "m_countersTable", "m_sourceTreeResultTreeFactory", "m_mode",
                 "m_currentTemplateStack", "m_rootDocument", "m_stylesheetRoot", "m_xsltProcessor", "m_copyTextNodesOnlyStack",
                 "m_modeStack", "m_currentIndexStack", "m_xobjectPtrStack", "m_paramsVectorStack", "m_nodesToTransformStack",
                 "m_processCurrentAttributeStack", "m_skipElementAttributesStack", "m_executeIfStack", "m_elementInvokerStack",
                 "m_useAttributeSetIndexesStack", "m_mutableNodeRefListStack(in use)", "m_stringStack(in use)",
                 "m_formatterToTextStack(in use)", "m_formatterToSourceTreeStack(in use)", "xpath.m_currentNodeStack",
                 "xpath.m_contextNodeListStack", "xpath.m_prefixResolver", "xpath.m_xpathEnvSupport", "xpath.m_domSupport",
                 "xpath.m_xobjectFactory"]
OBJ_STACKS = {i for i, n in enumerate(RESIDUE_NAMES) if n.endswith("(in use)")}


def residue0_of(ex):
    for ev in ex:
        if ev["e"] == "New":
            return ev.get("residue")
    return None


def residue_diff(ex, k):
    r0, r = residue0_of(ex), ex[k].get("residue")
    if r0 is None or r is None or len(r0) != len(r):
        return None
    return {i for i in range(len(r)) if r[i] != r0[i]}


def mask_objstacks(ex):
    r0 = residue0_of(ex)
    out = []
    for ev in ex:
        if r0 is not None and "residue" in ev and ev["e"] != "New" and len(ev["residue"]) == len(r0):
            ev = dict(ev, residue=[r0[i] if i in OBJ_STACKS else x for i, x in enumerate(ev["residue"])])
        out.append(ev)
    return out


# a known deviation that does not change what the transformer does next (and is visible only through hook H1): the rest
# of such an execution is validated again with exactly the deviating entries of the residue vector withheld
MASKS = {"objectStackCachePositionKept": mask_objstacks}


def validate(res, events, known, tag):
    """TV, repeated for executions that were rejected at a known, maskable deviation; returns (executions, accepted)"""
    execs = vlib.split_executions(events)
    fresh = {}
    for ev in events:
        if ev["e"] == "Fresh":
            fresh[(ev["ss"], ev["src"], json.dumps(ev["params"], sort_keys=True), json.dumps(ev["fns"], sort_keys=True))] = (ev["status"], ev["out"])
    masks = {}                                   # execution number -> set of mask keys
    todo = list(range(len(execs)))
    bad = set()
    res.notes.setdefault("tv_states", 0)
    for rnd in range(len(MASKS) + 1):
        if not todo:
            break
        cur, starts, pos = [], [], 0
        for e in todo:
            ex = execs[e]
            for mk in sorted(masks.get(e, ())):
                ex = MASKS[mk](ex)
            cur.append(ex); starts.append(pos); pos += len(ex)
        rejects, st = vlib.tlc_validate_sharded(TRACE, [ev for ex in cur for ev in ex], tag=tag + str(rnd))
        res.notes["tv_states"] += st["tv_states"]
        if rnd:
            res.notes["revalidated_after_known_deviation"] = res.notes.get("revalidated_after_known_deviation", 0) + len(todo)
        nxt = []
        for rj in rejects:
            j = bisect.bisect_right(starts, rj["line"]) - 1
            e, k = todo[j], rj["line"] - starts[j]
            key = classify(execs[e], k, rj, fresh)
            if key in MASKS and key in known and key not in masks.get(e, ()):
                res.known(known[key])
                masks.setdefault(e, set()).add(key)
                nxt.append(e)
            elif key and key not in MASKS and key in known:
                res.known(known[key]); bad.add(e)
            else:
                msg = rj["msg"][:300]
                d = residue_diff(execs[e], k) if "residue:" in rj["msg"] else None
                if d:
                    msg = "%s: residue left behind in %s" % (execs[e][k]["e"], ", ".join("%s=%d" % (RESIDUE_NAMES[i] if i < len(RESIDUE_NAMES) else "entry %d" % i, execs[e][k]["residue"][i]) for i in sorted(d)))
                res.violation(msg, execs[e][:k + 1]); bad.add(e)
        todo = nxt
    return execs, len(execs) - len(bad)


def classify(ex, k, rj, fresh):
    """semantic key of a rejected event, or None"""
    if "residue:" in rj["msg"]:
        d = residue_diff(ex, k)
        failed_before = any(e["e"] == "Transform" and e["status"] != 0 for e in ex[:k + 1])
        if d and d <= OBJ_STACKS and failed_before:
            return "objectStackCachePositionKept"
        return None
    return None


# ------------------------------------------------------------------------------------------------ run
RICH = ["S1", "S2", "S3", "S4"]
NO_FMT = [d for d in ALL_SS if d not in ("SD1", "SD2")]        # SD1 / SD2 have their own small alphabet (`fmt`)


def constants(tier):
    """mc: design check.  gens: history exports - `life`: the full life-cycle alphabet (compile / parse / destroy / params /
    functions / transform) over the state-heavy stylesheets; `deep`: longer histories over a reduced alphabet (one or two
    compiled stylesheets, no parsed sources: the handle dimension is what makes the view count grow); `roles`: short
    histories over every document of the pool; `vars`: one compiled S5 / S6 (failure inside the lazy evaluation of a
    top-level variable) used repeatedly while the sticky parameter changes; `fmt`: SD1 / SD2 (and S3, which also formats
    numbers) in every order, inline and compiled - value-keyed caches that outlive a call; `sort`: S7 (a sort whose key evaluation fails
    part-way, in a text-keyed or a number-keyed sort depending on the parameter) and S2 (sorts of its own) on sources of different sizes.  kd: small alphabet with all three
    setStylesheetParam overloads, of which the histories that switch from the expression to a value overload are kept."""
    if tier == "quick":
        mc = dict(hist=6, maxh=1, compile=["S2", "S3", "SX"], parse=["D1", "D2", "DX"], inline_ss=NO_FMT, inline_src=ALL_SRC, vals=["str", "num"])
        gens = [("life", dict(mc, hist=4, inline_ss=RICH + ["SX"])),
                ("deep", dict(mc, hist=6, compile=["S2"], parse=[], inline_ss=RICH + ["SV"], inline_src=["D1", "D2"])),
                ("roles", dict(mc, hist=3, maxh=0)),
                ("vars", dict(mc, hist=5, compile=["S5", "S6"], parse=[], inline_ss=["S5", "S6", "S1"], inline_src=["D1"])),
                ("fmt", dict(mc, hist=4, compile=["SD1", "SD2"], parse=[], inline_ss=["S1", "S3", "SD1", "SD2"], inline_src=["D1"], vals=[])),
                ("sort", dict(mc, hist=5, compile=["S7"], parse=[], inline_ss=["S7", "S2"], inline_src=["D1", "D2"])),
                ("rtf", dict(mc, hist=5, compile=["S8"], parse=[], inline_ss=["S8", "S3"], inline_src=["D1", "D2"])),
                ("zeros", dict(mc, hist=4, compile=[], parse=[], inline_ss=["S1"], inline_src=["D1"], vals=["nz", "pz", "num"], fns=[])),
                ("fns2", dict(mc, hist=5, compile=[], parse=[], inline_ss=["S4", "S9"], inline_src=["D1"], vals=[], fns=["f", "g", "h"]))]
        kd = dict(mc, hist=4, compile=["S3"], parse=["D1"], inline_ss=["S1", "S2", "S4"], inline_src=["D1"], vals=["str", "num", "obj"])
    else:
        mc = dict(hist=6, maxh=2, compile=["S2", "S3", "S4", "SX"], parse=["D1", "D2", "DX"], inline_ss=NO_FMT, inline_src=ALL_SRC, vals=["str", "num", "obj"])
        gens = [("life", dict(mc, hist=5, maxh=1, inline_ss=RICH + ["SX", "SM"], vals=["str", "num"])),
                ("life2", dict(mc, hist=5, maxh=2, compile=["S2", "S3"], parse=["D1", "D2"], inline_ss=["S2", "S3"], inline_src=["D1", "D2"], vals=["str", "num"])),
                ("deep", dict(mc, hist=8, maxh=1, compile=["S2", "S3"], parse=[], inline_ss=RICH + ["SV", "SM"], inline_src=["D1", "D2"])),
                ("roles", dict(mc, hist=4, maxh=0)),
                ("vars", dict(mc, hist=7, maxh=1, compile=["S5", "S6"], parse=["D1"], inline_ss=["S5", "S6", "S1", "S2"], inline_src=["D1", "D2"])),
                ("fmt", dict(mc, hist=5, maxh=2, compile=["SD1", "SD2"], parse=["D1"], inline_ss=["S1", "S3", "SD1", "SD2"], inline_src=["D1", "D2"], vals=["str"])),
                ("sort", dict(mc, hist=6, maxh=1, compile=["S7"], parse=["D1"], inline_ss=["S7", "S2", "S3"], inline_src=["D1", "D2"])),
                ("rtf", dict(mc, hist=6, maxh=1, compile=["S8"], parse=["D1"], inline_ss=["S8", "S2", "S3"], inline_src=["D1", "D2"])),
                ("zeros", dict(mc, hist=6, maxh=1, compile=["S1"], parse=[], inline_ss=["S1", "S9"], inline_src=["D1"], vals=["nz", "pz", "num", "str"], fns=["g"])),
                ("fns2", dict(mc, hist=7, maxh=1, compile=["S9"], parse=[], inline_ss=["S4", "S9"], inline_src=["D1"], vals=[], fns=["f", "g", "h"]))]
        kd = dict(mc, hist=5, maxh=1, compile=["S3"], parse=["D1"], inline_ss=["S1", "S2", "S4"], inline_src=["D1"])
    return mc, gens, kd


def gen_histories(wd, name, c, timeout):
    cfg = os.path.join(wd, name + ".cfg")
    open(cfg, "w").write(cfg_text(c, False))
    dump = os.path.join(wd, name)
    r = vlib.tlc(MC, cfg, workers=1, name="c06" + name, timeout=timeout, extra=["-dump", dump, "-noGenerateSpecTE"])
    if not r["ok"]:
        raise vlib.Infra("GEN failed: " + r["out"][-3000:])
    hs, classes = [], set()
    for s in tlaparse.read_dump(dump + ".dump", only={"hist", "resid"}):
        classes.add(s["resid"]["class"])
        if s["hist"]:
            hs.append(s["hist"])
    os.remove(dump + ".dump")
    return hs, classes, r


def run(res, tier, seed):
    quick = tier == "quick"
    wd = vlib.workdir("c06-%d" % os.getpid())
    mcc, gens, kdc = constants(tier)
    # ---- MC: the design (known deviations kept out, and shown real); concurrently
    # ---- GEN: histories without parameter shadowing (several alphabets), and histories that contain it
    cfg = os.path.join(wd, "mc.cfg")
    open(cfg, "w").write(cfg_text(mcc, True))
    t0 = time.time()
    with ThreadPoolExecutor(max_workers=len(gens) + 2) as pool_:
        fmc = pool_.submit(vlib.tlc_mc, MC, cfg, name="c06mc", timeout=1500, extra=["-noGenerateSpecTE"], workers=max(2, vlib.NCPU // 2))
        fg = [(name, c, pool_.submit(gen_histories, wd, "gen_" + name, c, 1500)) for name, c in gens]
        fkd = pool_.submit(gen_histories, wd, "gen_overloads", kdc, 600)
        r = fmc.result()
        res.add_mc(r, "MC_Transformer hist<=%d handles<=%d" % (mcc["hist"], mcc["maxh"]))
        classes, pools, res.notes["gen"] = set(), [], {}
        for name, c, f in fg:
            hs, cl, rg = f.result()
            classes |= cl
            pools.append(hs)
            res.notes["gen"][name] = {"views": rg["distinct"], "histories": len(hs), "MaxHist": c["hist"], "MaxH": c["maxh"],
                                      "stylesheets": len(set(c["inline_ss"]) | set(c["compile"])), "values": c["vals"]}
        hsB = [h for h in fkd.result()[0] if changes_overload(h)]
    res.notes["gen"]["overload_change"] = {"histories": len(hsB)}
    pools.append(hsB)
    missing = CLASSES - classes
    if missing:
        raise vlib.Infra("vacuity: the generated histories never reach outcome class(es) %s" % sorted(missing))
    res.notes["outcome_classes_generated"] = sorted(classes - {"none"})
    hists, seen = [], set()
    for h in [h for hs in pools for h in hs]:
        k = vlib.canon_hash(h)
        if k not in seen:
            seen.add(k); hists.append(h)
    vlib.log("c06: MC %.1fs + GEN, together %.1fs (%s histories, %d distinct)" % (r["wall"], time.time() - t0, " + ".join(str(len(x)) for x in pools), len(hists))); t0 = time.time()
    if not quick:
        rng = random.Random(seed)
        hists += [random_history(rng, rng.randint(10, 24), mcc) for _ in range(4000)]
        res.notes["gen"]["random_long"] = {"histories": 4000, "calls_each": "10-24", "seed": seed}
    cases = [{"id": i + 1, "ops": h} for i, h in enumerate(hists)]
    # ---- RUN
    flavour = "hooks" if quick else "asan"
    exe = vlib.build_harness("c06", flavour)
    docs = os.path.join(wd, "docs")
    os.makedirs(docs, exist_ok=True)
    for k, v in POOL["ss"].items():
        open(os.path.join(docs, k + ".xsl"), "w").write(v)
    pool = dict(POOL, base=docs)
    events, crashes = run_harness(exe, wd, pool, cases, 6 if quick else 12, 600 if quick else 1500)
    for what, ex in crashes:
        res.violation(what, ex)
    # one more execution: every distinct answer of a fresh transformer seen in this run; TLC rejects it if one tuple got two
    distinct_fresh = {}
    for ev in events:
        if ev["e"] == "Fresh":
            distinct_fresh.setdefault(vlib.canon_hash(ev), ev)
    if distinct_fresh:
        events += [{"e": "Reset", "case": 0, "what": "all distinct Fresh events of the run"}] + [distinct_fresh[k] for k in sorted(distinct_fresh)]
    vlib.log("c06: RUN %.1fs (%d events)" % (time.time() - t0, len(events))); t0 = time.time()
    # ---- TV
    known = {k["key"]: k for k in vlib.known_findings(PROP)}
    execs, accepted = validate(res, events, known, "c06tv")
    vlib.log("c06: TV %.1fs" % (time.time() - t0))
    res.cov["evaluations"] = len(execs)
    res.cov["traces_validated_against_impl"] = accepted
    calls = sum(1 for ev in events if ev["e"] not in ("Reset", "Fresh"))
    transforms = [ev for ev in events if ev["e"] == "Transform"]
    tuples = {(ev["ss"], ev["src"], json.dumps(ev["params"], sort_keys=True), json.dumps(ev["fns"], sort_keys=True)): ev["status"]
              for ev in events if ev["e"] == "Fresh"}
    res.notes["replayed"] = {"histories": len(execs), "calls": calls, "transforms": len(transforms),
                             "failed_transforms": sum(1 for ev in transforms if ev["status"] != 0),
                             "distinct_fresh_tuples": len(tuples), "flavour": flavour,
                             "residue_hook": any("residue" in ev for ev in events[:50])}
    nt = {vlib.canon_hash(ops_of(ex)) for ex in execs if nontrivial(ex)}
    res.cov["distinct_nontrivial"] = len(nt)
    res.cov["rule"] = ("one shortest call history per view (abstract state, implementation-shaped bookkeeping, previous and "
                       "last-but-one transformation, last call) of the TLC state graphs of MC_Transformer for the alphabets %s over "
                       "%d stylesheets x %d sources x parameter values %s x 1 extension function%s, each replayed on one XalanTransformer; "
                       "non-trivial = a failing call is followed by a succeeding Transform on the same transformer, or a parameter / "
                       "function change lies between two transforms; distinct by hash of the call history"
                       % (", ".join("%s(MaxHist=%d,MaxH=%d)" % (n, c["hist"], c["maxh"]) for n, c in gens), len(ALL_SS), len(ALL_SRC),
                          "/".join(mcc["vals"]), "" if quick else " plus seeded random histories of 10-24 calls"))
    for ex in [e for e in execs if nontrivial(e)][:: max(1, len(nt) // 3)][:3]:
        res.sample([dict((a, (b[:80] + "...") if isinstance(b, str) and len(b) > 80 else b) for a, b in ev.items()) for ev in ex])
    res.assumptions += [
        "the XSLT engine is an uninterpreted deterministic function in MC_Transformer; what it returns on the real code is learned from Fresh events (same call on a newly constructed transformer in the same process), never predicted",
        "the role of each pool document (which outcome class it produces) is checked against the status of every Fresh event",
        "process-global state shared by all transformers (function tables, ICU) is outside the comparison: a leak there affects the fresh transformer alike",
        "the two deviations found in round 1 (parameter value shadowed by an older expression string, stale error message) are repaired in /repo: no special handling, a recurrence is a violation"]
    if not os.environ.get("VERIF_KEEP"):
        shutil.rmtree(wd, ignore_errors=True)


def replay(path):
    """re-runs the recorded call history on the current build of $VERIF_REPO and validates the new trace"""
    events = vlib.read_ndjson(path)
    execs = vlib.split_executions(events)
    wd = vlib.workdir("c06replay-%d" % os.getpid())
    docs = os.path.join(wd, "docs"); os.makedirs(docs, exist_ok=True)
    for k, v in POOL["ss"].items():
        open(os.path.join(docs, k + ".xsl"), "w").write(v)
    exe = vlib.build_harness("c06", os.environ.get("VERIF_FLAVOUR", "hooks"))
    cases = [{"id": i + 1, "ops": ops_of(ex)} for i, ex in enumerate(execs)]
    ev, crashes = run_harness(exe, wd, dict(POOL, base=docs), cases, 1, 600)
    for what, ex in crashes:
        print("CRASH: " + what)
    rejects, _ = vlib.tlc_validate_sharded(TRACE, ev, shards=1, tag="c06replay") if ev else ([], None)
    for r in rejects:
        print("REJECTED line %d: %s\n   %s" % (r["line"], r["msg"], json.dumps(ev[r["line"]])[:600]))
    shutil.rmtree(wd, ignore_errors=True)
    return 1 if rejects or crashes else 0
