"""C18 - number/string conversions follow XPath 1.0 and round-trip exactly.
MC : Numeral.tla - the DFA IsNumber equals the declaratively written grammar on every string of length <= 5/6 over
     the class alphabet; Canon is idempotent, inside the output grammar and equal to an integer-arithmetic rendering;
     Round/Floor/Ceiling laws; the binary expansion / IEEE encoding decodes to the value (MC_Numeral.tla).
GEN: TLC enumerates (a) those strings, (b) the numerals (1..4 significant digits of {0,1,5,9}) x 10^-45..10^120 x sign;
     Python only renders them (lexical variants, concrete characters) and adds seeded inputs: ties and their
     neighbours as exact decimal expansions, random doubles (uniform over the exponent field) and boundary values.
RUN: harness/c18.cpp calls the real toDouble / NumberToDOMString / NumberToCharacters / round / floor / ceiling and
     the XPath functions through XPathEvaluator, in forked children (a death is attributed to its case); the
     magnitude boundaries run again under ASan/UBSan.
TV : Trace_C18.tla recomputes the expected strings / bit patterns from Numeral.tla for every event."""
import json, os, random, struct, subprocess, glob, re
from concurrent.futures import ThreadPoolExecutor
from decimal import Decimal
from fractions import Fraction
import vlib, tlaparse
from vlib import ROOT

PROP = "C18"
MC = os.path.join(ROOT, "spec/mc/MC_Numeral.tla")
TRACE = os.path.join(ROOT, "spec/trace/Trace_C18.tla")
LOWE, MAXE = 45, 120


def cfg_text(spec, maxlen, maxsig, invs):
    return "\n".join(["SPECIFICATION " + spec, "CONSTANTS", "  MaxLen = %d" % maxlen, "  MaxSig = %d" % maxsig,
                      "  LowE = %d" % LOWE, "  MaxE = %d" % MAXE] + ["INVARIANT " + i for i in invs]) + "\n"


# ------------------------------------------------------------------------------------ rendering
def cps(s):
    return [ord(c) for c in s]


def txt(a):
    return "".join(chr(c) for c in a)


def positional(neg, ds, e):
    """the numeral  d.ddd x 10^e  in positional notation (no exponent)"""
    digits = "".join(str(d) for d in ds)
    if e >= 0:
        if len(digits) <= e + 1:
            s = digits + "0" * (e + 1 - len(digits))
        else:
            s = digits[:e + 1] + "." + digits[e + 1:]
    else:
        s = "0." + "0" * (-e - 1) + digits
    return ("-" if neg else "") + s


WS = [" ", "\t", "\n", "\r"]


def variant(s, rnd):
    """a lexical variant of a numeral string that denotes the same number"""
    neg = s.startswith("-")
    u = s[1:] if neg else s
    k = rnd.randrange(7)
    if k == 0:
        u = "0" * rnd.randrange(1, 4) + u
    elif k == 1:
        u = u + ("" if "." in u else ".") + "0" * rnd.randrange(1, 4)
    elif k == 2 and "." not in u:
        u = u + "."
    elif k == 3 and u.startswith("0."):
        u = u[1:]
    elif k == 4:
        return "".join(rnd.choice(WS) for _ in range(rnd.randrange(1, 3))) + ("-" if neg else "") + u + "".join(rnd.choice(WS) for _ in range(rnd.randrange(0, 3)))
    elif k == 5:
        u = "0" * rnd.randrange(150, 260) + u          # longer than the 200-character stack buffer of toDouble
    return ("-" if neg else "") + u


OTHER = ["x", "N", ",", "/", "d", "\u00a0", "\uff11", "\u0661", "\u2212", "\u3000", "\U0001d7cf", "\u0085", "\u200b", "_", "f"]


def concretize(a, rnd):
    """replace class representatives of the MC alphabet by concrete members of the class"""
    out = []
    for c in a:
        if rnd.random() < 0.5:
            out.append(c)
        elif c == 55:
            out.append(ord(rnd.choice("123456789")))
        elif c == 48:
            out.append(c)
        elif c == 101:
            out.append(ord(rnd.choice("eE")))
        elif c == 32:
            out.append(ord(rnd.choice(WS)))
        elif c == 120:
            out.append(ord(rnd.choice(OTHER)))
        else:
            out.append(c)
    return out


def f2hex(x):
    return "%016x" % struct.unpack(">Q", struct.pack(">d", x))[0]


def hex2f(h):
    return struct.unpack(">d", struct.pack(">Q", int(h, 16)))[0]


def w4_to_f(w):
    return hex2f("%04x%04x%04x%04x" % tuple(w))


def exact_decimal(x):
    """the exact decimal expansion of a finite double, positional"""
    return format(Decimal(x), "f")


def nextafter(x, up):
    b = struct.unpack(">q", struct.pack(">d", x))[0]
    if x == 0:
        return 5e-324 if up else -5e-324
    b += 1 if (x > 0) == up else -1
    return struct.unpack(">d", struct.pack(">q", b))[0]


# ------------------------------------------------------------------------------------ generators
def gen_ties(rnd, n_random):
    """arguments of round/floor/ceiling around ties, as exact decimal expansions of doubles"""
    base = [0, 1, 2, 3, 7, 8, 10, 99, 100, 255, 1000, 2 ** 31 - 1, 2 ** 31, 2 ** 32, 10 ** 15, 2 ** 51 - 1, 2 ** 51, 2 ** 52 - 2, 2 ** 52 - 1]
    base += [rnd.randrange(1, 2 ** rnd.randrange(2, 52)) for _ in range(n_random)]
    vals = set()
    for n in base:
        for fr in (0.0, 0.5, 0.25, 0.75, 0.125):
            x = n + fr
            if x != int(x) or fr == 0.0:
                for y in (x, nextafter(x, True), nextafter(x, False)):
                    vals.add(y); vals.add(-y)
    # integers where adding 0.5 is inexact, and the neighbourhood of 2^53 / 2^63
    for n in [2 ** 52 + 1, 2 ** 52 + 2, 2 ** 52 + 3, 2 ** 53 - 1, 2 ** 53, 2 ** 53 + 2, 2 ** 62, 2 ** 63 - 1024, 2 ** 63, 2 ** 63 + 2048, 2 ** 64, 10 ** 22]:
        vals.add(float(n)); vals.add(-float(n))
    for _ in range(n_random // 4):
        n = float(rnd.randrange(2 ** 52, 2 ** 53))
        vals.add(n); vals.add(-n)
    for x in (0.1, 0.2, 0.3, 0.1 + 0.2, 0.7, 1e-7, 5e-324, 2.2250738585072014e-308):
        vals.add(x); vals.add(-x)
    return sorted(vals)


def gen_doubles(rnd, n):
    """bit patterns: uniform over sign and exponent field, random mantissa; plus boundary classes"""
    out = []
    for _ in range(n):
        e = rnd.randrange(0, 2047)
        m = rnd.getrandbits(52)
        if rnd.random() < 0.2:
            m &= ~((1 << rnd.randrange(1, 52)) - 1)          # short mantissas: dyadic values with few bits
        out.append("%016x" % ((rnd.getrandbits(1) << 63) | (e << 52) | m))
    bnd = [0.0, -0.0, 1.0, 0.1 + 0.2, 0.1, 1 / 3.0, 2.0 ** 53 - 1, 2.0 ** 53, 2.0 ** 53 + 2, 2.0 ** 63, 2.0 ** 63 - 1024, 2.0 ** 64,
           1.7976931348623157e308, 2.2250738585072014e-308, 5e-324, 2.225073858507201e-308, 1e15, 1e16, 1e17, 123456789012345.6,
           0.49999999999999994, 4503599627370497.0, 1e21, 1e22, 1e23, 1e35, 1e88, 9.9e88, 1e89, 1e90, 1e-5, 1e-7, 1e-10, 1e-17, 1e-18, 1e-19, 1e-20,
           1e-30, 1e-34, 1e-35, 9e-36, 4e-36, 1e-36, 1e-40, 1.5e-34]
    bnd += [2.0 ** k for k in range(-80, 300, 7)] + [10.0 ** k for k in range(-40, 95, 3)]
    for x in bnd:
        out += [f2hex(x), f2hex(-x)]
    out += ["7ff8000000000000", "fff8000000000000", "7ff0000000000001", "7ff0000000000000", "fff0000000000000"]
    return out


def gen_exact_numerals(rnd, n):
    """exact decimal expansions of random doubles of moderate magnitude (TLC recognises them as doubles and
    states the IEEE encoding number() must return)"""
    out = []
    for _ in range(n):
        bits = rnd.randrange(1, 54)
        m = rnd.getrandbits(bits) | 1 | (1 << (bits - 1))
        e = rnd.randrange(-60, 75 - bits)
        x = m * 2.0 ** e
        out.append(exact_decimal(-x if rnd.random() < 0.5 else x))
    return out


# ------------------------------------------------------------------------------------- running
def run_harness(exe, cases, wd, tag, procs, env=None, extra=(), timeout=3000):
    """runs the cases in `procs` parallel harness processes; returns the events in case order or raises"""
    procs = max(1, min(procs, len(cases)))
    per = (len(cases) + procs - 1) // procs
    jobs = []
    for i in range(procs):
        chunk = cases[i * per:(i + 1) * per]
        if not chunk:
            continue
        cp = os.path.join(wd, "%s-cases-%d.ndjson" % (tag, i))
        vlib.write_ndjson(cp, chunk)
        jobs.append((cp, os.path.join(wd, "%s-trace-%d.ndjson" % (tag, i)), len(chunk)))

    def one(job):
        cp, tp, n = job
        e = dict(os.environ)
        if env:
            e.update(env)
        with open(tp, "w") as f:
            try:
                r = subprocess.run([exe, cp] + list(extra), stdout=f, stderr=subprocess.PIPE, text=True, timeout=timeout, env=e)
                return r.returncode, r.stderr[-2000:]
            except subprocess.TimeoutExpired:
                return 124, "harness time-out"

    with ThreadPoolExecutor(max_workers=len(jobs)) as ex:
        rcs = list(ex.map(one, jobs))
    events, problems = [], []
    for (cp, tp, n), (rc, err) in zip(jobs, rcs):
        evs = vlib.read_ndjson(tp)
        events += evs
        if rc != 0 or len(evs) != n:
            problems.append((rc, err, len(evs), n, cp))
    return events, problems


# ------------------------------------------------------------------------------- classification
def value_of(ev):
    """the double whose string form the event is about (None if unknown)"""
    try:
        if ev["dir"] == "ns":
            return w4_to_f(ev["bits"])
        if "arg" in ev:
            return {"pinf": float("inf"), "ninf": float("-inf"), "nzero": -0.0, "pzero": 0.0}[ev["arg"]]
        if "rbits" in ev:
            return w4_to_f(ev["rbits"])
        s = txt(ev["in"]).strip(" \t\r\n")
        if not re.fullmatch(r"-?(\d+(\.\d*)?|\.\d+)", s):
            return None
        return float(s)
    except Exception:
        return None


def arg_of(ev):
    if "bits" in ev:
        return w4_to_f(ev["bits"])
    return value_of(ev)


def outs_of(ev):
    return [txt(ev[k]) for k in ("out", "outc", "outx", "outs", "outl") if k in ev]


def digits_with_sign(x):
    return len(str(int(abs(x)))) + (1 if x < 0 else 0)


def classify(ev, msg, asan_report=None):
    """semantic class of a rejected event (key of known_findings) or None"""
    x = value_of(ev)
    finite = x is not None and x == x and x not in (float("inf"), float("-inf"))
    # (1) the decimal expansion (sign + digits + ".0000000000" + NUL) does not fit the 101-byte buffer: undefined
    #     behaviour - the process dies, or lives on with any output
    if finite and abs(x) >= 2.0 ** 63 and digits_with_sign(x) >= 90:
        if "crash" in ev:
            if asan_report is not None:
                # (a very long overrun makes the sanitizer die while unwinding: the report then has no frames)
                ok = "stack-buffer-overflow" in asan_report and (re.search(r"NumberToDOMString|NumberToCharacters", asan_report) or "#1 " not in asan_report)
                return "huge-magnitude-buffer-overflow" if ok else None
            return "huge-magnitude-buffer-overflow" if ev["crash"] != "TIMEOUT" else None
        return "huge-magnitude-buffer-overflow"
    if "crash" in ev or not finite:
        return None
    # (string(x) of small values: the %.35f cap - keys tiny-prints-zero, fraction-beyond-35-digits - is repaired: the
    # precision now follows the binary exponent; a recurrence has no class and is a VIOLATION)
    if ev["dir"] == "round":
        a = arg_of(ev)
        if a is None or a != a:
            return None
        outs = set(outs_of(ev))
        if len(outs) != 1:
            return None
        out = outs.pop()
        # the implementation adds 0.5 (subtracts for negatives) in binary64: inexact for the doubles next to +-0.5
        # and for odd integers of magnitude 2^52..2^53
        if a > 0 and Fraction(a) + Fraction(1, 2) != Fraction(a + 0.5) and abs(a) < 2.0 ** 53:
            return "round-add-half-inexact" if out == str(int(a + 0.5)) else None
        if a < 0 and Fraction(a) - Fraction(1, 2) != Fraction(a - 0.5) and abs(a) < 2.0 ** 53:
            return "round-add-half-inexact" if out == str(int(a - 0.5)) else None
        if -0.5 <= a <= 0 and (a < 0 or ev.get("arg") == "nzero"):
            # value right ("0"), sign of zero lost
            if out == "0" and ev.get("rbits") == [0, 0, 0, 0] and ev.get("inv", cps("Infinity")) == cps("Infinity"):
                return "round-negative-zero"
    return None


def nontrivial(ev):
    """non-trivial: the conversion had to do more than copy an everyday value"""
    if "crash" in ev:
        return True
    d = ev["dir"]
    if d == "sn":
        s = txt(ev["in"])
        return not re.fullmatch(r"-?\d{1,9}", s)          # not the integer fast path on a canonical integer
    if d == "ns":
        return ev["bits"] != [0, 0, 0, 0]
    a = arg_of(ev)
    if a is None or a != a or a in (float("inf"), float("-inf")):
        return False
    return abs(a) >= 2.0 ** 53 or a != int(a)


# ------------------------------------------------------------------------------------------ run
def build_cases(tier, seed, wd, res):
    quick = tier == "quick"
    rnd = random.Random(seed)
    # ---- MC + GEN: three TLC runs side by side.  The state graph of StrSpec is the set of strings, the initial
    # states of GenSpec are the numerals (both dumped); NumSpec checks the laws of the digit-sequence algorithms
    # (it only has to finish before the verdict: run() joins it at the end).
    maxlen = 5 if quick else 6
    maxsig = 3 if quick else 4
    sdump, gdump = os.path.join(wd, "strings"), os.path.join(wd, "numerals")
    jobs = {"str": ("StrSpec", maxlen, 1, ["DfaIsGrammar", "CanonOfString", "NonNumbersAreNaN", "OutputGrammarIsCanonical"], ["-dump", sdump], 6),
            "gen": ("GenSpec", 1, maxsig, ["GenSane"], ["-dump", gdump], 4),
            "num": ("NumSpec", 1, 1, ["CanonIsTheValue", "RoundingLaws", "BinaryLaws", "RoundSigLaw", "LimbLaw"], [], 4)}

    def mc(name):
        spec, ml, ms, invs, extra, workers = jobs[name]
        cfg = os.path.join(wd, name + ".cfg")
        open(cfg, "w").write(cfg_text(spec, ml, ms, invs))
        return vlib.tlc_mc(MC, cfg, name="c18" + name, timeout=1500, extra=extra, workers=workers)

    pool = ThreadPoolExecutor(max_workers=3)
    futs = {k: pool.submit(mc, k) for k in jobs}
    res.add_mc(futs["str"].result(), "MC_Numeral/StrSpec(MaxLen=%d)" % maxlen)
    res.add_mc(futs["gen"].result(), "MC_Numeral/GenSpec(MaxSig=%d)" % maxsig)
    res._c18_num = futs["num"]
    pool.shutdown(wait=False)
    # (sorted: the order of a multi-worker dump varies, the seeded choices below must not)
    strings = sorted((s["x"]["s"] for s in tlaparse.read_dump(sdump + ".dump", only={"x"})), key=lambda a: (len(a), a))
    numerals = sorted((s["x"] for s in tlaparse.read_dump(gdump + ".dump", only={"x"})), key=lambda n: (n["e"], n["ds"], n["neg"]))
    if quick:
        # all 1-2 digit numerals; 3-digit ones around the boundaries (1e-38..1e24: precision cap, 2^53, 2^63, 1e22; 1e86..1e92)
        numerals = [n for n in numerals if len(n["ds"]) <= 2 or -38 <= n["e"] <= 24 or 86 <= n["e"] <= 92]

    cases, klass = [], {}

    def add(c, k):
        cases.append(c)
        klass[k] = klass.get(k, 0) + 1

    # strings of the class alphabet: quick = all up to length 4 plus a seeded sample of the longer ones
    cut = 4 if quick else 5
    longer = [s for s in strings if len(s) > cut]
    chosen = [s for s in strings if len(s) <= cut] + rnd.sample(longer, min(len(longer), 6000 if quick else 20000))
    for s in chosen:
        add({"dir": "sn", "in": concretize(s, rnd)}, "strings")
    for s in rnd.sample(chosen, min(len(chosen), 600 if quick else 6000)):
        add({"dir": rnd.choice(["round", "floor", "ceiling"]), "in": concretize(s, rnd)}, "strings-fn")
    # TLC's numerals
    fns = ["round", "floor", "ceiling"]
    for i, n in enumerate(numerals):
        p = positional(n["neg"], n["ds"], n["e"])
        add({"dir": "sn", "in": cps(p if i % 2 == 0 else variant(p, rnd))}, "numerals")
        near = -4 <= n["e"] <= 18          # rounding is interesting where the numeral has a fraction or is a large integer
        for f in (fns if near and not quick else [fns[(i // 3 + i) % 3]]):
            if not near and i % (7 if quick else 3) != 0:
                continue
            add({"dir": f, "in": cps(p if i % 5 else variant(p, rnd))}, "numerals-fn")
    # beyond the double range on both sides
    for s in ["1" + "0" * 310, "-9" + "0" * 400, "0." + "0" * 330 + "1", "-0." + "0" * 400 + "5", "0", "-0", "0.0", "-0.000", "00", ".0", "0."]:
        add({"dir": "sn", "in": cps(s)}, "range-ends")
        for f in fns:
            add({"dir": f, "in": cps(s)}, "range-ends")
    # ties and their neighbours, exact expansions
    for x in gen_ties(rnd, 30 if quick else 250):
        s = exact_decimal(x)
        for f in fns:
            add({"dir": f, "in": cps(s)}, "ties")
        add({"dir": "sn", "in": cps(s)}, "ties")
    for a in ("pinf", "ninf", "nzero", "pzero"):
        for f in fns:
            add({"dir": f, "arg": a}, "specials")
    # exact expansions of random doubles
    for s in gen_exact_numerals(rnd, 1500 if quick else 10000):
        add({"dir": "sn", "in": cps(s)}, "exact-expansions")
    # arbitrary doubles
    for h in gen_doubles(rnd, 5000 if quick else 40000):
        add({"dir": "ns", "bits": h}, "doubles")
    return cases, klass


def boundary_subset(cases):
    """cases whose value is near the magnitude boundaries (int64 range, the former 101-byte buffer and 35-digit cap, the
    smallest doubles: the longest strings, about 345 characters in a 351-byte buffer)"""
    out = []
    for c in cases:
        try:
            if c["dir"] == "ns":
                x = hex2f(c["bits"])
            elif "in" in c:
                s = txt(c["in"]).strip(" \t\r\n")
                if not re.fullmatch(r"-?(\d+(\.\d*)?|\.\d+)", s):
                    continue
                x = float(s)
            else:
                continue
        except Exception:
            continue
        a = abs(x)
        if a != a or a == 0:
            continue
        if 9e18 <= a < 2e19 or 1e86 <= a < 1e92 or a >= 1e119 or 1e-37 < a < 1e-33 or a < 1e-300:
            out.append(dict(c, _a=a))
    return out


def run(res, tier, seed):
    quick = tier == "quick"
    wd = vlib.workdir("c18-%d" % os.getpid())
    import time
    t0 = time.time()
    cases, klass = build_cases(tier, seed, wd, res)
    vlib.log("c18: MC+GEN %.0fs, %d cases %s" % (time.time() - t0, len(cases), klass))
    res.notes["cases_per_class"] = klass
    known = {k["key"]: k for k in vlib.known_findings(PROP)}
    # ---- RUN: plain build on all cases; ASan/UBSan build on the magnitude boundaries (side by side)
    exe = vlib.build_harness("c18")
    aexe = vlib.build_harness("c18", "asan")
    sub = boundary_subset(cases)
    # every overflowing case costs a symbolised sanitizer report: cap their number
    r2 = random.Random(seed + 1)
    huge = [c for c in sub if c.get("_a", 0) >= 1e88]
    rest = [c for c in sub if c.get("_a", 0) < 1e88]
    huge = r2.sample(huge, min(len(huge), 60 if quick else 600))
    rest = r2.sample(rest, min(len(rest), 800 if quick else 20000))
    sub = [{k: v for k, v in c.items() if k != "_a"} for c in huge + rest]
    logdir = os.path.join(wd, "san")
    os.makedirs(logdir, exist_ok=True)
    aenv = {"ASAN_OPTIONS": "detect_leaks=0:log_path=%s/asan" % logdir, "UBSAN_OPTIONS": "print_stacktrace=1:log_path=%s/ubsan" % logdir,
            "C18_SANLOG": logdir}
    t1 = time.time()
    with ThreadPoolExecutor(max_workers=2) as ex:
        fa = ex.submit(run_harness, aexe, sub, wd, "asan", 4, aenv)
        fh = ex.submit(run_harness, exe, cases, wd, "hooks", 12)
        events, problems = fh.result()
        aevents, aproblems = fa.result()
    vlib.log("c18: RUN %.0fs (%d cases plain, %d asan)" % (time.time() - t1, len(cases), len(sub)))
    for flavour, evs, probs in (("hooks", events, problems), ("asan", aevents, aproblems)):
        if probs:
            rc, err, got, n, cp = probs[0]
            if rc in (2, 3):
                raise vlib.Infra("harness could not run (%s, rc=%d): %s" % (flavour, rc, err))
            res.violation("harness (%s) terminated abnormally (rc=%s, %d of %d events): %s" % (flavour, rc, got, n, err[-300:]), evs[-5:])
            return
    for ev in aevents:
        ev["san"] = True
    allev = events + aevents
    res.cov["evaluations"] = len(allev)
    res.notes["asan_cases"] = len(aevents)
    # ---- TV: every event is its own execution
    # (costly long numerals come in runs: deal the events round-robin so that the contiguous shards are balanced)
    nsh = vlib.NCPU
    order = [i for r in range(nsh) for i in range(r, len(allev), nsh)]
    allev = [allev[i] for i in order]
    flat = []
    for ev in allev:
        flat.append({"e": "Reset"})
        flat.append({k: v for k, v in ev.items() if k not in ("san", "report")})
    rejects, st = vlib.tlc_validate_sharded(TRACE, flat, shards=nsh, tag="c18tv", timeout=3000)
    res.notes["tv_states"] = st["tv_states"]
    vlib.log("c18: TV done, total %.0fs, %d rejects" % (time.time() - t0, len(rejects)))
    bad = 0
    for rj in sorted(rejects, key=lambda r: r["line"]):
        ev = allev[rj["line"] // 2]
        bad += 1
        rep = ev.get("report", "") if ev.get("san") else None       # sanitizer report of the dead child
        key = classify(ev, rj["msg"], rep)
        if key and key in known:
            res.known(known[key])
        else:
            what = rj["msg"]
            if "in" in ev:
                what += "  in=%r" % txt(ev["in"])[:80]
            if "out" in ev:
                what += " out=%r" % txt(ev["out"])[:60]
            if ev.get("san"):
                what += " [asan build] " + " ".join(re.findall(r"(?:ERROR|SUMMARY|runtime error):[^\n]*", rep or ""))[:300]
            res.violation(what[:600], [{"e": "Reset"}, {k: v for k, v in ev.items() if k not in ("san", "report")}])
    res.cov["traces_validated_against_impl"] = len(allev) - bad
    res.add_mc(res._c18_num.result(), "MC_Numeral/NumSpec")
    res.cov["distinct_nontrivial"] = len({vlib.canon_hash({k: v for k, v in ev.items() if k != "report"}) for ev in allev if nontrivial(ev)})
    res.cov["rule"] = ("one conversion event per case (string->number->string, double->string->number, round/floor/ceiling); "
                       "non-trivial = not a canonical integer of fewer than 10 characters (sn), not +0 (ns), a non-integer or huge argument (fn), "
                       "or the process died; distinct by hash of the recorded event")
    for k in ("numerals", "ties", "doubles"):
        for ev in allev:
            if ev["dir"] == {"numerals": "sn", "ties": "round", "doubles": "ns"}[k] and "out" in ev and len(ev.get("in", [])) < 40:
                res.sample({kk: (txt(v) if kk in ("in", "out", "inv") else v) for kk, v in ev.items() if kk in ("dir", "in", "out", "bits", "inv", "rbits")})
                break
    res.assumptions += [
        "IEEE-754 binary64 facts used by the specification (DBL_DIG = 15): numerals of <= 15 significant digits in the normal range map injectively and monotonically to doubles, so string(number(s)) is the canonical form of s and round/floor/ceiling of the double are those of the numeral",
        "for numerals of more than 15 significant digits that are not doubles themselves, 'nearest double' is not decided (needs arbitrary precision): only output grammar, sign and the round trip number(string(x)) = x are checked",
        "integers beyond 15 digits that are not exactly representable: string() must agree with the numeral to 15 significant digits and read back to the same double (whether all further digits are the double's exact expansion is not decided)",
        "number('Infinity'), number('NaN') are NaN in XPath 1.0, so the round trip is demanded for finite doubles only; the sign of number('-0') and of floor/ceiling zero results is not prescribed by XPath 1.0 and not checked",
        "glibc strtod/printf under the harness are correctly rounding (they are what Xalan calls); locale is C",
    ]


def replay(path):
    """re-runs the recorded case(s) on the current build of the working tree and validates the fresh events"""
    recorded = [e for e in vlib.read_ndjson(path) if e.get("e") == "Conv"]
    cases = []
    for e in recorded:
        c = {"dir": e["dir"]}
        if "in" in e:
            c["in"] = e["in"]
        elif "arg" in e:
            c["arg"] = e["arg"]
        else:
            c["bits"] = "%04x%04x%04x%04x" % tuple(e["bits"])
        cases.append(c)
    wd = vlib.workdir("c18-replay-%d" % os.getpid())
    events, problems = run_harness(vlib.build_harness("c18"), cases, wd, "replay", 1)
    if problems:
        print("harness failed: %s" % (problems[0],))
        return 2
    flat = []
    for ev in events:
        flat += [{"e": "Reset"}, {k: v for k, v in ev.items() if k != "report"}]
    rejects, _ = vlib.tlc_validate_sharded(TRACE, flat, shards=1, tag="c18replay")
    for r in rejects:
        ev = events[r["line"] // 2]
        print("REJECTED %s  %s -> %s" % (r["msg"], repr(txt(ev["in"])) if "in" in ev else ev.get("arg", ev.get("bits")),
                                          repr(txt(ev["out"])) if "out" in ev else ev.get("crash")))
    return 1 if rejects else 0
