"""C02 - XPath 1.0 expressions evaluate to the value the Recommendation defines.
MC : algebraic laws of the executable definition XPathSem.tla over bounded documents (MC_XPath.tla).
GEN: systematic families (axes x node tests x positional predicates, comparison matrix, function tables)
     plus seeded random typed expressions (tools/xpgen.py); documents from tools/xdm.py.
RUN: harness/xp.cpp evaluates the rendered text on the real evaluator (low-level XPath API).
TV : Trace_C02.tla recomputes every value from XPathSem.tla and compares."""
import os, random, subprocess, json
import vlib, xdm, xpgen, xplex
from xpgen import *
from vlib import ROOT

PROP = "C02"
TRACE = os.path.join(ROOT, "spec/trace/Trace_C02.tla")
DTD = "<!DOCTYPE %s [<!ATTLIST a id ID #IMPLIED><!ATTLIST b id ID #IMPLIED><!ATTLIST c id ID #IMPLIED>]>"
ID_ATTRS = {("a", "id"), ("b", "id"), ("c", "id")}


def fixed_docs():
    E, A, T, C, PI, R = xdm.E, xdm.A, xdm.T, xdm.C, xdm.PI, xdm.R
    return [
        R(E("a", E("b", T("t"), a=[A("x", "1")]), E("c"), T(" "), E("b", E("c", T("u")), a=[A("x", "2"), A("y", "t")]), C("c"), PI("t", "d"))),
        R(C("top"), E("a", T("1"), E("b", T("2"), a=[A("id", "i1")]), T("x"), E("b", T("3"), a=[A("id", "i2")]), E("a", E("b", T("1")), a=[A("id", "i3")]), a=[A("x", "1.5")]), PI("u", "")),
        R(E("a", E("a", E("a", E("b"), T("t")), E("b")), E("c", a=[A("x", ""), A("y", " ")]), T("  "), a=[A("xml:lang", "en-US", p="xml", u=xdm.XML_NS)] if False else [])),
        R(E("c", E("b", T("-2")), E("b", T("0.5")), E("b", T("abc")), E("b", T(" 4 ")), E("b"), a=[A("x", "10")])),
        R(E("c", E("a", E("a", E("b"), E("c", E("b"))), E("b")), E("b", E("a", E("b", a=[A("x", "1")]))))),   # nested same-name ancestors
        # character data directly in front of processing instructions and comments (a parser hands the text over when the next event arrives:
        # stored order and tree order of the two nodes must agree), next to attributes
        R(E("a", T("alpha"), PI("t", "one"), T("beta"), C("c"), T("gamma"), PI("u", ""), E("b", T("x"), PI("t", "two"), C("k"), a=[A("x", "1")]), T("tail"), PI("t", "three"),
            a=[A("x", "1"), A("y", "2")])),
        # runs of nodes with EQUAL string-values (set:distinct keeps the first of each; a duplicate right after a duplicate, a value that returns)
        R(E("a", E("b", T("x")), E("b", T("x")), E("b", T("x")), E("c", T("y")), E("b", T("x")), E("c", T("y")), E("b", T("z")), E("c", T("x")), E("b"), E("c"), E("b", T("z")),
            a=[A("x", "x"), A("y", "y")])),
    ]


def ns_doc():
    """the same local names in no namespace, in a default namespace, under a prefix bound to the same URI and under another one;
    attributes with and without prefix; the default namespace undeclared and re-declared further in"""
    E, A, T, R = xdm.E, xdm.A, xdm.T, xdm.R
    U, V, D = "urn:u", "urn:v", "urn:d"
    L = lambda v: A("lang", v, p="xml", u=xdm.XML_NS)
    # xml:lang: the nearest declaration counts (fr inside en), en-US is also en, an empty value says "no language"
    return R(E("a", E("b", a=[A("x", "1"), A("x", "2", p="p", u=U)], u=U),
                    E("b", p="p", u=U, a=[L("fr")]),
                    E("b", T("t"), a=[A("x", "3", p="q", u=V), L("en-US")], p="q", u=V),
                    E("b", E("a", a=[L("")]), nsd=[["", ""]]),
                    E("c", E("b", u=D, a=[L("EN")]), u=D, nsd=[["", D]], a=[L("de")]),
               u=U, nsd=[["", U], ["p", U], ["q", V]], a=[L("en")]))


NSMAP = dict({"p": "urn:u", "q": "urn:v"}, **xpgen.EXT_NS)


def make_docs(rng, n_random):
    docs = fixed_docs()
    for k in range(n_random):
        docs.append(xdm.random_doc(rng, maxnodes=rng.choice([6, 9, 12, 14]), ns=(k % 3 == 2)))
    docs.append(ns_doc())
    # unique ID values
    for t in docs:
        k = [0]
        def fix(n):
            if n["k"] == "elem":
                for a in n["a"]:
                    if a["l"] == "id":
                        k[0] += 1; a["v"] = "i%d" % k[0]
                for c in n["c"]:
                    fix(c)
            elif n["k"] == "root":
                for c in n["c"]:
                    fix(c)
        fix(t)
    return docs


def doc_xml(t):
    top = [c for c in t["c"] if c["k"] == "elem"][0]["l"]
    return xdm.render_xml(t, doctype=DTD % top)


def systematic(flat_docs):
    """axes x tests x positional predicates from every context node of the first documents; the comparison matrix"""
    out = []
    tests = [t_name("a"), t_name("b"), T_ANY, T_NODE, T_TEXT, T_COMMENT, t_pi(), t_pi("t")]
    preds = [[], [num(1)], [num(2)], [fn("last")], [bin_("=", fn("position"), fn("last"))], [bin_(">", fn("position"), num(1))],
             [num(1), num(1)], [bin_(">", fn("position"), num(1)), num(1)], [path([step("child", T_NODE)])]]
    for ax in AXES:
        for t in (tests if ax != "attribute" else [t_name("x"), T_ANY, T_NODE]):
            for p in preds:
                out.append(path([step(ax, t, *p, abbr=False)]))
    for ax in ["child", "descendant", "ancestor", "preceding-sibling", "following"]:
        out.append(fn("count", path([step(ax, T_NODE, abbr=False)])))
        out.append(fn("name", path([step(ax, T_ANY, num(1), abbr=False)])))
        out.append(filt(path([step(ax, T_NODE, abbr=False)]), num(1)))
        out.append(filt(path([step(ax, T_NODE, abbr=False)]), fn("last")))
    # comparison matrix
    pool = [path([step("child", t_name("b"))]), path([step("attribute", T_ANY)]), path([step("child", t_name("zz"))]),
            path([step("descendant", T_TEXT)]),
            num(0), num(1), num(2), num8(12), bin_("div", num(0), num(0)), bin_("div", num(1), num(0)), neg(bin_("div", num(1), num(0))), neg(num(0)),
            lit(""), lit("1"), lit("2"), lit("t"), lit("1.5"), lit(" 1 "), lit("abc"),
            fn("true"), fn("false")]
    for o in ["=", "!=", "<", "<=", ">", ">="]:
        for a in pool:
            for b in pool:
                out.append(bin_(o, a, b))
    # arithmetic / precedence / associativity
    ns = [num(7), num(2), num(3), num8(4)]
    for o1 in ["+", "-", "*", "div", "mod"]:
        for o2 in ["+", "-", "*", "div", "mod"]:
            out.append(bin_(o2, bin_(o1, ns[0], ns[1]), ns[2]))
            out.append(bin_(o1, ns[0], bin_(o2, ns[1], ns[2])))
    for o in ["and", "or"]:
        for a in [fn("true"), fn("false")]:
            for b in [fn("true"), fn("false"), bin_("=", num(1), bin_("div", num(1), num(0)))]:
                out.append(bin_(o, a, b)); out.append(bin_("or" if o == "and" else "and", bin_(o, a, b), fn("true")))
    # function tables
    S = [lit(""), lit("t"), lit("tu"), lit("abcde"), lit(" a  b "), lit("12345"), lit("1.5"), lit("-0"), lit("a-b-c")]
    N = [num(0), num(1), num(2), num8(12), num8(20), num8(21), neg(num8(4)), neg(num8(12)), neg(num8(20)), neg(num(1)), bin_("div", num(0), num(0)), bin_("div", num(1), num(0)), neg(bin_("div", num(1), num(0))), num(100)]
    for s in S:
        for f in ["string-length", "normalize-space", "number", "boolean", "string"]:
            out.append(fn(f, s))
        for s2 in [lit(""), lit("t"), lit("b"), lit("-"), lit("34")]:
            for f in ["starts-with", "contains", "substring-before", "substring-after", "concat"]:
                out.append(fn(f, s, s2))
        out.append(fn("translate", s, lit("abt-"), lit("AB")))
    # nested positional predicates: an inner path with its own position()/last() predicate, evaluated while an outer
    # predicate of another node list is in progress, followed (or preceded) by the outer position()/last()
    P_ = lambda *steps, **kw: path(list(steps), **kw)
    inner_paths = [P_(step("parent", T_NODE), step("child", T_ANY)), P_(step("self", T_ANY, abbr=False)), P_(step("descendant-or-self", T_ANY, abbr=False)),
                   P_(step("preceding-sibling", T_ANY, abbr=False)), P_(step("ancestor-or-self", T_ANY, abbr=False)), P_(step("following-sibling", T_NODE, abbr=False))]
    inner_preds = [bin_("=", fn("position"), fn("last")), bin_("=", fn("position"), num(1)), bin_(">", fn("position"), num(1))]
    outer_tests = [bin_("=", fn("position"), num(2)), bin_("=", fn("position"), fn("last")), bin_(">", fn("position"), num(1)), bin_("<", fn("position"), fn("last"))]
    for ax in ["descendant", "child", "following-sibling", "ancestor", "preceding"]:
        for ip in inner_paths:
            for ipr in inner_preds:
                inner = dict(ip, steps=ip["steps"][:-1] + [dict(ip["steps"][-1], preds=[ipr])])
                for ot in outer_tests:
                    out.append(P_(step(ax, T_ANY, bin_("and", inner, ot), abbr=False)))
                    out.append(P_(step(ax, T_ANY, bin_("and", ot, inner), abbr=False)))
                    out.append(P_(step(ax, T_ANY, inner, ot, abbr=False)))
                out.append(filt(P_(DOS, step("child", T_ANY), abs_=True), bin_("and", inner, bin_("=", fn("position"), num(3)))))
                out.append(fn("count", P_(step(ax, T_ANY, bin_("and", inner, bin_(">", fn("position"), num(1))), abbr=False))))
    # white space inside strings (4.2: #x20 #x9 #xD #xA), one irregularity at a time
    for ws in ["a\tb", "a\nb", "a\rb", "\ta b", "a b\n", "a \tb", "a\t\tb", "\t", "a\u00a0b"]:
        out.append(fn("normalize-space", lit(ws)))
        out.append(fn("string-length", fn("normalize-space", lit(ws))))
        out.append(fn("number", lit(ws.replace("a", "1").replace("b", "2"))))
    # string functions given non-string arguments (the result type is a string / boolean / number whatever the argument types)
    mixed = [num(1), num8(12), fn("true"), fn("false"), path([step("child", t_name("b"))]), path([step("child", t_name("zz"))]), lit(""), lit("1"),
             bin_("div", num(0), num(0)), neg(num(0))]
    for a1 in mixed:
        for a2 in mixed:
            for f in ["substring-before", "substring-after", "starts-with", "contains", "concat"]:
                out.append(fn(f, a1, a2))
        for f in ["string-length", "normalize-space", "string"]:
            out.append(fn(f, a1))
        out.append(fn("translate", a1, lit("1t"), lit("2")))
        out.append(fn("substring", a1, num(1)))
        out.append(fn("substring", lit("12345"), a1, a1))
    for n1 in N:
        for f in ["floor", "ceiling", "round", "string", "boolean", "number"]:
            out.append(fn(f, n1))
        out.append(fn("substring", lit("12345"), n1))
        for n2 in N:
            out.append(fn("substring", lit("12345"), n1, n2))
    for e in [fn("sum", path([step("child", T_ANY)])), fn("sum", path([step("child", t_name("zz"))])), fn("sum", path([step("descendant", T_TEXT)])),
              fn("count", path([DOS, step("child", T_ANY)], abs_=True)), fn("id", lit("i1")), fn("id", lit("i2 i1 zz")), fn("id", path([step("child", T_ANY)])),
              path([step("child", t_name("b"))], start=fn("id", lit("i3"))), fn("lang", lit("en")), fn("local-name"), fn("name"), fn("string"), fn("number"),
              fn("string-length"), fn("normalize-space"), fn("namespace-uri"), path([], abs_=True), path([DOS, step("child", t_name("b"), num(1))], abs_=True),
              filt(path([DOS, step("child", t_name("b"))], abs_=True), num(1)),
              bin_("|", path([DOS, step("child", t_name("c"))], abs_=True), path([], abs_=True)),
              neg(neg(num(1)))]:
        out.append(e)
    return out


def reuse_family():
    """context-free expressions in which one string is converted to a number, dropped, and another string is converted afterwards
    (value objects recycled inside one evaluation must not remember the previous value)"""
    out = []
    pool = [lit("1"), lit("0"), lit("tu"), lit("2.5"), num(1), fn("string", num(2)), fn("substring-after", lit("a7"), lit("a"))]
    for a in pool:
        for b in pool:
            for c in pool:
                for o1 in ["=", "<", ">"]:
                    for o2 in ["<=", "=", "+"]:
                        out.append(bin_(o2, bin_(o1, a, b), c))
                out.append(bin_("+", bin_("+", a, b), c))
                out.append(fn("concat", fn("string", fn("number", a)), lit("|"), fn("string", fn("number", b)), lit("|"), fn("string", fn("number", c))))
    return out


def build_cases(rng, tier):
    quick = tier == "quick"
    docs = make_docs(rng, 8 if quick else 40)
    flats = [xdm.flatten(t, ID_ATTRS) for t in docs]
    cases = []
    for e in reuse_family():
        cases.append((1, 1, 1, 1, e, {}))
    sysx = systematic(flats)
    nsys_docs = 2 if quick else 4
    for e in sysx:
        for d in range(nsys_docs):
            n = flats[d]["n"]
            ctxs = list(range(1, n + 1)) if (e["op"] == "path" and not quick) else rng.sample(range(1, n + 1), min(n, 3 if quick else 5))
            for ctx in ctxs:
                cases.append((d + 1, ctx, 1, 1, e, {}))
    # ORDER across node kinds: unions of text / processing-instruction / comment / attribute / element nodes, from every node of the
    # documents that have character data directly in front of PIs and comments (a union is merged by the stored order of the nodes)
    ch_ = lambda t, *p_: step("child", t, *p_)
    kinds = [path([ch_(T_TEXT)]), path([ch_(t_pi())]), path([ch_(T_COMMENT)]), path([step("attribute", T_ANY)]), path([ch_(T_ANY)])]
    order_tests = [bin_("|", a_, b_) for a_ in kinds for b_ in kinds if a_ is not b_]
    order_tests += [bin_("|", path([step("attribute", T_ANY)]), path([ch_(T_NODE)])), bin_("|", path([ch_(T_NODE)]), path([step("attribute", T_ANY)])),
                    filt(bin_("|", path([ch_(T_TEXT)]), path([ch_(t_pi())])), num(1)), filt(bin_("|", path([ch_(t_pi())]), path([ch_(T_TEXT)])), fn("last")),
                    bin_("|", bin_("|", path([ch_(t_pi())]), path([ch_(T_COMMENT)])), path([ch_(T_TEXT)])),
                    bin_("|", path([dict(DOS), ch_(T_TEXT)], abs_=True), path([dict(DOS), ch_(t_pi())], abs_=True)),
                    bin_("|", path([dict(DOS), ch_(T_COMMENT)], abs_=True), bin_("|", path([dict(DOS), step("attribute", T_ANY)], abs_=True), path([dict(DOS), ch_(T_TEXT)], abs_=True)))]
    for d in (0, 5):
        for e in order_tests:
            for ctx in range(1, flats[d]["n"] + 1):
                if flats[d]["kind"][ctx - 1] in ("root", "elem"):
                    cases.append((d + 1, ctx, 1, 1, e, {}))
    # namespaces: every axis x name test (unprefixed, prefixed, prefix:*, *) from every node of the namespace document
    nd = len(docs)
    nsflat = flats[nd - 1]
    for ax in ["child", "descendant", "descendant-or-self", "self", "parent", "ancestor", "ancestor-or-self", "following-sibling", "preceding-sibling",
               "following", "preceding", "attribute"]:
        for tst in [t_name("a"), t_name("b"), t_name("x"), t_name("b", "urn:u", "p"), t_name("b", "urn:v", "q"), t_name("x", "urn:u", "p"),
                    t_nsany("urn:u", "p"), t_nsany("urn:v", "q"), T_ANY]:
            e = path([step(ax, tst, abbr=False)])
            for ctx in range(1, nsflat["n"] + 1):
                cases.append((nd, ctx, 1, 1, e, {}))
    # characters are Unicode characters (XPath 1.0 section 3.6 / 4.2), also outside the Basic Multilingual Plane
    S1, S2 = lit("a\U00010400b"), lit("\U00010400\U0001F600")
    for e in [fn("string-length", S1), fn("string-length", S2), fn("substring", S1, num(2), num(1)), fn("substring", S1, num(3)), fn("substring", S2, num(2)),
              fn("translate", S1, lit("\U00010400"), lit("x")), fn("translate", lit("abc"), lit("b"), lit("\U00010400")), fn("string-length", fn("substring", S1, num(1), num(2))),
              fn("concat", S1, S2), fn("contains", S1, lit("\U00010400")), fn("substring-after", S1, lit("\U00010400")), fn("starts-with", S2, lit("\U00010400")),
              fn("normalize-space", lit(" \U00010400  b ")), bin_("=", S1, S1)]:
        cases.append((nd, 1, 1, 1, e, {}))
    for la in ["en", "EN", "en-US", "fr", "de", "e", ""]:
        for ctx in range(1, nsflat["n"] + 1):
            cases.append((nd, ctx, 1, 1, fn("lang", lit(la)), {}))
    # CROSS-DOCUMENT family: inside a predicate on nodes of ANOTHER document (held by $e) the context node is in that document while
    # current() is still the node the expression was started at.  id() searches the document of the CONTEXT node (XPath 4.1),
    # current() stays where it is, unions of both deliver document by document.
    E_ = var("e")
    cur_tests = [filt(E_, fn("id", lit("i1 i2 i3 zz"))), fn("count", filt(E_, bin_("=", fn("count", fn("id", lit("i1"))), num(1)))),
                 filt(E_, fn("id", fn("string", path([step("attribute", t_name("id"))], start=fn("current"))))),
                 filt(E_, bin_("=", fn("count", bin_("|", fn("current"), path([step("self", T_NODE)]))), num(2))),
                 bin_("|", E_, fn("current")), bin_("|", fn("id", lit("i1 i2")), filt(E_, fn("id", lit("i1 i2")))),
                 fn("count", path([step("ancestor-or-self", T_NODE, filt(path([step("self", T_NODE)]), fn("id", lit("i2"))), abbr=False)], start=E_)),
                 fn("name", filt(fn("id", lit("i1 i3")), bin_("=", fn("count", filt(E_, fn("id", lit("i3")))), num(0)))),
                 fn("count", filt(E_, path([step("self", T_NODE)], start=fn("id", path([step("attribute", t_name("id"))])))))]
    with_ids = [i for i, f in enumerate(flats) if any(f["isid"])] or [1]
    for da in with_ids[:2] + [0]:
        for db in [x for x in with_ids[:1] + [0, 2, nd - 1] if x != da][:3]:
            na, nb = flats[da]["n"], flats[db]["n"]
            for e in cur_tests:
                for ctx in sorted(set([1, 2, na] + rng.sample(range(1, na + 1), min(na, 2)))):
                    for ids in ([1, 2], sorted(rng.sample(range(1, nb + 1), min(nb, 4))), list(range(1, nb + 1))):
                        cases.append((da + 1, ctx, 1, 1, e, {"e": {"t": "ns", "v": [[db + 1, i, 0] for i in ids]}}))
    # DYNAMIC EVALUATION family: dyn:evaluate / xalan:evaluate of a string is the expression the string says, evaluated where the call
    # stands - at the top of the expression the context node is the starting node, inside a predicate it is the node being filtered,
    # with that predicate's position and size
    AT = lambda n_: path([step("attribute", t_name(n_))])
    inner = [AT("x"), AT("id"), bin_(">", AT("x"), num(1)), bin_("=", path([step("self", T_NODE, abbr=True)]), lit("t")), fn("count", path([ch_(T_ANY)])),
             bin_(">", fn("count", path([ch_(T_ANY)])), num(1)), path([ch_(t_name("a"))]), path([step("parent", T_NODE, abbr=True)]), fn("name"),
             fn("position"), fn("last"), bin_("=", fn("position"), fn("last")), num(2), fn("string-length"), path([ch_(T_TEXT)]),
             path([step("following-sibling", T_ANY, num(1), abbr=False)]), fn("not", AT("x")), fn("string", path([step("self", T_NODE, abbr=True)])),
             fn("sum", path([ch_(T_ANY)])), bin_("+", lit("x"), num(1))]
    dyn_tests = []
    for k_, in_ in enumerate(inner):
        w_ = xpgen.xeval("dyn" if k_ % 2 else "xalan", in_)
        dyn_tests += [w_, path([dict(DOS), ch_(T_ANY, w_)], abs_=True), path([ch_(T_NODE, w_)]), fn("count", path([step("descendant-or-self", T_NODE, w_, abbr=False)])),
                      path([step("ancestor-or-self", T_ANY, w_, abbr=False)]), filt(path([dict(DOS), ch_(T_ANY)], abs_=True), w_),
                      path([ch_(T_ANY, bin_("=", fn("string", w_), fn("string", in_)))])]
    for k_, t_ in enumerate(["@@", "1 +", "a[", "", "a b", "'", "foo()", "1 1"]):        # strings that are not expressions (or cannot be evaluated)
        w_ = xpgen.xeval_bad("dyn" if k_ % 2 else "xalan", t_)
        dyn_tests += [w_, fn("count", w_) if k_ % 2 else fn("string", w_), path([ch_(T_ANY, w_)])]
    for d in range(2 if quick else 6):
        n = flats[d]["n"]
        for e in dyn_tests:
            for ctx in (range(1, n + 1) if not quick else sorted(set([1, 2, n] + rng.sample(range(1, n + 1), min(n, 3))))):
                cases.append((d + 1, ctx, 1, 1, e, {}))
    # exsl:node-set() of values that are no node-sets (EXSLT: "converted to a string ... a node-set consisting of a single text node"), seen
    # through the conversions; a node-set argument is returned as it is
    NSET = lambda a_: xpgen.xfn("exsl", "node-set", a_)
    for a_ in [lit("str"), lit(""), lit(" 2 "), num(12), num8(4), fn("true"), fn("false"), bin_("div", num(1), num(0)), bin_("=", lit("x"), lit("x")), neg(num(0)),
               path([step("attribute", t_name("x"))]), path([dict(DOS), step("child", t_name("b"))], abs_=True), fn("number", lit("x"))]:
        w_ = NSET(a_)
        for e in [fn("string", w_), fn("count", w_), fn("boolean", w_), fn("number", w_), fn("not", w_), xpgen.xfn("exsl", "object-type", w_), fn("string-length", w_),
                  fn("concat", w_, lit("|"), w_), bin_("=", w_, lit("str")), bin_("=", w_, num(12)), bin_("<", w_, num(13)), bin_("=", w_, fn("true")), bin_("!=", w_, w_),
                  bin_("+", w_, num(1)), fn("count", NSET(w_))]:
            for ctx in (1, 2, 4):
                cases.append((1, ctx, 1, 1, e, {}))
    # SET FUNCTIONS on runs of equal values (document 7): distinct / difference / intersection / leading / trailing / has-same-node, both libraries
    S_ = [path([dict(DOS), ch_(t_name("b"))], abs_=True), path([dict(DOS), ch_(T_ANY)], abs_=True), path([ch_(T_ANY)]), bin_("|", path([dict(DOS), ch_(t_name("b"))], abs_=True), path([dict(DOS), ch_(t_name("c"))], abs_=True)),
          path([dict(DOS), ch_(T_TEXT)], abs_=True), path([dict(DOS), step("attribute", T_ANY)], abs_=True), bin_("|", path([dict(DOS), ch_(T_ANY)], abs_=True), path([dict(DOS), step("attribute", T_ANY)], abs_=True)),
          path([ch_(T_ANY, bin_(">", fn("position"), num(2)))]), path([step("following-sibling", T_ANY, abbr=False)]), path([step("preceding-sibling", T_ANY, abbr=False)])]
    for lib in ("set", "xalan"):
        for a_ in S_:
            dd = xpgen.xfn(lib, "distinct", a_)
            for e in [dd, fn("count", dd), xpgen.xfn(lib, "distinct", dd), path([step("self", t_name("b"), abbr=False)], start=dd) if False else fn("count", bin_("|", dd, a_))]:
                for ctx in (1, 2, 4, 6, 9):
                    cases.append((7, ctx, 1, 1, e, {}))
        for a_ in S_[:4]:
            for b_ in S_[2:6]:
                for nm_ in (["difference", "intersection", "leading", "trailing"] if lib == "set" else ["difference", "intersection"]):
                    cases.append((7, 2, 1, 1, xpgen.xfn(lib, nm_, a_, b_), {}))
    # math:constant at full precision (string form; see XPathSem!MathConstantString): every constant x precisions from 17 on
    for cn in ["PI", "E", "SQRRT2", "LN2", "LN10", "LOG2E", "SQRT1_2"]:
        for pr in [17, 18, 20, 25, 40, 52, 60, 100]:
            cases.append((1, 1, 1, 1, fn("string", xpgen.xfn("math", "constant", lit(cn), num(pr))), {}))
    nrand = 6000 if quick else 120000
    varsets = [{}, {"n": {"t": "num", "v": {"k": "fin", "neg": False, "m": 16}}, "s": {"t": "str", "v": xdm.cps("t")},
                    "b": {"t": "bool", "v": True}}]
    for _ in range(nrand):
        d = rng.randrange(len(docs))
        n = flats[d]["n"]
        vs = dict(rng.choice(varsets))
        vt = {k: v["t"] for k, v in vs.items()}
        if vs and rng.random() < 0.7:
            ids = sorted(rng.sample(range(1, n + 1), min(n, rng.randint(0, 3))))
            vs["e"] = {"t": "ns", "v": [[d + 1, i, 0] for i in ids]}
            vt["e"] = "ns"
        has_ns = any(u for u in flats[d]["uri"])
        g = xpgen.Gen(rng, vars_=vt, nsmap={"p": "urn:u", "q": "urn:v"} if has_ns else None, ext=rng.random() < 0.35)
        e = g.any(rng.choice([1, 2, 2, 3]))
        size = rng.randint(1, 4)
        cases.append((d + 1, rng.randint(1, n), rng.randint(1, size), size, e, vs))
    # token strings that may or may not be expressions: mutations of the valid ones
    base = [c for c in cases if not c[5]]
    for _ in range(3000 if quick else 40000):
        d, ctx, pos, size, e, vs = rng.choice(base)
        cases.append((d, ctx, pos, size, mutate_tokens(rng, xpgen.render(e)), {}))
    # small scope, exhaustively: EVERY token string up to a length over a fixed alphabet; the grammar of XPathSyntax.tla decides
    # which of them are expressions, and the processor has to agree on each
    import itertools
    full = 3 if quick else 4
    for k in range(1, full + 1):
        alpha = SMALL_ALPHABET if k <= 3 else SMALL_ALPHABET[:14]
        for ts in itertools.product(alpha, repeat=k):
            cases.append((1, 1 + (len(cases) % flats[0]["n"]), 1, 1, " ".join(ts), {}))
    # ... and the same sequences written WITHOUT white space between the tokens (XPath 3.7: the longest possible token is taken; what the
    # characters then spell may be another expression or none - the lexer of the binding says which, XPathSyntax!Parse judges it)
    for k in range(2, 4):
        for ts in itertools.product(COMPACT_ALPHABET, repeat=k):
            cases.append((1, 1 + (len(cases) % flats[0]["n"]), 1, 1, "".join(ts), {}))
    return docs, flats, cases


COMPACT_ALPHABET = ["/", "//", "[", "]", "(", ")", ".", "..", "*", "@", "a", "1", ".5", "|", "::", ",", "and", "-", "child", "text", "=", "<", "!", ":", " "]
SMALL_ALPHABET = ["/", "//", "[", "]", "(", ")", ".", "..", "*", "@", "a", "1", "|", "::", "$", ",", "and", "-", "child", "text", "="]
TOKEN_POOL = ["(", ")", "[", "]", "/", "//", "|", "+", "-", "*", "=", "!=", "<", ">=", ",", "@", ".", "..", "::", "$", "and", "or", "div", "mod",
              "a", "b", "child", "ancestor", "text", "node", "count", "last", "position", "1", "2.5", "'t'", "x", "self", "not", "comment"]


def mutate_tokens(rng, text):
    """a token string obtained from a valid expression by deleting / duplicating / swapping / replacing / inserting a token"""
    toks = xplex.lex(text)
    if not toks or any(t["k"] == "lit" and " " in "".join(map(chr, t["cp"])) for t in toks):
        return text
    parts = xplex.untokenize(toks).split(" ")
    for _ in range(rng.choice([1, 1, 2])):
        i = rng.randrange(len(parts))
        op = rng.choice(["del", "dup", "swap", "rep", "ins"])
        if op == "del" and len(parts) > 1:
            del parts[i]
        elif op == "dup":
            parts.insert(i, parts[i])
        elif op == "swap" and i + 1 < len(parts):
            parts[i], parts[i + 1] = parts[i + 1], parts[i]
        elif op == "rep":
            parts[i] = rng.choice(TOKEN_POOL)
        else:
            parts.insert(i, rng.choice(TOKEN_POOL))
    return " ".join(parts)


def run_cases(docs, flats, cases, wd, kind="native", mode="eval", tag="c02", flavour="hooks", contiguous=False):
    """returns list of events (cases joined with harness results)"""
    exe = vlib.build_harness("xp", flavour)
    nsh = vlib.NCPU
    chunks = [cases[i::nsh] for i in range(nsh)]
    if contiguous:          # neighbours stay neighbours in one process: what one evaluation releases, the next one recycles
        sz = 2 * ((len(cases) + 2 * nsh - 1) // (2 * nsh))
        chunks = [cases[i * sz:(i + 1) * sz] for i in range(nsh)]
    head = {"docs": [doc_xml(t) for t in docs], "kind": kind}
    procs = []
    for s, ch in enumerate(chunks):
        if not ch:
            continue
        cp = os.path.join(wd, "%s-cases-%d.ndjson" % (tag, s))
        with open(cp, "w") as f:
            f.write(json.dumps(head) + "\n")
            for k, (d, ctx, pos, size, e, vs) in enumerate(ch):
                cj = {"id": k, "mode": mode, "doc": d, "ctx": ctx, "pos": pos, "size": size,
                      "text": e if isinstance(e, str) else xpgen.render(e), "vars": {k_: v_ for k_, v_ in vs.items() if k_ != "__cur"}, "ns": NSMAP}
                if "__cur" in vs:
                    cj["cur"] = vs["__cur"]
                f.write(json.dumps(cj) + "\n")
        rp = os.path.join(wd, "%s-res-%d.ndjson" % (tag, s))
        procs.append((s, ch, rp, subprocess.Popen([exe, cp], stdout=open(rp, "w"), stderr=subprocess.PIPE, env=dict(os.environ, ASAN_OPTIONS="detect_leaks=0"))))
    events, crashes = [], []
    for s, ch, rp, p in procs:
        try:
            _, err = p.communicate(timeout=1800)
        except subprocess.TimeoutExpired:
            p.kill(); err = b"TIMEOUT"
        res = {}
        for line in open(rp):            # the last line may be cut off if the process died
            try:
                r = json.loads(line)
                res[r["id"]] = r
            except ValueError:
                pass
        for k, (d, ctx, pos, size, e, vs) in enumerate(ch):
            if k not in res:
                if p.returncode != 0:
                    crashes.append(({"doc": d, "ctx": ctx, "pos": pos, "size": size, "text": e if isinstance(e, str) else xpgen.render(e), "vars": vs,
                                     "xml": head["docs"][d - 1]}, (err or b"").decode("utf8", "replace")[-400:], p.returncode))
                break
            if isinstance(e, str):          # a raw (possibly ill-formed) expression string: no AST is known
                toks = xplex.lex(e)
                ev = {"e": "Eval", "kind": mode, "doc": d, "ctx": ctx, "pos": pos, "size": size, "text": e,
                      "toks": toks or [], "lexok": toks is not None, "vars": vs}
            else:
                text = xpgen.render(e)
                ev = {"e": "Eval", "kind": mode, "doc": d, "ctx": ctx, "pos": pos, "size": size, "text": text,
                      "expr": xpgen.strip_render_only(e), "vars": vs}
                if mode == "eval":
                    toks = xplex.lex(text)
                    ev["toks"] = toks or []; ev["lexok"] = toks is not None
                dt = xpgen.dyn_table(e)
                if dt:
                    ev["dyn"] = [dict({"text": xdm.cps(t_), "toks": xplex.lex(t_) or [], "lexok": xplex.lex(t_) is not None, "bad": a_ is None},
                                      **({} if a_ is None else {"ast": a_})) for t_, a_ in dt]
            ev["nsmap"] = [{"p": xdm.cps(k_), "u": xdm.cps(v_)} for k_, v_ in sorted(NSMAP.items())]
            if "__cur" in vs:
                ev["cur"] = vs["__cur"]
                ev["vars"] = {k_: v_ for k_, v_ in vs.items() if k_ != "__cur"}
            r = res[k]
            for f in ("error", "res", "matched", "targets"):
                if f in r:
                    ev[f] = r[f]
            events.append(ev)
    return events, crashes


def _walk(e):
    if isinstance(e, dict):
        yield e
        for v in e.values():
            yield from _walk(v)
    elif isinstance(e, list):
        for v in e:
            yield from _walk(v)


def _bare_root(e):
    return isinstance(e, dict) and e.get("op") == "path" and e.get("abs") and not e["steps"]


def classify(ev):
    """semantic keys of known deviations (see known_findings.jsonl)"""
    if "expr" not in ev:
        # a token string that is not an expression but was accepted: known leniencies of Xalan's lexer/parser
        if "error" in ev:
            return None
        import re
        t = ev["text"]
        toks = [x["s"] if x["k"] == "sym" else x["k"] for x in ev.get("toks", [])]
        if re.search(r"/\s+/|<\s+=|>\s+=|!\s+=|:\s+:", t):
            return "splitTwoCharacterTokenAccepted"
        for i in range(len(toks) - 1):
            if toks[i] == "(" and toks[i + 1] == ")" and i > 0 and ev["toks"][i - 1]["s"] == "*":
                return "asteriskNodeTypeAccepted"
            if toks[i] == "(" and toks[i + 1] == ")" and (i == 0 or toks[i - 1] != "name" or ev["toks"][i - 1]["s"] in ("and", "or", "div", "mod")):
                return "emptyParenthesesAccepted"
            if toks[i] == "$" and toks[i + 1] != "name":
                return "dollarWithoutNameAccepted"
        if toks and toks[-1] == "$":
            return "dollarWithoutNameAccepted"
        return None
    nodes = list(_walk(ev["expr"]))
    if "error" in ev and "unexpected" in ev["error"]:
        # a bare '/' followed by a token other than ')' or the end of the expression
        for n in nodes:
            if n.get("op") == "bin" and _bare_root(n["a"]):
                return "rootPathBeforeToken"
            if n.get("op") == "fn" and any(_bare_root(a) for a in n["args"][:-1]):
                return "rootPathBeforeToken"
            if "preds" in n and any(_bare_root(p) for p in n["preds"]):
                return "rootPathBeforeToken"
    if "res" in ev and ev["res"].get("t") == "str" and ev["res"]["v"] == []:
        # substring(s, -Infinity) must be the whole string
        for n in nodes:
            if n.get("op") == "fn" and n["name"] == "substring" and len(n["args"]) == 2 and "div 0" in xpgen.render(n["args"][1]):
                return "substring2NegInfStart"
    if "res" in ev and ev["res"].get("t") == "num" and ev["res"]["v"] == {"k": "fin", "neg": False, "m": 0}:
        if ev["expr"].get("op") == "fn" and ev["expr"]["name"] == "round":
            return "roundNegativeZero"
    # a character outside the Basic Multilingual Plane in an operand of a function that counts or indexes characters
    if any(n.get("op") == "str" and any(cp > 0xFFFF for cp in n["v"]) for n in nodes) and \
       any(n.get("op") == "fn" and n["name"] in ("string-length", "substring", "translate") for n in nodes):
        return "supplementaryCharacterCountedAsTwo"
    return None


def validate(res, events, flats, wd, tag, classify_fn, prop):
    dpath = os.path.join(wd, tag + "-docs.ndjson")
    vlib.write_ndjson(dpath, flats)
    rejects, st = vlib.tlc_validate_sharded(TRACE, events, tag=tag, env={"DOCS": dpath}, stateless=True, timeout=3000)
    known = {k["key"]: k for k in vlib.known_findings(prop)}
    for rj in rejects:
        ev = events[rj["line"]]
        if rj["msg"].startswith("SPEC-INCONSISTENT"):
            raise vlib.Infra("specification inconsistency on %r: %s" % (ev["text"], rj["msg"][:8000]))
        key = classify_fn(ev)
        if key and key in known:
            res.known(known[key])
        else:
            res.violation("%s at node %s of doc %s: %s" % (ev["text"], ev["ctx"], ev["doc"], rj["msg"][:200]), [dict(ev, flatdoc=flats[ev["doc"] - 1])])
    return rejects, st


def nontrivial(ev):
    if "error" in ev:
        return False
    r = ev["res"]
    return not (r["v"] in ([], False, "") or (r["t"] == "num" and r["v"]["k"] == "nan"))


def mc_laws(res, tier, wd):
    """model-check the laws of the definition over a bounded document family"""
    fam = list(xdm.enum_docs(5 if tier == "quick" else 6, extras=(xdm.C("c"),)))
    dp = os.path.join(wd, "mc-docs.ndjson")
    vlib.write_ndjson(dp, [xdm.flatten(t) for t in fam])
    r = vlib.tlc_mc(os.path.join(ROOT, "spec/mc/MC_XPath.tla"), name="xpathmc", env={"DOCS": dp}, workers=1, timeout=3000)
    res.add_mc(r, "MC_XPath (laws of XDM/XNum/XPathSem over %d documents)" % len(fam))


MC_POS = os.path.join(ROOT, "spec/mc/MC_PositionCache.tla")


def mc_position_cache(res, wd):
    """PositionCacheImpl: the context-node-list stack with its one-entry position cache answers position() by the definition for
    every sequence of push / pop / position(); without either of the two clears TLC finds the stale answer (the witnesses)."""
    from concurrent.futures import ThreadPoolExecutor
    def cfg(name, push, pop):
        p_ = os.path.join(wd, name)
        open(p_, "w").write("SPECIFICATION Spec\nCONSTANTS N = 3\n MaxLen = 2\n MaxDepth = 3\n ClearOnPush = %s\n ClearOnPop = %s\nINVARIANT PositionIsDefinition\n" % (push, pop))
        return p_
    with ThreadPoolExecutor(max_workers=3) as ex:
        f0 = ex.submit(vlib.tlc_mc, MC_POS, cfg("pc.cfg", "TRUE", "TRUE"), name="c02pc", workers=2, timeout=1500, extra=["-noGenerateSpecTE"])
        f1 = ex.submit(vlib.tlc, MC_POS, cfg("pc1.cfg", "TRUE", "FALSE"), name="c02pc1", workers=1, timeout=1500, extra=["-noGenerateSpecTE"])
        f2 = ex.submit(vlib.tlc, MC_POS, cfg("pc2.cfg", "FALSE", "TRUE"), name="c02pc2", workers=1, timeout=1500, extra=["-noGenerateSpecTE"])
        r, r1, r2 = f0.result(), f1.result(), f2.result()
    res.add_mc(r, "MC_PositionCache (context node list stack + one-entry position cache = the definition of position())")
    for w in (r1, r2):
        if "Invariant PositionIsDefinition is violated" not in w["out"]:
            raise vlib.Infra("MC_PositionCache without one of the cache clears no longer finds the stale position:\n" + w["out"][-1500:])


def run(res, tier, seed):
    rng = random.Random(seed)
    wd = vlib.workdir("c02-%d" % os.getpid())
    mc_laws(res, tier, wd)
    mc_position_cache(res, wd)
    docs, flats, cases = build_cases(rng, tier)
    events, crashes = run_cases(docs, flats, cases, wd)
    for c, err, rc in crashes:
        res.violation("evaluator process died (rc=%s) on %s: %s" % (rc, c["text"], err), [c])
    res.cov["evaluations"] = len(events)
    rejects, st = validate(res, events, flats, wd, "c02tv", classify, PROP)
    res.notes["dropped_outside_number_domain"] = st["dropped"]
    res.notes["tv_states"] = st["tv_states"]
    res.cov["traces_validated_against_impl"] = len(events) - len(rejects) - st["dropped"]
    res.cov["distinct_nontrivial"] = len({vlib.canon_hash([e["text"], e["doc"], e["ctx"], e["pos"], e["size"], e["vars"]]) for e in events if nontrivial(e)})
    res.cov["rule"] = ("systematic families (12 axes x node tests x positional predicates from sampled context nodes; comparison matrix of all "
                       "type pairs x 6 operators; arithmetic precedence/associativity pairs; core-function tables; the value-object reuse family "
                       "(a op b) op c over string/number literals and computed strings; nested positional predicates (inner path with its own position() predicate inside an outer "
                       "positional predicate); string functions with non-string arguments; interior white space) + seeded random typed "
                       "expressions of depth 1-3 over %d documents; non-trivial = result is not an error, empty node-set, false, '' or NaN; "
                       "distinct by (text, document, context, position, size, variables)" % len(docs))
    for ev in events[::max(1, len(events) // 4)][:4]:
        res.sample({k: ev[k] for k in ("text", "doc", "ctx", "pos", "size") if k in ev} | {"res": ev.get("res", ev.get("error"))})
    res.assumptions += ["numbers outside the dyadic domain m/8, |x| < 2^22 are not judged (dropped cases are counted)",
                        "the AST-to-text renderer (tools/xpgen.py) is trusted to print the AST it was given with minimal parentheses",
                        "namespace axis, key(), document() and extension functions are not generated in this check yet"]


def replay(path):
    events = vlib.read_ndjson(path)
    flats = [None] * max(e["doc"] for e in events)
    for e in events:
        flats[e["doc"] - 1] = e.pop("flatdoc")
    wd = vlib.workdir("c02replay")
    dpath = os.path.join(wd, "docs.ndjson")
    vlib.write_ndjson(dpath, [f or flats[[x for x in range(len(flats)) if flats[x]][0]] for f in flats])
    rejects, _ = vlib.tlc_validate_sharded(TRACE, events, shards=1, tag="c02replay", env={"DOCS": dpath}, stateless=True)
    for r in rejects:
        print("REJECTED: %s" % r["msg"])
    return 1 if rejects else 0
