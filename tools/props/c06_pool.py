"""C06 - the document pool replayed by harness/c06.cpp.  Names are the ones spec/system/TransformerPool.tla uses;
the texts are only ever seen by the real library (the specification knows the *role* of each document, the
expected results are learned from Fresh events).

stylesheets  S1 plain                                   S2 nested scopes, xsl:message terminate guarded by $p
             S3 keys/number/RTF/sort/document('')/fmt   S4 extension function + top-level param
             S5 top-level variable (result-tree fragment, lazily evaluated, referenced through a second top-level
                variable) whose evaluation is aborted by xsl:message terminate when $p = 'stop'
             S6 top-level variable whose select uses $p as a node-set: run-time XPath error whenever p is set
             SE unknown output encoding                 SU character the output encoding cannot represent (text)
             SM document() of a missing file            SX not well-formed         SV well-formed, not valid XSLT
sources      D1, D2 (different sizes and key values), DX not well-formed
values       str = the string expression 'stop', num = the number 2 (double overload -> XObject of the
             transformer's own factory), obj = an XObjectPtr string "obj" made by getXObjectFactory()."""

XSL = 'xmlns:xsl="http://www.w3.org/1999/XSL/Transform"'

S1 = """<?xml version="1.0"?>
<xsl:stylesheet version="1.0" %s>
<xsl:output method="xml" omit-xml-declaration="yes"/>
<xsl:param name="p" select="'dflt'"/>
<xsl:template match="/"><out p="{$p}"><xsl:apply-templates select="doc/item"/></out></xsl:template>
<xsl:template match="item"><i n="{@n}"><xsl:value-of select="."/></i></xsl:template>
</xsl:stylesheet>
""" % XSL

# S2 and S3 both declare a key named k (different use) and have a level="any" xsl:number as their first xsl:number
# (different count patterns): a key table or counter surviving a run is observable when the same parsed source
# is transformed by the other stylesheet.
# With $p = 'stop' and source D2 (an item with n=8) S2 terminates inside nested attribute sets (the element recursion
# stack is not empty then); with D1 it terminates deeper, in the mode-m template.
# fails (when $p = 'stop') inside: template(mode m) <- apply-templates <- attribute <- element <- variable (RTF)
# <- for-each (sorted) <- call-template with-param <- for-each <- literal element; otherwise succeeds.
S2 = """<?xml version="1.0"?>
<xsl:stylesheet version="1.0" %s>
<xsl:output method="xml" indent="yes" encoding="ISO-8859-1" cdata-section-elements="c"/>
<xsl:param name="p" select="'go'"/>
<xsl:variable name="g" select="count(/doc/item)"/>
<xsl:key name="k" match="item" use="string-length(.)"/>
<xsl:attribute-set name="as"><xsl:attribute name="cnt"><xsl:value-of select="$g"/></xsl:attribute></xsl:attribute-set>
<xsl:attribute-set name="as2" use-attribute-sets="as"><xsl:attribute name="b"><xsl:apply-templates select="." mode="m2"/></xsl:attribute></xsl:attribute-set>
<xsl:template match="/">
<r p="{$p}" xsl:use-attribute-sets="as">
<xsl:for-each select="doc/item">
<xsl:sort select="@n" data-type="number"/>
<xsl:variable name="v" select="@n * 2"/>
<xsl:call-template name="t"><xsl:with-param name="x" select="$v"/><xsl:with-param name="pos" select="position()"/></xsl:call-template>
</xsl:for-each>
<c>&lt;&#233;&gt;</c>
</r>
</xsl:template>
<xsl:template name="t">
<xsl:param name="x"/><xsl:param name="pos"/>
<xsl:for-each select="../item[@n &lt;= $x]">
<xsl:sort select="." order="descending"/>
<xsl:variable name="w"><x><xsl:value-of select="."/></x><xsl:comment>c</xsl:comment></xsl:variable>
<xsl:element name="e{$pos}" use-attribute-sets="as2">
<xsl:attribute name="a"><xsl:value-of select="$w"/>-<xsl:apply-templates select="." mode="m"><xsl:with-param name="pos" select="$pos"/></xsl:apply-templates></xsl:attribute>
<xsl:copy-of select="$w"/>
</xsl:element>
</xsl:for-each>
</xsl:template>
<xsl:template match="item" mode="m">
<xsl:param name="pos"/>
<xsl:variable name="z" select="string(@n)"/>
<xsl:if test="$p = 'stop' and $pos = 2 and position() = last()"><xsl:message terminate="yes">halt at <xsl:value-of select="$z"/></xsl:message></xsl:if>
<xsl:value-of select="concat($z, '/', $pos, '/')"/><xsl:number level="any" count="item[@n &gt; 1]" format="A"/>/<xsl:value-of select="count(key('k', 1))"/>
</xsl:template>
<xsl:template match="item" mode="m2">
<xsl:if test="$p = 'stop' and @n = 8"><xsl:message terminate="yes">halt inside an attribute set</xsl:message></xsl:if>
<xsl:value-of select="@n"/>
</xsl:template>
<xsl:template match="item"><bad-mode/></xsl:template>
</xsl:stylesheet>
""" % XSL

# run-time type error (string -> node-set) deep inside a sorted for-each when $p = 'stop'.
S3 = """<?xml version="1.0"?>
<xsl:stylesheet version="1.0" %s>
<xsl:output method="xml" omit-xml-declaration="yes"/>
<xsl:param name="p" select="1"/>
<xsl:key name="k" match="item" use="@n mod 2"/>
<xsl:key name="byval" match="item" use="."/>
<xsl:decimal-format name="eu" decimal-separator="," grouping-separator="."/>
<xsl:variable name="rtf"><a>1</a><a>2</a></xsl:variable>
<xsl:template match="/">
<o>
<xsl:for-each select="doc/item">
<xsl:sort select="." order="descending"/>
<xsl:variable name="peers" select="key('k', @n mod 2)"/>
<n><xsl:number level="any" count="item"/>.<xsl:number level="single" count="item" format="a"/>:<xsl:value-of select="count($peers)"/>:<xsl:value-of select="format-number(@n * 1234.5, '#.##0,00', 'eu')"/>:<xsl:value-of select="generate-id(key('byval', 'a')) = generate-id(.)"/></n>
<xsl:if test="$p = 'stop' and position() = 2"><xsl:value-of select="count($p/x)"/></xsl:if>
</xsl:for-each>
<s><xsl:value-of select="count(document('')/*/xsl:key)"/></s>
<f><xsl:copy-of select="$rtf"/>|<xsl:value-of select="$rtf"/>|<xsl:value-of select="$p"/></f>
</o>
</xsl:template>
</xsl:stylesheet>
""" % XSL

S4 = """<?xml version="1.0"?>
<xsl:stylesheet version="1.0" %s xmlns:ext="http://verif.example/c06" exclude-result-prefixes="ext">
<xsl:output method="text"/>
<xsl:param name="p" select="7"/>
<xsl:template match="/">
<xsl:for-each select="doc/item"><xsl:variable name="q" select="@n"/>f(<xsl:value-of select="$q"/>)=<xsl:value-of select="ext:f($q + number($p = 'stop'))"/>;</xsl:for-each>p=<xsl:value-of select="$p"/>;fp=<xsl:value-of select="ext:f($p)"/></xsl:template>
</xsl:stylesheet>
""" % XSL

# S5 / S6: the failure happens INSIDE the lazy evaluation of a top-level variable (the variables stack then holds the
# "evaluation in progress" marks used to detect circular definitions); a later run of the SAME compiled stylesheet
# that references the variable shows whether they were cleaned up.
S5 = """<?xml version="1.0"?>
<xsl:stylesheet version="1.0" %s>
<xsl:output method="xml" omit-xml-declaration="yes"/>
<xsl:param name="p" select="'go'"/>
<xsl:variable name="g"><xsl:for-each select="/doc/item"><xsl:if test="$p = 'stop' and position() = 2"><xsl:message terminate="yes">halt inside a top-level variable</xsl:message></xsl:if><v><xsl:value-of select="@n"/></v></xsl:for-each></xsl:variable>
<xsl:variable name="h" select="concat($g, '!', $p)"/>
<xsl:template match="/"><t><xsl:apply-templates select="doc/item[1]"/></t></xsl:template>
<xsl:template match="item"><xsl:value-of select="$h"/>|<xsl:copy-of select="$g"/></xsl:template>
</xsl:stylesheet>
""" % XSL

S6 = """<?xml version="1.0"?>
<xsl:stylesheet version="1.0" %s>
<xsl:output method="xml" omit-xml-declaration="yes"/>
<xsl:param name="p" select="/doc"/>
<xsl:variable name="g" select="count($p/item)"/>
<xsl:template match="/"><u><xsl:for-each select="doc/item"><xsl:value-of select="$g + @n"/>,</xsl:for-each></u></xsl:template>
</xsl:stylesheet>
""" % XSL

SE = """<?xml version="1.0"?>
<xsl:stylesheet version="1.0" %s>
<xsl:output method="xml" encoding="x-no-such-encoding"/>
<xsl:template match="/"><out><xsl:value-of select="count(doc/item)"/></out></xsl:template>
</xsl:stylesheet>
""" % XSL

SU = """<?xml version="1.0"?>
<xsl:stylesheet version="1.0" %s>
<xsl:output method="text" encoding="US-ASCII"/>
<xsl:template match="/"><xsl:for-each select="doc/item"><xsl:variable name="v" select="."/><xsl:value-of select="$v"/>,</xsl:for-each>&#x20AC;<xsl:value-of select="count(doc/item)"/></xsl:template>
</xsl:stylesheet>
""" % XSL

SM = """<?xml version="1.0"?>
<xsl:stylesheet version="1.0" %s>
<xsl:output method="xml" omit-xml-declaration="yes"/>
<xsl:template match="/"><m><xsl:for-each select="doc/item[1]"><xsl:variable name="d" select="document('file:///nonexistent/c06-missing.xml')"/><xsl:value-of select="count($d/*)"/></xsl:for-each></m></xsl:template>
</xsl:stylesheet>
""" % XSL

SX = """<?xml version="1.0"?>
<xsl:stylesheet version="1.0" %s>
<xsl:template match="/"><out><xsl:value-of select="1"/></xsl:template>
</xsl:stylesheet>
""" % XSL

SV = """<?xml version="1.0"?>
<xsl:stylesheet version="1.0" %s>
<xsl:template match="/"><out><xsl:value-of/></out></xsl:template>
</xsl:stylesheet>
""" % XSL

D1 = """<?xml version="1.0"?>
<doc><item n="3">c</item><item n="1">a</item><item n="2">b</item></doc>
"""
D2 = """<?xml version="1.0"?>
<doc><item n="4">y</item><item n="6">a</item><item n="5">x</item><item n="8">w</item></doc>
"""
DX = """<?xml version="1.0"?>
<doc><item n="1">a</item><item>
"""

POOL = {
    "ss": {"S1": S1, "S2": S2, "S3": S3, "S4": S4, "S5": S5, "S6": S6, "SE": SE, "SU": SU, "SM": SM, "SX": SX, "SV": SV},
    "src": {"D1": D1, "D2": D2, "DX": DX},
    "vals": {"str": {"form": "expr", "text": "'stop'"},
             "num": {"form": "num", "num": 2},
             "obj": {"form": "obj", "text": "obj"}},
    "fns": {"f": {"ns": "http://verif.example/c06", "name": "f"}},
}
