"""C06 - the document pool replayed by harness/c06.cpp.  Names are the ones spec/system/TransformerPool.tla uses;
the texts are only ever seen by the real library (the specification knows the *role* of each document, the
expected results are learned from Fresh events).

stylesheets  S1 plain                                   S2 nested scopes, xsl:message terminate guarded by $p
             S3 keys/number/RTF/sort/document('')/fmt   S4 extension function + top-level param
             S5 top-level variable (result-tree fragment, lazily evaluated, referenced through a second top-level
                variable) whose evaluation is aborted by xsl:message terminate when $p = 'stop'
             S6 top-level variable whose select uses $p as a node-set: run-time XPath error whenever p is set
             S8 result-tree-fragment bodies (variable, with-param) aborted by xsl:message right after text was written to the fragment
                ($p = 'stop': in the variable, $p = 2: in the with-param)
             S7 sorts whose key evaluation fails part-way ($p = 'stop': the text-keyed sort, $p = 2: the number-keyed one)
             SD1 / SD2 value-keyed caches that outlive a call (the transformer's ICU number formatter caches DecimalFormat
                objects by the VALUE of the decimal-format symbols, its collation functor caches collators by locale):
                named decimal-formats d0..d9 where SD2's dK differs from SD1's dK in exactly the K-th symbol, and a
                default decimal-format; every symbol is made visible by format-number calls
             SE unknown output encoding                 SU character the output encoding cannot represent (text)
             SM document() of a missing file            SX not well-formed         SV well-formed, not valid XSLT
sources      D1, D2 (different sizes and key values), DX not well-formed
values       str = the string expression 'stop', num = the number 2 (double overload -> XObject of the
             transformer's own factory), obj = an XObjectPtr string "obj" made by getXObjectFactory()."""

XSL = 'xmlns:xsl="http://www.w3.org/1999/XSL/Transform"'

S1 = """<?xml version="1.0"?>
<xsl:stylesheet version="1.0" %s>
<xsl:output method="xml" omit-xml-declaration="yes"/>
<xsl:param name="p" select="'dflt'"/>
<xsl:template match="/"><out p="{$p}" d="{1 div $p}"><xsl:apply-templates select="doc/item"/></out></xsl:template>
<xsl:template match="item"><i n="{@n}"><xsl:value-of select="."/></i></xsl:template>
</xsl:stylesheet>
""" % XSL

# S2 and S3 both declare a key named k (different use) and have a level="any" xsl:number as their first xsl:number
# (different count patterns): a key table or counter surviving a run is observable when the same parsed source
# is transformed by the other stylesheet.
# With $p = 'stop' and source D2 (an item with n=8) S2 terminates inside nested attribute sets (the element recursion
# stack is not empty then); with D1 it terminates deeper, in the mode-m template.
# fails (when $p = 'stop') inside: template(mode m) <- apply-templates <- attribute <- element <- variable (RTF)
# <- for-each (sorted) <- call-template with-param <- for-each <- literal element; otherwise succeeds.
S2 = """<?xml version="1.0"?>
<xsl:stylesheet version="1.0" %s>
<xsl:output method="xml" indent="yes" encoding="ISO-8859-1" cdata-section-elements="c"/>
<xsl:param name="p" select="'go'"/>
<xsl:variable name="g" select="count(/doc/item)"/>
<xsl:key name="k" match="item" use="string-length(.)"/>
<xsl:attribute-set name="as"><xsl:attribute name="cnt"><xsl:value-of select="$g"/></xsl:attribute></xsl:attribute-set>
<xsl:attribute-set name="as2" use-attribute-sets="as"><xsl:attribute name="b"><xsl:apply-templates select="." mode="m2"/></xsl:attribute></xsl:attribute-set>
<xsl:template match="/">
<r p="{$p}" xsl:use-attribute-sets="as">
<xsl:for-each select="doc/item">
<xsl:sort select="@n" data-type="number"/>
<xsl:variable name="v" select="@n * 2"/>
<xsl:call-template name="t"><xsl:with-param name="x" select="$v"/><xsl:with-param name="pos" select="position()"/></xsl:call-template>
</xsl:for-each>
<c>&lt;&#233;&gt;</c>
</r>
</xsl:template>
<xsl:template name="t">
<xsl:param name="x"/><xsl:param name="pos"/>
<xsl:for-each select="../item[@n &lt;= $x]">
<xsl:sort select="." order="descending"/>
<xsl:variable name="w"><x><xsl:value-of select="."/></x><xsl:comment>c</xsl:comment></xsl:variable>
<xsl:element name="e{$pos}" use-attribute-sets="as2">
<xsl:attribute name="a"><xsl:value-of select="$w"/>-<xsl:apply-templates select="." mode="m"><xsl:with-param name="pos" select="$pos"/></xsl:apply-templates></xsl:attribute>
<xsl:copy-of select="$w"/>
</xsl:element>
</xsl:for-each>
</xsl:template>
<xsl:template match="item" mode="m">
<xsl:param name="pos"/>
<xsl:variable name="z" select="string(@n)"/>
<xsl:if test="$p = 'stop' and $pos = 2 and position() = last()"><xsl:message terminate="yes">halt at <xsl:value-of select="$z"/></xsl:message></xsl:if>
<xsl:value-of select="concat($z, '/', $pos, '/')"/><xsl:number level="any" count="item[@n &gt; 1]" format="A"/>/<xsl:value-of select="count(key('k', 1))"/>
</xsl:template>
<xsl:template match="item" mode="m2">
<xsl:if test="$p = 'stop' and @n = 8"><xsl:message terminate="yes">halt inside an attribute set</xsl:message></xsl:if>
<xsl:value-of select="@n"/>
</xsl:template>
<xsl:template match="item"><bad-mode/></xsl:template>
</xsl:stylesheet>
""" % XSL

# run-time type error (string -> node-set) deep inside a sorted for-each when $p = 'stop'.
S3 = """<?xml version="1.0"?>
<xsl:stylesheet version="1.0" %s>
<xsl:output method="xml" omit-xml-declaration="yes"/>
<xsl:param name="p" select="1"/>
<xsl:key name="k" match="item" use="@n mod 2"/>
<xsl:key name="byval" match="item" use="."/>
<xsl:decimal-format name="eu" decimal-separator="," grouping-separator="."/>
<xsl:variable name="rtf"><a>1</a><a>2</a></xsl:variable>
<xsl:template match="/">
<o>
<xsl:for-each select="doc/item">
<xsl:sort select="." order="descending"/>
<xsl:variable name="peers" select="key('k', @n mod 2)"/>
<n><xsl:number level="any" count="item"/>.<xsl:number level="single" count="item" format="a"/>:<xsl:value-of select="count($peers)"/>:<xsl:value-of select="format-number(@n * 1234.5, '#.##0,00', 'eu')"/>:<xsl:value-of select="generate-id(key('byval', 'a')) = generate-id(.)"/></n>
<xsl:if test="$p = 'stop' and position() = 2"><xsl:value-of select="count($p/x)"/></xsl:if>
</xsl:for-each>
<s><xsl:value-of select="count(document('')/*/xsl:key)"/></s>
<f><xsl:copy-of select="$rtf"/>|<xsl:value-of select="$rtf"/>|<xsl:value-of select="$p"/></f>
</o>
</xsl:template>
</xsl:stylesheet>
""" % XSL

S4 = """<?xml version="1.0"?>
<xsl:stylesheet version="1.0" %s xmlns:ext="http://verif.example/c06" exclude-result-prefixes="ext">
<xsl:output method="text"/>
<xsl:param name="p" select="7"/>
<xsl:template match="/">
<xsl:for-each select="doc/item"><xsl:variable name="q" select="@n"/>f(<xsl:value-of select="$q"/>)=<xsl:value-of select="ext:f($q + number($p = 'stop'))"/>;</xsl:for-each>p=<xsl:value-of select="$p"/>;fp=<xsl:value-of select="ext:f($p)"/></xsl:template>
</xsl:stylesheet>
""" % XSL

# S9: calls ext:g, a second function of the namespace of ext:f (installing / uninstalling one must not touch the other)
S9 = """<?xml version="1.0"?>
<xsl:stylesheet version="1.0" %s xmlns:ext="http://verif.example/c06" exclude-result-prefixes="ext">
<xsl:output method="text"/>
<xsl:param name="p" select="7"/>
<xsl:template match="/">fa=<xsl:value-of select="function-available('ext:f')"/>;ga=<xsl:value-of select="function-available('ext:g')"/>;ha=<xsl:value-of select="function-available('ext:h')"/>;g=<xsl:value-of select="ext:g(count(doc/item))"/>;d=<xsl:value-of select="1 div $p"/></xsl:template>
</xsl:stylesheet>
""" % XSL

# S5 / S6: the failure happens INSIDE the lazy evaluation of a top-level variable (the variables stack then holds the
# "evaluation in progress" marks used to detect circular definitions); a later run of the SAME compiled stylesheet
# that references the variable shows whether they were cleaned up.
S5 = """<?xml version="1.0"?>
<xsl:stylesheet version="1.0" %s>
<xsl:output method="xml" omit-xml-declaration="yes"/>
<xsl:param name="p" select="'go'"/>
<xsl:variable name="g"><xsl:for-each select="/doc/item"><xsl:if test="$p = 'stop' and position() = 2"><xsl:message terminate="yes">halt inside a top-level variable</xsl:message></xsl:if><v><xsl:value-of select="@n"/></v></xsl:for-each></xsl:variable>
<xsl:variable name="h" select="concat($g, '!', $p)"/>
<xsl:template match="/"><t><xsl:apply-templates select="doc/item[1]"/></t></xsl:template>
<xsl:template match="item"><xsl:value-of select="$h"/>|<xsl:copy-of select="$g"/></xsl:template>
</xsl:stylesheet>
""" % XSL

S6 = """<?xml version="1.0"?>
<xsl:stylesheet version="1.0" %s>
<xsl:output method="xml" omit-xml-declaration="yes"/>
<xsl:param name="p" select="/doc"/>
<xsl:variable name="g" select="count($p/item)"/>
<xsl:template match="/"><u><xsl:for-each select="doc/item"><xsl:value-of select="$g + @n"/>,</xsl:for-each></u></xsl:template>
</xsl:stylesheet>
""" % XSL

# ---- SD1 / SD2 ---------------------------------------------------------------------------------------------------
# dK = the base symbols with the K-th symbol replaced by variant A (SD1) or B (SD2), so SD1.dK and SD2.dK differ in
# exactly one symbol and all formats of one stylesheet are distinct (10 = the size of Xalan's formatter cache; the
# default decimal-format has the symbols of d9, so it shares d9's cache entry and nothing is evicted within a run).
# A formatter cached under an equality that ignores symbol K is found by SD2.dK after SD1 ran (and vice versa) and
# prints SD1's symbol.  digit and pattern-separator are picture-only characters: the picture is translated with the
# format's own symbols before the cached formatter is used, so they can not show in the output by construction.
DF_SYMBOLS = ["decimal-separator", "grouping-separator", "infinity", "minus-sign", "NaN", "percent", "per-mille",
              "zero-digit", "digit", "pattern-separator"]
DF_BASE = {"decimal-separator": ".", "grouping-separator": ",", "infinity": "Infinity", "minus-sign": "-", "NaN": "NaN",
           "percent": "%", "per-mille": "‰", "zero-digit": "0", "digit": "#", "pattern-separator": ";"}
DF_VARIANTS = {"decimal-separator": (":", "!"), "grouping-separator": ("_", "~"), "infinity": ("INF", "oo"),
               "minus-sign": ("^", "="), "NaN": ("n/a", "missing"), "percent": ("@", "?"), "per-mille": ("*", "+"),
               "zero-digit": ("٠", "०"), "digit": ("X", "x"), "pattern-separator": ("/", "|")}


def _xml(s):
    return s.replace("&", "&amp;").replace("<", "&lt;").replace('"', "&quot;")


def _decimal_format_sheet(which, collation):
    decls, calls = [], []
    for k, sym in enumerate(DF_SYMBOLS):
        f = dict(DF_BASE); f[sym] = DF_VARIANTS[sym][which]
        attrs = " ".join('%s="%s"' % (a, _xml(f[a])) for a in DF_SYMBOLS)
        decls.append('<xsl:decimal-format name="d%d" %s/>' % (k, attrs))
        if k == 9:
            decls.append('<xsl:decimal-format %s/>' % attrs)
        D, G, Z, H, P = f["decimal-separator"], f["grouping-separator"], f["zero-digit"], f["digit"], f["pattern-separator"]
        pics = [("1234567.891", H + G + H + H + Z + D + Z + Z),                    # grouped decimal
                ("-42.5", H + G + H + H + Z + D + Z),                             # negative, default minus
                ("number('x')", H + Z + D + Z),                                   # NaN
                ("1 div 0", H + Z + D + Z), ("-1 div 0", H + Z + D + Z),           # infinity
                ("0.256", H + Z + D + Z + f["percent"]),                          # percentage
                ("0.256", H + Z + f["per-mille"]),                                # per-mille
                ("-7.5", H + Z + D + Z + P + "(" + H + Z + D + Z + ")")]          # negative sub-pattern
        one = "".join('<v><xsl:value-of select="format-number(%s, \'%s\', \'d%d\')"/></v>' % (n, _xml(pic), k) for n, pic in pics)
        calls.append('<f n="d%d">%s</f>' % (k, one))
        if k == 9:
            calls.append('<f n="default">%s</f>' % "".join(
                '<v><xsl:value-of select="format-number(%s, \'%s\')"/></v>' % (n, _xml(pic)) for n, pic in pics))
    return """<?xml version="1.0" encoding="UTF-8"?>
<xsl:stylesheet version="1.0" %s>
<xsl:output method="xml" omit-xml-declaration="yes" encoding="UTF-8"/>
%s
<xsl:variable name="words"><w>b</w><w>B</w><w>a</w><w>A</w><w>ä</w><w>z</w></xsl:variable>
<xsl:template match="/">
<fmt items="{count(doc/item)}">
%s
<s><xsl:for-each select="document('')/*/xsl:variable[@name='words']/w"><xsl:sort select="." %s/><xsl:value-of select="."/></xsl:for-each></s>
</fmt>
</xsl:template>
</xsl:stylesheet>
""" % (XSL, "\n".join(decls), "\n".join(calls), collation)


SD1 = _decimal_format_sheet(0, 'lang="en" case-order="upper-first"')
SD2 = _decimal_format_sheet(1, 'lang="en" case-order="lower-first"')

# S7: the failure happens INSIDE the evaluation of a sort key, after the keys of some nodes have been computed (the node sorter keeps
# per-position key caches for the duration of one sort): with $p = 'stop' the text-keyed sort fails at the item with n = 2 / n = 5, with
# $p = 2 the number-keyed one does.  The keys reverse the order of @n, so key values left over from another run are visible.
S7 = """<?xml version="1.0"?>
<xsl:stylesheet version="1.0" %s>
<xsl:output method="text"/>
<xsl:param name="p" select="'go'"/>
<xsl:template match="/">
<xsl:for-each select="doc/item"><xsl:sort select="concat(9 - @n, function-available(concat(substring('zz:', 1, 3 * number((@n = 2 or @n = 5) and $p = 'stop')), 'f')))"/><xsl:value-of select="@n"/>,</xsl:for-each>
<xsl:text>|</xsl:text>
<xsl:for-each select="doc/item"><xsl:sort data-type="number" select="(10 - @n) + number(function-available(concat(substring('zz:', 1, 3 * number((@n = 2 or @n = 5) and $p = 2)), 'f')))"/><xsl:value-of select="."/>,</xsl:for-each>
<xsl:text>|</xsl:text>
<xsl:apply-templates select="doc/item"><xsl:sort select="."/></xsl:apply-templates>
</xsl:template>
<xsl:template match="item">[<xsl:value-of select="position()"/>:<xsl:value-of select="@n"/>]</xsl:template>
</xsl:stylesheet>
""" % XSL

# S8: the failure happens inside the body of a result-tree-fragment variable / with-param / param default, right AFTER text has been
# written to the fragment and before anything else is (the fragment builder still holds the text); without the parameter the same bodies
# complete, so text left behind by an aborted run would show at the start of the next fragment
S8 = """<?xml version="1.0"?>
<xsl:stylesheet version="1.0" %s>
<xsl:output method="xml" omit-xml-declaration="yes"/>
<xsl:param name="p" select="'go'"/>
<xsl:template match="/">
<out>
<xsl:variable name="v">pending-v<xsl:if test="$p = 'stop'"><xsl:message terminate="yes">stop in variable</xsl:message></xsl:if><e/>tail</xsl:variable>
<v n="{string-length($v)}"><xsl:copy-of select="$v"/></v>
<xsl:call-template name="t"><xsl:with-param name="w">pending-w<xsl:if test="$p = 2"><xsl:message terminate="yes">stop in with-param</xsl:message></xsl:if><f/></xsl:with-param></xsl:call-template>
<xsl:for-each select="doc/item"><xsl:variable name="i"><xsl:value-of select="."/>-<xsl:value-of select="@n"/></xsl:variable><i><xsl:copy-of select="$i"/></i></xsl:for-each>
</out>
</xsl:template>
<xsl:template name="t"><xsl:param name="w"/><xsl:param name="d">default-d<g/></xsl:param><w n="{string-length($w)}"><xsl:copy-of select="$w"/></w><d><xsl:copy-of select="$d"/></d></xsl:template>
</xsl:stylesheet>
""" % XSL

SE = """<?xml version="1.0"?>
<xsl:stylesheet version="1.0" %s>
<xsl:output method="xml" encoding="x-no-such-encoding"/>
<xsl:template match="/"><out><xsl:value-of select="count(doc/item)"/></out></xsl:template>
</xsl:stylesheet>
""" % XSL

SU = """<?xml version="1.0"?>
<xsl:stylesheet version="1.0" %s>
<xsl:output method="text" encoding="US-ASCII"/>
<xsl:template match="/"><xsl:for-each select="doc/item"><xsl:variable name="v" select="."/><xsl:value-of select="$v"/>,</xsl:for-each>&#x20AC;<xsl:value-of select="count(doc/item)"/></xsl:template>
</xsl:stylesheet>
""" % XSL

SM = """<?xml version="1.0"?>
<xsl:stylesheet version="1.0" %s>
<xsl:output method="xml" omit-xml-declaration="yes"/>
<xsl:template match="/"><m><xsl:for-each select="doc/item[1]"><xsl:variable name="d" select="document('file:///nonexistent/c06-missing.xml')"/><xsl:value-of select="count($d/*)"/></xsl:for-each></m></xsl:template>
</xsl:stylesheet>
""" % XSL

SX = """<?xml version="1.0"?>
<xsl:stylesheet version="1.0" %s>
<xsl:template match="/"><out><xsl:value-of select="1"/></xsl:template>
</xsl:stylesheet>
""" % XSL

SV = """<?xml version="1.0"?>
<xsl:stylesheet version="1.0" %s>
<xsl:template match="/"><out><xsl:value-of/></out></xsl:template>
</xsl:stylesheet>
""" % XSL

D1 = """<?xml version="1.0"?>
<doc><item n="3">c</item><item n="1">a</item><item n="2">b</item></doc>
"""
D2 = """<?xml version="1.0"?>
<doc><item n="4">y</item><item n="6">a</item><item n="5">x</item><item n="8">w</item></doc>
"""
DX = """<?xml version="1.0"?>
<doc><item n="1">a</item><item>
"""

POOL = {
    "ss": {"S1": S1, "S2": S2, "S3": S3, "S4": S4, "S5": S5, "S6": S6, "S7": S7, "S8": S8, "S9": S9, "SD1": SD1, "SD2": SD2, "SE": SE, "SU": SU, "SM": SM, "SX": SX, "SV": SV},
    "src": {"D1": D1, "D2": D2, "DX": DX},
    "vals": {"str": {"form": "expr", "text": "'stop'"},
             "num": {"form": "num", "num": 2},
             "obj": {"form": "obj", "text": "obj"},
             "nz": {"form": "num", "num": 0, "sign": "-"},        # -0.0 and +0.0 through the double overload: 1 div $p tells them apart
             "pz": {"form": "num", "num": 0}},
    "fns": {"f": {"ns": "http://verif.example/c06", "name": "f"}, # g, h: installed process-wide (installExternalFunctionGlobal), in the namespace of f
            "g": {"ns": "http://verif.example/c06", "name": "g", "scope": "global"}, "h": {"ns": "http://verif.example/c06", "name": "h", "scope": "global"}},
}
