"""C17 - xsl:number counts per XSLT 7.7, independent of evaluation history; formatting decodes back.
MC : MC_Numbering.tla - 7.7.1 conversion laws for 1..5000 (decimal, zero padded, alphabetic carry, roman).
GEN: seeded documents x xsl:number instructions (level single/multiple/any, count/from patterns or defaults) x
     visiting orders of the nodes (document order, reverse, shuffled) - ONE instruction instance numbers all visited
     nodes of a run, so its counter cache is exercised; plus value=/format= cases.
RUN: harness/xslt.cpp; the result tree holds one <n> per visited node.
TV : Trace_C17.tla - each string equals FormatList(NumberList(...))."""
import os, random, json, subprocess
from xml.sax.saxutils import quoteattr
import vlib, xdm, xpgen, tlaparse, json
from xpgen import *
from vlib import ROOT
from props import c02

PROP = "C17"
TRACE = os.path.join(ROOT, "spec/trace/Trace_C17.tla")
XSLNS = 'xmlns:xsl="http://www.w3.org/1999/XSL/Transform"'


def pat_pool():
    P = lambda *steps, **kw: path(list(steps), **kw)
    ch = lambda t, *p: step("child", t, *p)
    a, b, c_ = t_name("a"), t_name("b"), t_name("c")
    return [P(ch(a)), P(ch(b)), P(ch(c_)), P(ch(T_ANY)), bin_("|", P(ch(a)), P(ch(b))), bin_("|", P(ch(b)), P(ch(c_))),
            P(ch(T_ANY, P(step("attribute", t_name("x"))))), P(ch(T_TEXT)), P(ch(a), ch(b)), P(ch(T_ANY), ch(b)), P(ch(b, P(ch(T_ANY)))),
            # patterns that match attributes (the current node may be one: 7.7 counts it, and no other attribute, among the nodes before it)
            P(step("attribute", T_ANY)), bin_("|", P(ch(T_ANY)), P(step("attribute", T_ANY))), bin_("|", P(step("attribute", t_name("x"))), P(ch(b))), P(ch(T_NODE))]


def gen_instr(rng):
    pool = pat_pool()
    ins = {"level": rng.choice(["single", "multiple", "any"]), "hasCount": rng.random() < 0.7, "hasFrom": rng.random() < 0.35}
    ins["count"] = rng.choice(pool)
    ins["from"] = rng.choice(pool[:6])
    return ins


FORMATS = ["1", "1", "1", "01", "a", "A", "i", "I", "1.a", "(1)", "1-1", "A.1.a", "[1] ", "1.", "001", ".", "-", "", "..", ". "]


def render(ins, fmt, order):
    attrs = 'level="%s"' % ins["level"]
    if ins["hasCount"]:
        attrs += " count=%s" % quoteattr(xpgen.render(ins["count"]))
    if ins["hasFrom"]:
        attrs += " from=%s" % quoteattr(xpgen.render(ins["from"]))
    if fmt != "1":
        attrs += " format=%s" % quoteattr(fmt)
    lines = ['<xsl:stylesheet version="1.0" %s>' % XSLNS,
             '<xsl:template name="num"><n><xsl:number %s/></n></xsl:template>' % attrs,
             '<xsl:template match="/"><o>']
    for k in order:
        lines.append('<xsl:for-each select="(/. | //node() | //@*)[%d]"><xsl:call-template name="num"/></xsl:for-each>' % k)
    lines.append('</o></xsl:template>')
    lines.append('</xsl:stylesheet>')
    return "\n".join(lines) + "\n"


def render_var(ins, order):
    """the numbering template has a parameter t and the patterns of the instruction refer to it: the same instruction is
    instantiated with different values of $t, so nothing counted under one value may serve under another"""
    attrs = 'level="%s" count=%s' % (ins["level"], quoteattr(xpgen.render(ins["count"])))
    if ins["hasFrom"]:
        attrs += " from=%s" % quoteattr(xpgen.render(ins["from"]))
    lines = ['<xsl:stylesheet version="1.0" %s>' % XSLNS,
             '<xsl:template name="num"><xsl:param name="t"/><n><xsl:number %s/></n></xsl:template>' % attrs,
             '<xsl:template match="/"><o>']
    for k, t in order:
        lines.append('<xsl:for-each select="(/. | //node() | //@*)[%d]"><xsl:call-template name="num"><xsl:with-param name="t" select="\'%s\'"/></xsl:call-template></xsl:for-each>' % (k, t))
    lines.append('</o></xsl:template>')
    lines.append('</xsl:stylesheet>')
    return "\n".join(lines) + "\n"


def render_value(vals, fmt):
    """vals: integers, or ("x8", m) = the number m/8 written as a decimal (value= is rounded as by round(): halves go up)"""
    lines = ['<xsl:stylesheet version="1.0" %s>' % XSLNS, '<xsl:template match="/"><o>']
    for v in vals:
        lines.append('<n><xsl:number value="%s" format=%s/></n>' % (xpgen.num_text(v[1]) if isinstance(v, tuple) else "%d" % v, quoteattr(fmt)))
    lines.append('</o></xsl:template></xsl:stylesheet>')
    return "\n".join(lines) + "\n"


def outs_of(tree):
    o = [x for x in tree if x["k"] == "elem" and x["qn"] == "o"]
    if len(o) != 1:
        return None
    res = []
    for n in o[0]["c"]:
        if n["k"] != "elem" or n["qn"] != "n":
            return None
        res.append("".join(t["v"] for t in n["c"] if t["k"] == "text"))
    return res


MC_COUNTERS = os.path.join(ROOT, "spec/mc/MC_Counters.tla")


def counters_model(res, wd, quick, rng):
    """MC: CountersImpl (the transcribed level="any" counting with its per-instruction cache) refines the definition for every
    (match, from) pair over N nodes and every numbering history; GEN: sampled (document shape, history) pairs of that state graph,
    rendered as real documents (elements in a random tree, @m = matched by count, @f = matched by from) and visiting orders."""
    n, mh = (5, 4) if quick else (6, 5)
    cfg = os.path.join(wd, "counters_mc.cfg")
    open(cfg, "w").write("SPECIFICATION Spec\nCONSTANTS N = %d\n MaxHist = %d\nINVARIANT Refines\nINVARIANT CacheShape\nVIEW View\nCHECK_DEADLOCK FALSE\n" % (n, mh))
    r = vlib.tlc_mc(MC_COUNTERS, cfg, name="c17counters", workers=8, timeout=3000, extra=["-noGenerateSpecTE"])
    res.add_mc(r, "MC_Counters (CountersImpl = definition of level any for every match/from subset of %d nodes and every history <= %d; cache shape)" % (n, mh))
    gn, gh = 4, 4
    gcfg = os.path.join(wd, "counters_gen.cfg")
    open(gcfg, "w").write("SPECIFICATION Spec\nCONSTANTS N = %d\n MaxHist = %d\nVIEW View\nCHECK_DEADLOCK FALSE\n" % (gn, gh))
    dump = os.path.join(wd, "counters_gen")
    g = vlib.tlc(MC_COUNTERS, gcfg, workers=1, name="c17countersgen", timeout=3000, extra=["-noGenerateSpecTE", "-dump", dump])
    if not g["ok"]:
        raise vlib.Infra("MC_Counters behaviour export failed: " + g["out"][-2000:])
    states = [st for st in tlaparse.read_dump(dump + ".dump", only={"d", "hist", "counters"}) if len(st["hist"]) >= 2]
    states.sort(key=lambda st: json.dumps(st, sort_keys=True, default=list))
    # prefer histories whose cache has several counters or long lists (joins, hits)
    # stratified sample: (from given?, root matched by count?, root matched by from?, cache with several counters / long lists?) - the
    # state graph has 32 from-subsets for every from-less configuration, so a uniform sample would hardly ever leave from out
    strata = {}
    for st in states:
        rich = len(st["counters"]) >= 2 or any(len(c) >= 2 for c in st["counters"])
        strata.setdefault((bool(st["d"]["hasFrom"]), 0 in st["d"]["match"], 0 in st["d"]["from"], rich), []).append(st)
    per = (12 if quick else 150)
    pick = []
    for key in sorted(strata):
        pick += rng.sample(strata[key], min(len(strata[key]), per * (2 if key[3] else 1)))
    out = []
    P = lambda *steps, **kw: path(list(steps), **kw)
    for st in pick:
        d = st["d"]
        match, frm = set(d["match"]), set(d["from"])
        # elements 1..gn in preorder, random nesting
        elems = []
        stack = []
        for i in range(1, gn + 1):
            attrs = ([xdm.A("m", "1")] if i in match else []) + ([xdm.A("f", "1")] if i in frm else [])
            e = xdm.E("e", a=attrs)
            if i == 1:
                top = e
            else:
                depth = rng.randint(1, len(stack))
                stack = stack[:depth]
                stack[-1]["c"].append(e)
            stack.append(e)
        tree = xdm.R(top)
        pm = P(step("child", T_ANY, P(step("attribute", t_name("m")))))
        pf = P(step("child", T_ANY, P(step("attribute", t_name("f")))))
        ins = {"level": "any", "hasCount": True, "count": bin_("|", P(abs_=True), pm) if 0 in match else pm,
               "hasFrom": bool(d["hasFrom"]), "from": (bin_("|", P(abs_=True), pf) if 0 in frm else pf)}
        out.append((tree, ins, list(st["hist"])))
    res.notes["counters_model_histories"] = len(out)
    return out


def run(res, tier, seed):
    rng = random.Random(seed)
    quick = tier == "quick"
    wd = vlib.workdir("c17-%d" % os.getpid())
    c02.mc_laws(res, tier, wd)
    r = vlib.tlc_mc(os.path.join(ROOT, "spec/mc/MC_Numbering.tla"), name="c17mc", workers=1, timeout=3000)
    res.add_mc(r, "MC_Numbering (7.7.1 conversion laws, 1..5000)")
    docs = c02.make_docs(rng, 6 if quick else 40)
    flats = [xdm.flatten(t, c02.ID_ATTRS) for t in docs]
    nbase = 200 if quick else 5000
    cases, metas = [], []
    k = 0
    for _ in range(nbase):
        d = rng.randrange(len(docs))
        n = flats[d]["n"]
        ins = gen_instr(rng)
        fmt = rng.choice(FORMATS)
        ids = [i for i in range(1, n + 1) if flats[d]["kind"][i - 1] != "attr" or rng.random() < 0.3]
        sh = list(ids); rng.shuffle(sh)
        for order in (ids, list(reversed(ids)), sh):
            cdir = os.path.join(wd, "case%d" % k); os.makedirs(cdir)
            open(os.path.join(cdir, "main.xsl"), "w").write(render(ins, fmt, order))
            open(os.path.join(cdir, "in.xml"), "w").write(c02.doc_xml(docs[d]))
            cases.append({"id": k, "dir": cdir, "trace": "none", "select": False})
            metas.append(("count", d, ins, fmt, order)); k += 1
    # the DEFAULT count pattern (7.7: nodes with the same node type and EXPANDED name as the current node) where the same QName text
    # means different names: one prefix bound to different namespaces in different places, and different prefixes for one namespace
    U, V = "urn:u", "urn:v"
    E_, A_ = xdm.E, xdm.A
    nsd = xdm.R(E_("r",
                   E_("i", p="p", u=U, nsd=[["p", U]]), E_("i", p="p", u=V, nsd=[["p", V]]), E_("i", p="p", u=U, nsd=[["p", U]], a=[A_("k", "1", p="p", u=U)]),
                   E_("x", E_("i", p="p", u=V), E_("i", p="q", u=V, nsd=[["q", V]], a=[A_("k", "2", p="p", u=V)]), E_("i", p="p", u=V), nsd=[["p", V]]),
                   E_("i", u=U, nsd=[["", U]]), E_("i", p="p", u=U, nsd=[["p", U]]), E_("i")))
    docs.append(nsd); flats.append(xdm.flatten(nsd, c02.ID_ATTRS))
    dn = len(docs) - 1
    nn = flats[dn]["n"]
    for level in ("single", "multiple", "any"):
        ins = {"level": level, "hasCount": False, "count": pat_pool()[0], "hasFrom": False, "from": pat_pool()[0]}
        ids = list(range(1, nn + 1))
        sh = list(ids); rng.shuffle(sh)
        for order in (ids, list(reversed(ids)), sh):
            cdir = os.path.join(wd, "case%d" % k); os.makedirs(cdir)
            open(os.path.join(cdir, "main.xsl"), "w").write(render(ins, "1", order))
            open(os.path.join(cdir, "in.xml"), "w").write(c02.doc_xml(nsd))
            cases.append({"id": k, "dir": cdir, "trace": "none", "select": False})
            metas.append(("count", dn, ins, "1", order)); k += 1
    # ATTRIBUTES as current nodes, systematically: patterns that match the attribute itself / its element / both, every level
    P_ = lambda *st, **kw: path(list(st), **kw)
    apats = [P_(step("attribute", T_ANY)), bin_("|", P_(step("child", T_ANY)), P_(step("attribute", T_ANY))),
             bin_("|", P_(step("attribute", t_name("x"))), P_(step("child", t_name("b")))), bin_("|", P_(step("child", T_NODE)), P_(step("attribute", T_ANY)))]
    adocs = [i for i, f in enumerate(flats) if sum(1 for k_ in f["kind"] if k_ == "attr") >= 2][: (2 if quick else 6)]
    for d in adocs:
        kinds = flats[d]["kind"]
        attrs = [i + 1 for i, k_ in enumerate(kinds) if k_ == "attr"]
        others = [i + 1 for i, k_ in enumerate(kinds) if k_ != "attr"]
        for cp in apats:
            for level in ("any", "single", "multiple"):
                ins = {"level": level, "hasCount": True, "count": cp, "hasFrom": False, "from": pat_pool()[0]}
                ids = sorted(attrs + rng.sample(others, min(len(others), 3)))
                sh = list(ids); rng.shuffle(sh)
                for order in ((ids, sh) if quick else (ids, list(reversed(ids)), sh)):
                    cdir = os.path.join(wd, "case%d" % k); os.makedirs(cdir)
                    open(os.path.join(cdir, "main.xsl"), "w").write(render(ins, "1", order))
                    open(os.path.join(cdir, "in.xml"), "w").write(c02.doc_xml(docs[d]))
                    cases.append({"id": k, "dir": cdir, "trace": "none", "select": False})
                    metas.append(("count", d, ins, "1", order)); k += 1
    # patterns that refer to a variable: the same instruction under changing values of $t
    tv = var("t")
    P = lambda *st, **kw: path(list(st), **kw)
    vpool = [P(step("child", T_ANY, bin_("or", bin_("=", fn("name"), tv), bin_("=", P(step("attribute", t_name("x"))), tv)))),
             P(step("child", T_NODE, bin_("or", bin_("=", fn("name"), tv), bin_("=", P(step("self", T_NODE)), tv)))),
             P(step("child", t_name("b"), bin_("!=", tv, lit("a")))), P(step("child", T_ANY, bin_("=", fn("string-length", tv), num(1))))]
    for _ in range(40 if quick else 800):
        d = rng.randrange(len(docs))
        n = flats[d]["n"]
        ins = {"level": rng.choice(["single", "multiple", "any"]), "hasCount": True, "count": rng.choice(vpool), "hasFrom": rng.random() < 0.3, "from": rng.choice(vpool[:2])}
        if rng.random() < 0.45:        # the variable only in the FROM pattern, the count pattern constant
            ins = {"level": rng.choice(["any", "any", "single", "multiple"]), "hasCount": True, "count": rng.choice(pat_pool()[:6]), "hasFrom": True, "from": rng.choice(vpool)}
        ids = [i for i in range(1, n + 1) if flats[d]["kind"][i - 1] != "attr"]
        order = [(rng.choice(ids), rng.choice(["a", "b", "c", "1", "t", "ab"])) for _ in range(min(14, 2 * len(ids)))]
        order += [(k_, rng.choice(["a", "b"])) for k_, _t in order[:6]]          # the same nodes again under another value
        cdir = os.path.join(wd, "case%d" % k); os.makedirs(cdir)
        open(os.path.join(cdir, "main.xsl"), "w").write(render_var(ins, order))
        open(os.path.join(cdir, "in.xml"), "w").write(c02.doc_xml(docs[d]))
        cases.append({"id": k, "dir": cdir, "trace": "none", "select": False})
        metas.append(("countvar", d, ins, "1", order)); k += 1
    # the model-derived family: histories of the CountersImpl state graph on documents that realise its (match, from) sets
    for tree, ins, hist in counters_model(res, wd, quick, rng):
        docs.append(tree)
        flat = xdm.flatten(tree, c02.ID_ATTRS)
        flats.append(flat)
        elem_ids = [i + 1 for i in range(flat["n"]) if flat["kind"][i] == "elem"]          # model node j (1..N) = j-th element; 0 = the root (id 1)
        order = [elem_ids[j - 1] for j in hist]
        cdir = os.path.join(wd, "case%d" % k); os.makedirs(cdir)
        open(os.path.join(cdir, "main.xsl"), "w").write(render(ins, "1", order))
        open(os.path.join(cdir, "in.xml"), "w").write(c02.doc_xml(tree))
        cases.append({"id": k, "dir": cdir, "trace": "none", "select": False})
        metas.append(("count", len(docs) - 1, ins, "1", order)); k += 1
    for _ in range(30 if quick else 400):
        fmt = rng.choice(FORMATS + ["a", "i", "I", "A", "01"])
        vals = [rng.choice([1, 2, 3, 4, 9, 14, 19, 26, 27, 40, 49, 52, 90, 99, 400, 499, 702, 703, 999, 1999, 3999, rng.randint(1, 4000)]) for _ in range(12)]
        # fractional values: k + 0.5 for even and odd k, just below / above a half, eighths
        vals += [("x8", rng.choice([4, 12, 20, 28, 36, 84, 11, 13, 19, 21, 9, 15, 8 * rng.randint(1, 60) + 4, 8 * rng.randint(1, 60) + rng.choice([1, 3, 5, 7])])) for _ in range(6)]
        cdir = os.path.join(wd, "case%d" % k); os.makedirs(cdir)
        open(os.path.join(cdir, "main.xsl"), "w").write(render_value(vals, fmt))
        open(os.path.join(cdir, "in.xml"), "w").write("<a/>")
        cases.append({"id": k, "dir": cdir, "trace": "none", "select": False})
        metas.append(("value", vals, fmt)); k += 1
    # alphabetic numbering is bijective base 26: the values where one, two and three columns roll over together, and their neighbours
    ALPHA = [25, 26, 27, 51, 52, 53, 675, 676, 677, 701, 702, 703, 728, 1351, 1352, 1353, 17575, 17576, 17577, 18251, 18252, 18253, 18277, 18278, 18279,
             456975, 456976, 456977, 475253, 475254, 475255]
    for fmt in (["a", "A"] if quick else ["a", "A", "1.a", "(A)", "a-1"]):
        vals = ALPHA if not quick else rng.sample(ALPHA, 16) + [676, 18252]
        cdir = os.path.join(wd, "case%d" % k); os.makedirs(cdir)
        open(os.path.join(cdir, "main.xsl"), "w").write(render_value(vals, fmt))
        open(os.path.join(cdir, "in.xml"), "w").write("<a/>")
        cases.append({"id": k, "dir": cdir, "trace": "none", "select": False})
        metas.append(("value", vals, fmt)); k += 1
    # grouping-separator / grouping-size (both given) on decimal numbering
    gvals = [1, 12, 123, 1234, 12345, 123456, 1234567, 1000, 1000000, 999999, 100, 99999999]
    for gsep in [",", ".", " ", "'", "_"]:
        for gsize in ([1, 2, 3, 4] if not quick else [rng.choice([1, 2]), 3, 4]):
            cdir = os.path.join(wd, "case%d" % k); os.makedirs(cdir)
            body = "".join('<n><xsl:number value="%d" grouping-separator=%s grouping-size="%d"/></n>' % (v, quoteattr(gsep), gsize) for v in gvals)
            open(os.path.join(cdir, "main.xsl"), "w").write('<xsl:stylesheet version="1.0" %s><xsl:template match="/"><o>%s</o></xsl:template></xsl:stylesheet>' % (XSLNS, body))
            open(os.path.join(cdir, "in.xml"), "w").write("<a/>")
            cases.append({"id": k, "dir": cdir, "trace": "none", "select": False})
            metas.append(("group", gvals, gsep, gsize)); k += 1
    exe = vlib.build_harness("xslt")
    nsh = vlib.NCPU
    procs = []
    for s in range(nsh):
        ch = cases[s::nsh]
        if ch:
            cp = os.path.join(wd, "cases-%d.ndjson" % s); vlib.write_ndjson(cp, ch)
            rp = os.path.join(wd, "trace-%d.ndjson" % s)
            procs.append((ch, rp, subprocess.Popen([exe, cp], stdout=open(rp, "w"), stderr=subprocess.PIPE)))
    events, nontriv, nruns = [], set(), 0
    for ch, rp, p in procs:
        _, err = p.communicate(timeout=3000)
        dones = {ev["id"]: ev for ev in vlib.read_ndjson(rp) if ev["e"] == "Done"}
        for c in ch:
            m = metas[c["id"]]
            sample = {"xsl": open(os.path.join(c["dir"], "main.xsl")).read(), "xml": open(os.path.join(c["dir"], "in.xml")).read()}
            dn = dones.get(c["id"])
            if dn is None:
                res.violation("transformation process died (rc=%s): %s" % (p.returncode, (err or b"").decode()[-300:]), [sample]); continue
            if dn["status"] != 0:
                res.violation("error-free stylesheet failed: %s" % dn["msg"][:200], [sample]); continue
            outs = outs_of(dn["tree"])
            if m[0] in ("count", "countvar"):
                _, d, ins, fmt, order = m
                tvals = [None] * len(order)
                if m[0] == "countvar":
                    tvals = [t for _k, t in order]
                    order = [k_ for k_, _t in order]
                if outs is None or len(outs) != len(order):
                    res.violation("result tree does not hold one <n> per visited node", [sample, dn]); continue
                nruns += 1
                sins = {"level": ins["level"], "hasCount": ins["hasCount"], "count": xpgen.strip_render_only(ins["count"]),
                        "hasFrom": ins["hasFrom"], "from": xpgen.strip_render_only(ins["from"])}
                for node, o, tvl in zip(order, outs, tvals):
                    events.append(dict({"e": "Number", "doc": d + 1, "node": node, "instr": sins, "fmt": xdm.cps(fmt), "out": xdm.cps(o), "sample": c["id"]},
                                       **({"t": xdm.cps(tvl)} if tvl is not None else {})))
                    if o not in ("", "1"):
                        nontriv.add(vlib.canon_hash([d, node, sample["xsl"].split("\n")[1]]))
            elif m[0] == "group":
                _, gv, gsep, gsize = m
                if outs is None or len(outs) != len(gv):
                    res.violation("result tree does not hold one <n> per value", [sample, dn]); continue
                for v, o in zip(gv, outs):
                    events.append({"e": "Group", "value": v, "gsep": xdm.cps(gsep), "gsize": gsize, "out": xdm.cps(o), "sample": c["id"]})
                    nontriv.add(vlib.canon_hash([v, gsep, gsize]))
            else:
                _, vals, fmt = m
                if outs is None or len(outs) != len(vals):
                    res.violation("result tree does not hold one <n> per value", [sample, dn]); continue
                for v, o in zip(vals, outs):
                    if isinstance(v, tuple):
                        events.append({"e": "Format", "value": 0, "value8": v[1], "fmt": xdm.cps(fmt), "out": xdm.cps(o), "sample": c["id"]})
                    else:
                        events.append({"e": "Format", "value": v, "fmt": xdm.cps(fmt), "out": xdm.cps(o), "sample": c["id"]})
                    nontriv.add(vlib.canon_hash([list(v) if isinstance(v, tuple) else v, fmt]))
    res.cov["evaluations"] = len(events)
    dpath = os.path.join(wd, "docs.ndjson")
    vlib.write_ndjson(dpath, flats)
    rejects, st = vlib.tlc_validate_sharded(TRACE, events, tag="c17tv", env={"DOCS": dpath}, stateless=True, timeout=3000)
    known = {x["key"]: x for x in vlib.known_findings(PROP)}
    for rj in rejects:
        ev = events[rj["line"]]
        key = classify(ev, rj["msg"])
        if key and key in known:
            res.known(known[key])
        else:
            cdir = cases[ev["sample"]]["dir"]
            res.violation(rj["msg"][:300], [dict(ev, xsl=open(os.path.join(cdir, "main.xsl")).read(), xml=open(os.path.join(cdir, "in.xml")).read())])
    res.notes["dropped_ambiguous_from"] = st["dropped"]
    res.notes["runs"] = nruns
    res.cov["traces_validated_against_impl"] = len(events) - len(rejects) - st["dropped"]
    res.cov["distinct_nontrivial"] = len(nontriv)
    res.cov["rule"] = ("seeded xsl:number instructions (3 levels x count/from from an 11-pattern pool or defaults x 20 formats incl. punctuation-only and empty ones) x documents; each instruction numbers the nodes of "
                       "the document in document, reverse and shuffled visiting order through ONE instruction instance; plus value=/format= tables (alphabetic carry, roman, padding, fractional values rounded as by round()) and grouping-separator / grouping-size tables; "
                       "non-trivial = output other than '' or '1'; distinct by (document, node, instruction) resp. (value, format)")
    for ev in events[:: max(1, len(events) // 4)][:4]:
        res.sample({k: ev[k] for k in ev if k not in ("sample",)})
    res.assumptions += ["cases where `from` is given but matches no ancestor (single/multiple) or no earlier node (any) are not judged: XSLT 1.0 does not define them",
                        "pattern matching inside the counts is the definition XPathSem!Matches; the pools avoid the constructs listed as C09 known findings"]


def classify(ev, msg):
    """only a class the trace spec tags itself (KD:<key>, exact) can be a known finding.  The two feature-based `from` classes
    (anyFromOnlyOnAncestors, singleMultipleFromScope) were repaired in the code: a rejected xsl:number with from= is a violation"""
    if msg.startswith("KD:"):
        return msg.split(" ")[0][3:]
    return None


def replay(path):
    raise vlib.Infra("replay needs the document set of the run; re-run tools/check C17 with the same VERIF_SEED")
