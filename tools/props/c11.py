"""C11 - an expression has one value, whichever way the caller asks for it.
The six public XPath::execute overloads (general object, bool&, double&, XalanDOMString&, character events,
MutableNodeRefList&) are run on the same compiled expression and context; Trace_C02.tla recomputes the general value
from XPathSem.tla and requires each typed result to be its standard conversion (Convert)."""
import os, random, re
import vlib, xdm, xpgen
from xpgen import *
from vlib import ROOT, REPO
from props import c02

PROP = "C11"
KINDS = ["eval", "bool", "num", "str", "chars", "nodelist"]

# expression heads per op code of XPathExpression::eOpCodes that can head an (sub)expression
def head_table():
    A = path([step("child", t_name("b"))])                 # multi node-set
    Eset = path([step("child", t_name("zz"))])             # empty node-set
    Sing = path([step("child", T_ANY, num(1))])            # singleton-ish
    Att = path([step("attribute", T_ANY)])
    T = {
        "eOP_OR": [bin_("or", a, b) for a in (A, Eset, num(0), lit("")) for b in (fn("false"), lit("x"), Eset)],
        "eOP_AND": [bin_("and", a, b) for a in (A, Eset, num(1), lit("0")) for b in (fn("true"), lit(""), A)],
        "eOP_EQUALS": [bin_("=", a, b) for a in (A, num(1), lit("1"), fn("true")) for b in (A, Att, num(1), lit("t"), fn("false"))],
        "eOP_NOTEQUALS": [bin_("!=", a, b) for a in (A, num(1), lit("1")) for b in (A, Att, num(1), lit("t"), fn("true"))],
        "eOP_LT": [bin_("<", a, b) for a in (A, num(1), lit("1")) for b in (Att, num(2), lit("2"), fn("true"))],
        "eOP_LTE": [bin_("<=", a, b) for a in (A, num(1), lit("1")) for b in (Att, num(1), lit("abc"), fn("true"))],
        "eOP_GT": [bin_(">", a, b) for a in (A, num(3), lit("3")) for b in (Att, num(2), lit("2"), fn("false"))],
        "eOP_GTE": [bin_(">=", a, b) for a in (A, num(1), lit("1")) for b in (Att, num(1), lit(""), fn("true"))],
        "eOP_PLUS": [bin_("+", a, b) for a in (A, num(1), lit("2"), fn("true"), Eset) for b in (num8(4), Att, lit("x"))],
        "eOP_MINUS": [bin_("-", a, b) for a in (A, num(1), lit("2")) for b in (num(1), Att, num8(12))],
        "eOP_MULT": [bin_("*", a, b) for a in (A, num(0), lit("2"), neg(num(0))) for b in (num(3), Att, bin_("div", num(1), num(0)))],
        "eOP_DIV": [bin_("div", a, b) for a in (A, num(1), num(0), neg(num(1))) for b in (num(0), num(2), neg(num(0)), Att)],
        "eOP_MOD": [bin_("mod", a, b) for a in (num(5), neg(num(5)), num8(44), A) for b in (num(2), neg(num(2)), num(0), num8(12))],
        "eOP_NEG": [neg(a) for a in (num(0), num(1), A, Eset, lit("2"), lit("x"), fn("true"), neg(num(1)))],
        "eOP_UNION": [bin_("|", a, b) for a in (A, Eset, Att) for b in (A, Eset, path([step("descendant", T_TEXT)]))],
        "eOP_LITERAL": [lit(s) for s in ("", "0", "1", "t", " ", "-1.5", "NaN", "false", "Infinity")],
        "eOP_NUMBERLIT": [num8(m) for m in (0, 8, 4, 12, 800, 1)],
        "eOP_VARIABLE": [var(v) for v in ("n", "s", "b", "e", "z")],
        "eOP_GROUP": [filt(A, num(1)), filt(bin_("|", A, Att), fn("last")), path([step("child", T_ANY)], start=filt(A, num(2)))],
        "eOP_LOCATIONPATH": [A, Eset, Sing, Att, path([], abs_=True), path([DOS, step("child", T_TEXT)], abs_=True),
                             path([step("self", T_NODE)]), path([step("parent", T_NODE)]), path([step("ancestor", T_ANY, num(1), abbr=False)])],
        "eOP_FUNCTION": [fn("substring", lit("12345"), num(2), num(3)), fn("substring-before", lit("a-b"), lit("-")), fn("substring-after", lit("a-b"), lit("-")),
                         fn("translate", lit("abc"), lit("ab"), lit("B")), fn("normalize-space", lit(" a  b ")), fn("normalize-space"),
                         fn("starts-with", lit("ab"), lit("a")), fn("contains", lit("ab"), lit("c")), fn("id", lit("i1")), fn("lang", lit("en")),
                         fn("current")],
        "eOP_FUNCTION_POSITION": [fn("position")],
        "eOP_FUNCTION_LAST": [fn("last")],
        "eOP_FUNCTION_COUNT": [fn("count", a) for a in (A, Eset, Att)],
        "eOP_FUNCTION_NOT": [fn("not", a) for a in (A, Eset, num(0), lit("x"))],
        "eOP_FUNCTION_TRUE": [fn("true")],
        "eOP_FUNCTION_FALSE": [fn("false")],
        "eOP_FUNCTION_BOOLEAN": [fn("boolean", a) for a in (A, Eset, num(0), lit(""), lit("false"), bin_("div", num(0), num(0)))],
        "eOP_FUNCTION_NAME_0": [fn("name")],
        "eOP_FUNCTION_NAME_1": [fn("name", a) for a in (A, Eset, Att)],
        "eOP_FUNCTION_LOCALNAME_0": [fn("local-name")],
        "eOP_FUNCTION_LOCALNAME_1": [fn("local-name", a) for a in (A, Eset, Att)],
        "eOP_FUNCTION_FLOOR": [fn("floor", a) for a in (num8(12), neg(num8(12)), lit("x"), A)],
        "eOP_FUNCTION_CEILING": [fn("ceiling", a) for a in (num8(12), neg(num8(12)), neg(num8(4)), A)],
        "eOP_FUNCTION_ROUND": [fn("round", a) for a in (num8(12), neg(num8(12)), num8(20), neg(num8(20)), A, bin_("div", num(0), num(0)))],
        "eOP_FUNCTION_NUMBER_0": [fn("number")],
        "eOP_FUNCTION_NUMBER_1": [fn("number", a) for a in (A, Eset, lit(" 12 "), lit("1e3"), lit("+1"), fn("true"), lit("1."), lit(".5"), lit("."))],
        "eOP_FUNCTION_STRING_0": [fn("string")],
        "eOP_FUNCTION_STRING_1": [fn("string", a) for a in (A, Eset, num8(12), neg(num(0)), bin_("div", num(1), num(0)), neg(bin_("div", num(1), num(0))), bin_("div", num(0), num(0)), fn("true"), num(100), num8(1))],
        "eOP_FUNCTION_STRINGLENGTH_0": [fn("string-length")],
        "eOP_FUNCTION_STRINGLENGTH_1": [fn("string-length", a) for a in (A, lit(""), lit("abc"), num(10))],
        "eOP_FUNCTION_NAMESPACEURI_0": [fn("namespace-uri")],
        "eOP_FUNCTION_NAMESPACEURI_1": [fn("namespace-uri", a) for a in (A, Eset)],
        "eOP_FUNCTION_SUM": [fn("sum", a) for a in (A, Eset, Att, path([step("descendant", T_TEXT)]))],
        "eOP_FUNCTION_CONCAT": [fn("concat", lit("a"), num(1)), fn("concat", A, fn("true"), lit("")), fn("concat", lit(""), lit(""))],
    }
    # every operator head also with node-set operands that are NOT location paths: variables (non-empty / empty), functions
    # returning node-sets, filter expressions - the typed overloads receive these through a different route (an XObject)
    NSOPS = [var("e"), var("z"), fn("id", lit("i1 i2")), fn("current"), filt(A, num(1)), path([step("child", T_ANY)], start=var("e"))]
    others = [A, Eset, num(1), lit("1"), fn("true")]
    for op, sym in (("eOP_OR", "or"), ("eOP_AND", "and"), ("eOP_EQUALS", "="), ("eOP_NOTEQUALS", "!="), ("eOP_LT", "<"), ("eOP_LTE", "<="), ("eOP_GT", ">"),
                    ("eOP_GTE", ">="), ("eOP_PLUS", "+"), ("eOP_MINUS", "-"), ("eOP_MULT", "*"), ("eOP_DIV", "div"), ("eOP_MOD", "mod")):
        for x in NSOPS:
            for o in others[:3] if op in ("eOP_PLUS", "eOP_MINUS", "eOP_MULT", "eOP_DIV", "eOP_MOD") else others:
                T[op].append(bin_(sym, x, o)); T[op].append(bin_(sym, o, x))
    for x in NSOPS:
        for y in NSOPS + [A, Eset]:
            T["eOP_UNION"].append(bin_("|", x, y)); T["eOP_UNION"].append(bin_("|", y, x))
        T["eOP_NEG"].append(neg(x))
        for h, f in (("eOP_FUNCTION_COUNT", "count"), ("eOP_FUNCTION_NOT", "not"), ("eOP_FUNCTION_BOOLEAN", "boolean"), ("eOP_FUNCTION_NAME_1", "name"),
                     ("eOP_FUNCTION_LOCALNAME_1", "local-name"), ("eOP_FUNCTION_NUMBER_1", "number"), ("eOP_FUNCTION_STRING_1", "string"),
                     ("eOP_FUNCTION_STRINGLENGTH_1", "string-length"), ("eOP_FUNCTION_SUM", "sum"), ("eOP_FUNCTION_FLOOR", "floor")):
            T[h].append(fn(f, x))
        T["eOP_GROUP"].append(filt(x, num(1)))
    return T

NOT_HEADS = {"eOP_XPATH", "eOP_BOOL", "eOP_ARGUMENT", "eOP_PREDICATE", "eOP_PREDICATE_WITH_POSITION", "eOP_MATCHPATTERN",
             "eOP_LOCATIONPATHPATTERN", "eOP_EXTFUNCTION"}


def subst_var(e, a, b):
    if isinstance(e, dict):
        if e.get("op") == "var" and e.get("name") == a:
            return var(b)
        return {k: subst_var(v, a, b) for k, v in e.items()}
    if isinstance(e, list):
        return [subst_var(x, a, b) for x in e]
    return e


def recycle_family():
    """PAIRS of evaluations that run one after the other in one process with one object factory: the value objects bound to $e / $n / $s in
    the first are released when it ends and recycled for the second.  First a value is asked for one conversion (which the object may
    cache), then another value, in a recycled object, for each conversion.  Document 4: c(@x=10, b(-2), b(0.5), b(abc), b( 4 ), b())."""
    D = 4
    ns_ = lambda *ids: {"t": "ns", "v": [[D, i, 0] for i in ids]}
    nv = lambda m, neg=False: {"t": "num", "v": {"k": "fin", "neg": neg, "m": m}}
    sv = lambda t_: {"t": "str", "v": xdm.cps(t_)}
    base = {"n": nv(12), "s": sv("2"), "b": {"t": "bool", "v": False}, "e": ns_(4), "z": ns_()}
    E_, N_, S_ = var("e"), var("n"), var("s")
    conv = lambda v_: [v_, fn("number", v_), fn("string", v_), fn("boolean", v_), bin_("+", v_, num(0)), fn("string-length", v_), fn("not", v_),
                       bin_("div", num(1), v_)]
    fam = [("e", [ns_(), ns_(12), ns_(8), ns_(6)], [ns_(), ns_(4), ns_(6), ns_(10), ns_(8), ns_(12), ns_(3), ns_(4, 6)], conv(E_) + [fn("count", E_)]),
           ("n", [{"t": "num", "v": {"k": "nan", "neg": False, "m": 0}}, nv(0, True), nv(0), nv(12)], [{"t": "num", "v": {"k": "nan", "neg": False, "m": 0}}, nv(0, True), nv(0), nv(12), nv(8, True)], conv(N_)),
           ("s", [sv(""), sv("x"), sv("2"), sv("-0")], [sv(""), sv("2"), sv("x"), sv(" 3 "), sv("-0"), sv("0")], conv(S_))]
    out = []
    for name, poisons, probes, exprs in fam:
        for v1 in poisons:
            for x1 in exprs:
                for v2 in probes:
                    for x2 in exprs:
                        out.append((D, 2, 1, 1, x1, dict(base, **{name: v1})))
                        out.append((D, 2, 1, 1, x2, dict(base, **{name: v2})))
                        if name == "e":     # which of the two released node-set objects the next $e gets is the factory's business: use the other one too
                            out.append((D, 2, 1, 1, subst_var(x1, "e", "z"), dict(base, z=v1)))
                            out.append((D, 2, 1, 1, x2, dict(base, **{name: v2})))
    return out


MC_OF = os.path.join(ROOT, "spec/mc/MC_ObjectFactory.tla")
TRACE_OBJ = os.path.join(ROOT, "spec/trace/Trace_C11obj.tla")


def object_factory_family(res, wd, tier, seed):
    """MC_ObjectFactory: the transcribed object factory (recycling caches, the conversions its classes cache) refines ValueObjects for every
    history within the bounds; with either seeded switch on, the counterexample must appear.  One shortest history per state of the model
    (and seeded random longer ones) is replayed on the real XObjectFactoryDefault, whose answers Trace_C11obj judges."""
    import json, re, subprocess, tlaparse
    quick = tier == "quick"
    base = open(os.path.join(ROOT, "spec/mc/MC_ObjectFactory.cfg")).read()
    if not quick:
        base = base.replace("MaxHist = 5", "MaxHist = 6")
    cfg = os.path.join(wd, "of.cfg"); open(cfg, "w").write(base)
    dump = os.path.join(wd, "of")
    r = vlib.tlc(MC_OF, cfg, workers=1, name="c11of", timeout=3000, extra=["-noGenerateSpecTE", "-deadlock", "-dump", dump])
    if not r["ok"]:
        raise vlib.Infra("MC_ObjectFactory failed:\n" + r["out"][-3000:])
    res.add_mc(r, "MC_ObjectFactory (ObjectFactoryImpl refines ValueObjects: Honest, CachesSane; every history of create / ask / return / reset)")
    for name, sw in (("keep", "KeepNumberWithoutString"), ("skip", "SkipSetOfEqualNumber")):
        c2 = os.path.join(wd, "of_%s.cfg" % name); open(c2, "w").write(base.replace(sw + " = FALSE", sw + " = TRUE"))
        r2 = vlib.tlc(MC_OF, c2, workers=1, name="c11of" + name, timeout=3000, extra=["-noGenerateSpecTE", "-deadlock"])
        violated = re.findall(r"Invariant (\w+) is violated", r2["out"])
        if r2["rc"] != 12 or violated != ["Honest"]:
            raise vlib.Infra("MC_ObjectFactory with %s: the expected counterexample to Honest did not appear (rc=%s %s)" % (sw, r2["rc"], violated))
        res.notes.setdefault("expected_counterexamples", []).append({"model": "MC_ObjectFactory/" + sw, "invariant": "Honest",
                                                                      "trace_states": len(re.findall(r"^State \d+:", r2["out"], re.M))})
    hists = [s_["hist"] for s_ in tlaparse.read_dump(dump + ".dump", only={"hist"}) if s_["hist"]]
    os.remove(dump + ".dump")
    # keep the histories that end in an answer (the others are prefixes of those) - and a sample of the rest
    hists = [h for h in hists if h[-1]["op"] == "ask"]
    rng = random.Random(seed + 5)
    def recycles(h):          # an object is created after one of its class was returned: the interesting histories
        seen = set()
        for o_ in h:
            if o_["op"] == "return":
                seen.add(next(x["kind"] for x in h if x["op"] == "create" and x["id"] == o_["id"]))
            elif o_["op"] == "create" and o_["kind"] in seen:
                return True
        return False
    rec = [h for h in hists if recycles(h)]
    rest = [h for h in hists if not recycles(h)]
    cap = 12000 if quick else 120000
    if len(rec) > cap:
        rec = rng.sample(rec, cap)
    hists = rec + rng.sample(rest, min(len(rest), max(1000, (cap - len(rec)) // 4)))
    res.notes["object_factory_model_histories_with_recycling"] = len(rec)
    # random longer histories over the same vocabulary
    NUMS, STRS = ["0", "Z", "1h", "NaN", "B", "2"], ["", "2", "x", "0", "B", "NaN", "1.5"]
    NSV = [{"first": "", "n": 0}] + [{"first": s_, "n": 1} for s_ in STRS] + [{"first": "2", "n": 2}]
    for _ in range(300 if quick else 6000):
        h, live, nid = [], [], 0
        for _k in range(rng.randint(8, 40)):
            c_ = rng.random()
            if (c_ < 0.3 and len(live) < 4) or not live:
                kind = rng.choice(["num", "str", "ns", "ns"]); nid += 1
                h.append({"op": "create", "kind": kind, "val": rng.choice({"num": NUMS, "str": STRS, "ns": NSV}[kind]), "id": nid}); live.append(nid)
            elif c_ < 0.75:
                h.append({"op": "ask", "id": rng.choice(live), "how": rng.choice(["str", "num", "num", "bool"])})
            else:
                o_ = rng.choice(live); live.remove(o_); h.append({"op": "return", "id": o_})
        hists.append(h)
    cases = [{"id": k, "ops": h} for k, h in enumerate(hists)]
    # the model's ids are the recycled objects' identities; the harness takes them as names of what the caller holds: rename per creation
    for c_ in cases:
        cur, n_ = {}, 0
        for o_ in c_["ops"]:
            if o_["op"] == "create":
                n_ += 1; cur[o_["id"]] = n_; o_["id"] = n_
            elif "id" in o_:
                o_["id"] = cur[o_["id"]]
    exe = vlib.build_harness("xobj")
    nsh = vlib.NCPU
    procs = []
    for s_ in range(nsh):
        ch = cases[s_::nsh]
        if not ch:
            continue
        cp = os.path.join(wd, "of-cases-%d.ndjson" % s_); vlib.write_ndjson(cp, ch)
        rp = os.path.join(wd, "of-trace-%d.ndjson" % s_)
        procs.append((rp, subprocess.Popen([exe, cp], stdout=open(rp, "w"), stderr=subprocess.PIPE)))
    events = []
    for rp, p_ in procs:
        _, err = p_.communicate(timeout=1800)
        if p_.returncode != 0:
            res.violation("object factory replay died (rc=%s): %s" % (p_.returncode, (err or b"").decode()[-300:]), vlib.read_ndjson(rp)[-12:])
        events += vlib.read_ndjson(rp)
    rejects, st = vlib.tlc_validate_sharded(TRACE_OBJ, events, tag="c11obj", timeout=3000)
    execs = vlib.split_executions(events)
    starts, pos = [], 0
    for ex in execs:
        starts.append(pos); pos += len(ex)
    import bisect
    bad = set()
    for rj in rejects:
        e_ = bisect.bisect_right(starts, rj["line"]) - 1
        if e_ in bad:
            continue
        bad.add(e_)
        res.violation("value object: " + rj["msg"][:300], execs[e_][:rj["line"] - starts[e_] + 1])
    res.notes["object_factory_histories"] = len(execs)
    res.notes["object_factory_recycled"] = sum(1 for ex in execs if len({e_["real"] for e_ in ex if e_.get("e") == "create"}) < sum(1 for e_ in ex if e_.get("e") == "create"))
    return len(execs), len(execs) - len(bad)


def opcodes_in_source():
    txt = open(os.path.join(REPO, "src/xalanc/XPath/XPathExpression.hpp")).read()
    return sorted(set(re.findall(r"\b(eOP_[A-Z0-9_]+)\s*=\s*\d+", txt)))


def run(res, tier, seed):
    rng = random.Random(seed)
    wd = vlib.workdir("c11-%d" % os.getpid())
    c02.mc_laws(res, tier, wd)
    docs = c02.make_docs(rng, 2 if tier == "quick" else 6)
    flats = [xdm.flatten(t, c02.ID_ATTRS) for t in docs]
    table = head_table()
    src_ops = opcodes_in_source()
    unmodelled = [o for o in src_ops if o not in table and o not in NOT_HEADS]
    res.notes["opcodes_in_source"] = len(src_ops)
    res.notes["opcodes_covered"] = sorted(table)
    res.notes["opcodes_unmodelled"] = unmodelled
    vs = {"n": {"t": "num", "v": {"k": "fin", "neg": False, "m": 12}}, "s": {"t": "str", "v": xdm.cps("2")},
          "b": {"t": "bool", "v": False}}
    cases = []
    exprs = [e for es in table.values() for e in es]
    if tier != "quick":
        g = xpgen.Gen(rng, vars_={"n": "num", "s": "str", "b": "bool", "e": "ns"})
        exprs += [g.any(rng.choice([1, 2, 3])) for _ in range(2500)]
    ndocs = 2 if tier == "quick" else len(docs)
    for e in exprs:
        for d in range(ndocs):
            n = flats[d]["n"]
            for ctx in rng.sample(range(1, n + 1), min(n, 3)):
                v = dict(vs)
                v["e"] = {"t": "ns", "v": [[d + 1, i, 0] for i in sorted(rng.sample(range(1, n + 1), min(n, 2)))]}
                v["z"] = {"t": "ns", "v": []}
                size = rng.randint(1, 3)
                cases.append((d + 1, ctx, rng.randint(1, size), size, e, v))
    rec = recycle_family()
    if tier == "quick":
        rec = [c_ for k_ in range(0, len(rec), 2) if (k_ // 2) % 3 == seed % 3 for c_ in rec[k_:k_ + 2]]
    res.notes["recycle_pairs"] = len(rec) // 2
    cases = rec + cases
    events = []
    for kind in KINDS:
        evs, crashes = c02.run_cases(docs, flats, cases, wd, mode=kind, tag="c11" + kind, contiguous=True)
        for c, err, rc in crashes:
            res.violation("evaluator process died (rc=%s) in entry point %s on %s: %s" % (rc, kind, c["text"], err), [dict(c, kind=kind)])
        events += evs
    res.cov["evaluations"] = len(events)

    def classify(ev):
        k = c02.classify(ev)
        if k:
            return k
        # typed entry points of the same known number defects
        if ev["expr"].get("op") == "fn" and ev["expr"]["name"] == "round" and ev.get("res", {}).get("t") in ("num", "str"):
            return "roundNegativeZero"
        return None

    rejects, st = c02.validate(res, events, flats, wd, "c11tv", classify, "C02")
    res.notes["dropped_outside_number_domain"] = st["dropped"]
    res.cov["traces_validated_against_impl"] = len(events) - len(rejects) - st["dropped"]
    res.cov["distinct_nontrivial"] = len({vlib.canon_hash([e["text"], e["kind"], e["doc"], e["ctx"]]) for e in events if e["kind"] != "eval" and "res" in e})
    res.cov["rule"] = ("every op code of XPathExpression::eOpCodes that can head an expression (list extracted from the header at check time; "
                       "%d covered, unmodelled: %s) x operand shapes x the six XPath::execute entry points x sampled contexts; non-trivial = a typed entry "
                       "point (not the general one) returned a value; distinct by (text, entry point, document, context)" % (len(table), unmodelled or "none"))
    nof, nof_ok = object_factory_family(res, wd, tier, seed)
    res.cov["evaluations"] += nof
    res.cov["traces_validated_against_impl"] += nof_ok
    for ev in events[::max(1, len(events) // 5)][:5]:
        res.sample({"text": ev["text"], "kind": ev["kind"], "doc": ev["doc"], "ctx": ev["ctx"], "res": ev.get("res", ev.get("error"))})
    res.assumptions += ["the general value itself is judged by C02; here each typed entry point must equal Convert(kind, general value) of the specification",
                        "numbers outside the dyadic domain are dropped"]


def replay(path):
    return c02.replay(path)
