"""C20 - Xalan's own containers and string class behave like their standard models.
MC : MapImpl / VectorImpl / StringImpl / ListImpl / DequeImpl (transcriptions of XalanMap, XalanVector, XalanDOMString,
     XalanList, XalanDeque) refine the abstract models of Containers.tla for all bounded histories, without exclusions
     (the nine former deviations were repaired in /repo; the Impl modules transcribe the repaired algorithms).
GEN: the same TLC runs export one shortest history per transition (pre-state, operation) of each implementation-shaped
     graph (`hist` + VIEW + tlc -dump), tagged with the branches taken (rehash, freed-node reuse, compaction, stale bucket
     reference, reallocation, in-place self insertion, ...); thorough adds `tlc -simulate` histories of length 40 and
     both tiers add seeded random histories for XalanSet / XalanMap with the library's default parameters.
RUN: harness/c20.cpp (ASan/UBSan build) replays them on the real templates and XalanDOMString and logs every observable.
TV : Trace_C20.tla accepts an execution iff every step is a step of the abstract model (Containers.tla)."""
import bisect, glob, json, os, random, re, subprocess, time
from concurrent.futures import ThreadPoolExecutor
import vlib, tlaparse
from vlib import ROOT

PROP = "C20"
TRACE = os.path.join(ROOT, "spec/trace/Trace_C20.tla")


def mc_path(x):
    return os.path.join(ROOT, "spec/mc/MC_%s.tla" % x)


# ---------------------------------------------------------------------------------------- model configurations
# name -> (module, container, constants, harness parameters, spec, properties/invariants, required branch tags)
def models(tier):
    q = tier == "quick"
    M = []

    def mapcfg(name, lf, minb, thr, hmod, nkeys, nvals, hist, two, need=("rehash", "reuse", "compact", "staleRef")):
        M.append(dict(name=name, mod="Map", c="map", spec="Spec",
                      consts=dict(LFNum=lf[0], LFDen=lf[1], MinBuckets=minb, EraseThreshold=thr, HashMod=hmod, NKeys=nkeys, NVals=nvals,
                                  MaxHist=hist, TwoMaps="TRUE" if two else "FALSE"),
                      p=dict(lfNum=lf[0], lfDen=lf[1], minBuckets=minb, thr=thr, hashMod=hmod, nkeys=nkeys),
                      props=["INVARIANT WellFormedInv", "PROPERTY Refinement"],
                      need=list(need)))
    # identity hash, 1 initial bucket: rehash at the 3rd insert, buckets 1 -> 3, stale references across buckets
    mapcfg("map-1", (1, 1), 1, 2, 1000, 3, 1, 5 if q else 7, False)
    # two maps (swap / operator= between maps with different internals), hash = key mod 2 whatever the bucket count
    if q:
        mapcfg("map-2", (1, 1), 1, 2, 2, 3, 1, 4, True)
    else:
        mapcfg("map-2", (1, 1), 2, 2, 2, 4, 1, 4, True)
        mapcfg("map-2b", (1, 1), 1, 2, 2, 3, 1, 5, True)
    # the library's load factor 0.75, compaction at every erase, two values
    mapcfg("map-3", (3, 4), 1, 1, 2, 4, 1 if q else 2, 5 if q else 6, False, need=("rehash", "reuse", "compact"))
    if not q:
        mapcfg("map-4", (3, 4), 2, 3, 3, 5, 1, 6, False)
    M.append(dict(name="vector", mod="Vector", c="vector", spec="GenSpec",
                  consts=dict(NVals=2, MaxLen=4, MaxHist=4, MaxSrc=2, MaxCap=5) if q else dict(NVals=2, MaxLen=5, MaxHist=5, MaxSrc=3, MaxCap=6), p={},
                  props=["INVARIANT WellFormedInv", "PROPERTY Refinement"],
                  need=["realloc", "insertInPlace", "eraseShift", "assignInPlace", "repaired"]))
    M.append(dict(name="string", mod="String", c="string", spec="GenSpec",
                  consts=dict(NUnits=2, MaxLen=4, MaxHist=3, MaxSrc=2) if q else dict(NUnits=2, MaxLen=5, MaxHist=4, MaxSrc=3), p={},
                  props=["INVARIANT InvariantsInv", "PROPERTY Refinement"],
                  need=["realloc", "selfInPlace", "selfMove", "emptyWithBuffer", "repaired"]))
    M.append(dict(name="list", mod="List", c="list", spec="Spec",
                  consts=dict(NVals=2, MaxLen=3, MaxHist=4, MaxSrc=2) if q else dict(NVals=2, MaxLen=4, MaxHist=5, MaxSrc=3), p={},
                  props=["INVARIANT WellFormedInv", "PROPERTY Refinement"],
                  need=["reuse", "selfSplice", "splice"]))
    M.append(dict(name="deque", mod="Deque", c="deque", spec="GenSpec",
                  consts=dict(NVals=2, MaxLen=5, MaxHist=5 if q else 6, MaxSrc=3, BlockSize=2, SwapExchangesBlockSize="TRUE"), p=dict(blockSize=2),
                  props=["INVARIANT WellFormedInv", "PROPERTY Refinement"],
                  need=["blockReuse", "newBlock", "blockFreed", "repaired"]))
    if not q:
        M.append(dict(name="deque-3", mod="Deque", c="deque", spec="GenSpec",
                      consts=dict(NVals=2, MaxLen=7, MaxHist=5, MaxSrc=4, BlockSize=3, SwapExchangesBlockSize="TRUE"), p=dict(blockSize=3),
                      props=["INVARIANT WellFormedInv", "PROPERTY Refinement"],
                      need=["blockReuse", "newBlock", "repaired"]))
    return M


def cfg_text(m, spec=None, props=True):
    s = ["SPECIFICATION " + (spec or m["spec"]), "CONSTANTS"] + ["  %s = %s" % kv for kv in m["consts"].items()]
    if props:
        s += ["VIEW View"] + m["props"]
    return "\n".join(s) + "\n"


# ---------------------------------------------------------------------------------------- reading TLC's output
_VAR = re.compile(r"^(?:/\\ )?(\w+) = ", re.M)


def read_states(path, want_fin=True):
    """yield {var: raw text} for the leaf states (fin = TRUE) of a `tlc -dump` file"""
    def parse(block):
        out, marks = {}, [(m.start(), m.end(), m.group(1)) for m in _VAR.finditer(block)]
        for i, (st, en, name) in enumerate(marks):
            end = marks[i + 1][0] if i + 1 < len(marks) else len(block)
            out[name] = " ".join(x.strip() for x in block[en:end].splitlines())
        return out
    buf = []
    with open(path) as f:
        for line in f:
            if line.startswith("State "):
                if buf:
                    block = "".join(buf)
                    if not want_fin or "fin = TRUE" in block:
                        yield parse(block)
                buf = []
            else:
                buf.append(line)
    if buf:
        block = "".join(buf)
        if not want_fin or "fin = TRUE" in block:
            yield parse(block)


def tags_of(st):
    raw = st.get("tags")
    if raw is None:                                   # MC_Map keeps them inside the world record
        mm = re.search(r"tags \|-> (\{[^}]*\})", st.get("w", ""))
        raw = mm.group(1) if mm else "{}"
    return sorted(tlaparse.parse_value(raw))


def last_record(raw):
    """text of the last [...] record of a printed sequence of records"""
    e = raw.rfind("]")
    depth, i = 0, e
    while i >= 0:
        if raw[i] == "]":
            depth += 1
        elif raw[i] == "[":
            depth -= 1
            if depth == 0:
                return raw[i:e + 1]
        i -= 1
    return raw


def export_histories(dump, need, caps, seed):
    """the leaf (fin = TRUE) states of the dump = one shortest history per transition.  All of them were checked by
    TLC; the real code replays those whose last operation takes one of the `need` branches (up to caps[0]), a seeded
    sample of the others (up to caps[1]) and of those that run through code repaired by a fix: commit (tag "repaired",
    the former known deviations; up to caps[2]), chosen by hash so that TLC's worker interleaving has no say."""
    import hashlib
    tagged, plain, dev, leaves = [], [], [], 0
    for st in read_states(dump):
        if st.get("fin") != "TRUE":
            continue
        leaves += 1
        tags = tags_of(st)
        # identity of the transition = (pre-state, last operation): the same whichever shortest history TLC kept
        h = hashlib.sha1(("%d|%s|%s" % (seed, st.get("prev", ""), last_record(st["hist"]))).encode()).hexdigest()
        (dev if "repaired" in tags else tagged if any(t in need for t in tags) else plain).append((h, st["hist"], tags))
    tagged.sort(); plain.sort(); dev.sort()
    per_op, dsel = {}, []                              # the repaired paths: up to caps[2] per kind of operation, so that
    for x in dev:                                      # every repaired defect keeps its regression witnesses in the sample
        mm = re.search(r'op \|-> "(\w+)"', last_record(x[1]))
        o = mm.group(1) if mm else "?"
        per_op[o] = per_op.get(o, 0) + 1
        if per_op[o] <= caps[2]:
            dsel.append(x)
    sel = tagged[:caps[0]] + plain[:caps[1]] + dsel
    out = [(tlaparse.parse_value(raw), tags) for _, raw, tags in sel]
    return out, {"transitions": leaves, "tagged": len(tagged), "repaired_path": len(dev), "replayed": len(out)}


def run_model(m, wd, workers, caps, seed):
    cfg = os.path.join(wd, m["name"] + ".cfg")
    open(cfg, "w").write(cfg_text(m))
    dump = os.path.join(wd, m["name"])
    r = vlib.tlc(mc_path(m["mod"]), cfg, workers=workers, name="c20-" + m["name"], timeout=2400,
                 extra=["-dump", dump, "-noGenerateSpecTE"])
    if not r["ok"]:
        raise vlib.Infra("model checking %s failed (rc=%s):\n%s" % (m["name"], r["rc"], r["out"][-4000:]))
    t = time.time()
    hs, counts = export_histories(dump + ".dump", set(m["need"]) - {"repaired"}, caps, seed)
    os.remove(dump + ".dump")
    vlib.log("c20: %s: TLC %.1fs (%d distinct), %s, read in %.1fs" % (m["name"], r["wall"], r["distinct"], counts, time.time() - t))
    return r, hs, counts


def simulate(m, wd, num, depth, seed, workers):
    """tlc -simulate: `num` random histories of `depth` operations (SimSpec)"""
    mm = dict(m, consts=dict(m["consts"], MaxHist=depth))
    if m["c"] in ("vector", "string", "list", "deque"):
        grow = {"vector": 6, "string": 6, "list": 5, "deque": 7}[m["c"]]
        mm["consts"]["MaxLen"] = max(mm["consts"]["MaxLen"], grow)
    cfg = os.path.join(wd, m["name"] + "-sim.cfg")
    open(cfg, "w").write(cfg_text(mm, spec="SimSpec", props=False))
    d = os.path.join(wd, m["name"] + "-sim")
    os.makedirs(d, exist_ok=True)
    r = vlib.tlc(mc_path(m["mod"]), cfg, workers=workers, name="c20sim-" + m["name"], timeout=1500, seed=seed,
                 extra=["-simulate", "file=%s/t,num=%d" % (d, num), "-depth", str(depth + 1), "-noGenerateSpecTE"])
    if not r["ok"]:
        raise vlib.Infra("simulation of %s failed (rc=%s):\n%s" % (m["name"], r["rc"], r["out"][-3000:]))
    hs = []
    for f in sorted(glob.glob(d + "/t_*")):
        txt = open(f).read()
        i = txt.rfind("/\\ hist = ")
        if i < 0:
            continue
        j = len(txt)
        for mt in re.finditer(r"\n(/\\ \w+ = |\n|=====)", txt[i + 5:]):
            j = i + 5 + mt.start(); break
        h = tlaparse.parse_value(" ".join(x.strip() for x in txt[i + len("/\\ hist = "):j].splitlines()))
        if h:
            hs.append((h, ["simulated"]))
    return r, hs


# ---------------------------------------------------------------------------------------- seeded random histories
def random_set_cases(rnd, count, length, nkeys):
    """XalanSet<int> and XalanMap<int,..> with the library's DEFAULT parameters (29 buckets, load factor 0.75, erase
    threshold 50, byte-wise XalanHasher): long enough to rehash (40 entries) and to compact (50 erases)."""
    cases = []
    for n in range(count):
        ops, present = [], set()
        phase_len = rnd.randint(20, 60)
        grow = True
        for i in range(length):
            if i % phase_len == phase_len - 1:
                grow = not grow
            x = rnd.random()
            k = rnd.randrange(nkeys)
            if x < 0.03:
                ops.append({"op": "clear"}); present.clear()
            elif x < 0.06:
                ops.append({"op": "copy"})
            elif x < 0.12:
                ops.append({"op": "count", "k": k})
            elif (x < 0.75) == grow:
                absent = [y for y in range(nkeys) if y not in present]
                k = rnd.choice(absent) if absent and rnd.random() < 0.8 else k
                ops.append({"op": "insert", "k": k}); present.add(k)
            else:
                pres = sorted(present)
                k = rnd.choice(pres) if pres and rnd.random() < 0.85 else k
                ops.append({"op": "erase", "k": k}); present.discard(k)
        cases.append({"c": "set", "p": {"nkeys": nkeys}, "ops": ops, "tags": ["random"]})
        # the same history on a map with default parameters (values 1..3, operator[] mixed in)
        mops = []
        for o in ops:
            if o["op"] == "insert":
                mops.append({"op": rnd.choice(["insert", "put", "put"]), "w": 1, "k": o["k"], "v": rnd.randint(1, 3)} if rnd.random() < 0.8
                            else {"op": "index", "w": 1, "k": o["k"]})
            elif o["op"] == "erase":
                mops.append({"op": "erase", "w": 1, "k": o["k"]})
            elif o["op"] == "count":
                mops.append({"op": "find", "w": 1, "k": o["k"]})
            elif o["op"] == "clear":
                mops.append({"op": "clear", "w": rnd.choice([1, 1, 2])})
            else:
                mops.append({"op": rnd.choice(["copy", "swap", "assign", "selfAssign"]), "w": rnd.choice([1, 2])})
        cases.append({"c": "map", "p": {"lfNum": 3, "lfDen": 4, "minBuckets": 29, "thr": 50, "hashMod": 1 << 30, "nkeys": nkeys},
                      "ops": mops, "tags": ["random"]})
    return cases


def pool_cases(rnd, quick):
    """XalanDOMStringPool / XalanDOMStringHashTable: strings over two code units up to length 3, so that every string is a prefix
    of others; with 1 and 2 buckets everything collides, with the default 101 the table is the usual one.  Systematic: every
    ordered triple of strings (quick: a third of them) requested and then looked up; seeded: long histories with clear()."""
    import itertools
    U = [97, 98]
    strs = [[]] + [list(t) for n in (1, 2, 3) for t in itertools.product(U, repeat=n)]
    cases = []
    triples = list(itertools.product(range(len(strs)), repeat=3))
    if quick:
        triples = triples[rnd.randrange(3)::3]
    for k, (a, b, c) in enumerate(triples):
        ops = [{"op": ("get", "getz", "getn")[(k + j) % 3], "src": strs[x]} for j, x in enumerate((a, b, c))]
        ops += [{"op": "find", "src": strs[x]} for x in (c, a, rnd.randrange(len(strs)))]
        cases.append({"c": "pool", "p": {"block": 1 + k % 3, "buckets": 1 + k % 2, "bucketSize": 1 + k % 4}, "ops": ops, "tags": ["systematic"]})
    for n in range(20 if quick else 200):
        ops = []
        for i in range(rnd.randint(30, 120)):
            x = rnd.random()
            s_ = rnd.choice(strs) if rnd.random() < 0.8 else [rnd.choice(U) for _ in range(rnd.randint(4, 9))]
            ops.append({"op": "clear"} if x < 0.03 else {"op": "find", "src": s_} if x < 0.3 else {"op": rnd.choice(["get", "getz", "getn"]), "src": s_})
        cases.append({"c": "pool", "p": {"block": rnd.choice([1, 2, 32]), "buckets": rnd.choice([1, 2, 3, 101]), "bucketSize": rnd.choice([1, 15])},
                      "ops": ops, "tags": ["random"]})
    return cases


# ---------------------------------------------------------------------------------------- former deviations
def findings_any_status(prop):
    """all entries of the known-findings files for this property, fixed ones included (vlib returns only `known`)"""
    out = []
    for path in [os.path.join(ROOT, "known_findings.jsonl")] + sorted(glob.glob(os.path.join(ROOT, "known_findings.d", "*.jsonl"))):
        if os.path.exists(path):
            out += [r for r in vlib.read_ndjson(path) if r.get("property") == prop]
    return out



def _deq_resize(size, n):
    i = 0
    if n > size:
        while i < n - size:
            size += 1; i += 1
    else:
        while i < size - n:
            size -= 1; i += 1
    return size


def classify(c, pre, op, ev):
    """semantic key of a rejected step, if the recorded outcome is exactly what the known deviating algorithm
    produced before the fix: commits (all nine keys are "fixed" now: a match is reported as a VIOLATION that names
    the key, i.e. a regression); None otherwise.  pre = observation before the step."""
    o = op["op"]
    aborted = ev.get("e") == "Abort"
    obs = ev.get("obs", {})
    if c == "vector":
        items, size, cap = pre["items"], pre["size"], pre["cap"]
        if o == "insertSelf":
            pos, n, i = op["pos"], op["n"], op["i"]
            if pos == size and size + n > cap:
                return "vector-insert-value-aliases-element" if aborted else None        # reads the freed block
            if pos < size and size + n <= cap and size - pos > n and i >= pos + n and not aborted:
                if obs.get("items") == items[:pos] + [items[i - n]] * n + items[pos:]:
                    return "vector-insert-value-aliases-element"
        if o == "resizeSelf" and op["n"] > size and op["n"] > cap and aborted:
            return "vector-resize-value-aliases-element"
        return None
    if c == "deque":
        if o == "resize" and not aborted:
            want = _deq_resize(pre["size"], op["n"])
            if want != op["n"] and obs.get("size") == want and obs.get("items") == (pre["items"] + [0] * want)[:want]:
                return "deque-resize-half"
        return None
    if c == "string":
        u, ln = pre["units"], pre["len"]
        if o in ("appendSub", "appendSubSelf") and op["n"] == -1 and not aborted:
            src = u if o == "appendSubSelf" else op["src"]
            full = u + src[op["pos"]:]
            if ln == 0 and obs.get("len") == -2:
                return "string-append-substring-npos"
            if ln > 0 and obs.get("len") == ln - 1 and obs.get("units") == full[:ln - 1]:
                return "string-append-substring-npos"
        if o == "resizeC" and op["n"] > ln and op["ch"] != 0 and not aborted:
            if obs.get("units") == u + [0] + [op["ch"]] * (op["n"] - ln - 1) and obs.get("len") == op["n"] and obs.get("term") == 0:
                return "string-resize-grow-fill"
        if o == "insertSubSelf" and not aborted:
            pos, p2, n = op["pos"], op["pos2"], op["n"]
            d = u + [0]
            if len(d) - pos > n and p2 > pos:
                m = d + d[len(d) - n:]                                   # the last n cells pushed behind the end
                m[pos + n:len(d)] = d[pos:len(d) - n]                    # copy_backward of the rest of the tail
                m[pos:pos + n] = m[p2:p2 + n]                            # the "source", read after the move
                if obs.get("units") == m[:ln + n] and obs.get("len") == ln + n and obs.get("units") != u[:pos] + u[p2:p2 + n] + u[pos:]:
                    return "string-insert-substring-of-self"
        if o in ("substr", "substrSelf") and op["n"] == -1 and op["pos"] > 0:
            if aborted:
                return "string-substr-npos-position"                     # reads length() units from pos: past the buffer
            pos = op["pos"]
            if o == "substr" and ev.get("otherLen") == ln and ev.get("other", [])[:ln - pos + 1] == u[pos:] + [0]:
                return "string-substr-npos-position"
            if o == "substrSelf" and obs.get("len") == ln and obs.get("units", [])[:ln - pos + 1] == u[pos:] + [0]:
                return "string-substr-npos-position"
        if o == "at" and op["i"] == ln and not aborted and ev.get("res") == 0 and obs.get("units") == u:
            return "string-at-length"
        if o == "eraseRange" and ln == 0 and not aborted and obs.get("len") == -2:
            return "string-erase-iterators-unallocated"
        return None
    return None


# ---------------------------------------------------------------------------------------- running the real code
def run_harness(exe, cases, wd, shards):
    """replay the cases (sharded over processes); returns (events in case order, harness failures)"""
    shards = max(1, min(shards, (len(cases) + 199) // 200))
    per = (len(cases) + shards - 1) // shards
    jobs = []
    for s in range(shards):
        chunk = cases[s * per:(s + 1) * per]
        if chunk:
            p = os.path.join(wd, "cases-%d.ndjson" % s)
            vlib.write_ndjson(p, [{"c": x["c"], "p": x["p"], "ops": x["ops"]} for x in chunk])
            jobs.append((p, p.replace("cases-", "trace-"), len(chunk)))

    def one(job):
        cp, tp, _ = job
        env = dict(os.environ, ASAN_OPTIONS="detect_leaks=0:abort_on_error=0:symbolize=0", UBSAN_OPTIONS="print_stacktrace=1")
        with open(tp, "w") as f:
            try:
                r = subprocess.run([exe, cp], stdout=f, stderr=subprocess.PIPE, text=True, timeout=3000, env=env, errors="replace")
                return r.returncode, r.stderr
            except subprocess.TimeoutExpired:
                return 124, "harness timed out"

    events, failures, errs = [], [], []
    with ThreadPoolExecutor(max_workers=len(jobs)) as ex:
        results = list(ex.map(one, jobs))
    for (cp, tp, n), (rc, err) in zip(jobs, results):
        evs = vlib.read_ndjson(tp)
        events += evs
        errs.append(err)
        if rc != 0:
            failures.append((rc, err[-400:], evs[-20:]))
    return events, failures, "\n".join(errs)


def build_exe():
    """the harness instantiates header templates: rebuild it whenever a header of the checked tree is newer"""
    bdir = vlib.build_repo("asan")
    exe = os.path.join(bdir, "xv_c20")
    if os.path.exists(exe):
        hdrs = glob.glob(os.path.join(vlib.REPO, "src/xalanc/Include/*.hpp")) + glob.glob(os.path.join(vlib.REPO, "src/xalanc/XalanDOM/*.hpp"))
        if hdrs and max(os.path.getmtime(h) for h in hdrs) > os.path.getmtime(exe):
            os.remove(exe)
    return vlib.build_harness("c20", "asan")


# ---------------------------------------------------------------------------------------- the check
NEED_OK = "every listed branch of the transcribed algorithms occurs in the exported histories"


def run(res, tier, seed):
    quick = tier == "quick"
    wd = vlib.workdir("c20-%d" % os.getpid())
    t0 = time.time()
    ms = models(tier)
    # ---- MC + GEN (one TLC run per model: refinement checked on every generated transition, leaves exported)
    exe_future = ThreadPoolExecutor(max_workers=1).submit(build_exe)
    cases, tagcount = [], {}
    par = 3
    caps = (1300, 700, 25) if quick else (12000, 5000, 300)
    with ThreadPoolExecutor(max_workers=par) as ex:
        outs = list(ex.map(lambda m: run_model(m, wd, max(2, vlib.NCPU // (par + 1)), caps, seed), ms))
    for m, (r, hs, counts) in zip(ms, outs):
        res.add_mc(r, "MC_%s/%s %s" % (m["mod"], m["name"], " ".join("%s=%s" % kv for kv in m["consts"].items())))
        seen = {}
        for h, tags in hs:
            cases.append({"c": m["c"], "p": m["p"], "ops": h, "tags": tags, "model": m["name"]})
            for t in tags:
                seen[t] = seen.get(t, 0) + 1
        tagcount[m["name"]] = dict(seen, **counts)
        missing = [t for t in m["need"] if not seen.get(t)]
        if missing:
            raise vlib.Infra("bounded model %s never takes branch(es) %s: bounds too small" % (m["name"], missing))
    res.notes["branches_in_exported_histories"] = tagcount
    res.notes["mc_gen_wall_s"] = round(time.time() - t0, 1)
    # ---- longer histories: tlc -simulate (thorough), seeded random for the default-parameter map / set
    rnd = random.Random(seed)
    if not quick:
        sims = [m for m in ms if m["name"] in ("map-2", "map-3", "map-4", "vector", "string", "list", "deque", "deque-3")]
        ms_q = {m["name"]: m for m in models("quick")}
        sims = [dict(m, consts=dict(ms_q[m["name"]]["consts"])) if m["name"] in ("vector", "string", "list") else m for m in sims]   # small operand spaces: faster steps
        with ThreadPoolExecutor(max_workers=2) as ex:
            souts = list(ex.map(lambda m: simulate(m, wd, 8 if m["c"] == "list" else 50, 40, seed, 4), sims))   # num is per worker
        for m, (r, hs) in zip(sims, souts):
            for h, tags in hs:
                cases.append({"c": m["c"], "p": m["p"], "ops": h, "tags": tags, "model": m["name"] + "-sim"})
            tagcount[m["name"] + "-sim"] = {"histories": len(hs)}
    cases += random_set_cases(rnd, 12 if quick else 60, 140 if quick else 260, 64)
    cases += pool_cases(rnd, quick)
    random.Random(seed).shuffle(cases)                 # spread long / short executions evenly over the shards
    # ---- RUN
    exe = exe_future.result()
    t1 = time.time()
    events, failures, stderr_text = run_harness(exe, cases, wd, 8)
    res.notes["run_wall_s"] = round(time.time() - t1, 1)
    for rc, err, tail in failures:
        res.violation("harness terminated abnormally (rc=%d): %s" % (rc, err), tail)
    if failures:
        return
    execs = vlib.split_executions(events)
    if len(execs) != len(cases):
        raise vlib.Infra("harness produced %d executions for %d cases" % (len(execs), len(cases)))
    res.cov["evaluations"] = len(execs)
    # ---- TV
    t2 = time.time()
    rejects, st = vlib.tlc_validate_sharded(TRACE, events, shards=8 if quick else 12, tag="c20tv", timeout=3000)
    res.notes["tv_states"] = st["tv_states"]
    res.notes["tv_wall_s"] = round(time.time() - t2, 1)
    known = {k["key"]: k for k in vlib.known_findings(PROP)}          # status "known" only: those are reported as KNOWN-FINDING
    fixed = {k["key"]: k for k in findings_any_status(PROP) if k.get("status") == "fixed"}
    starts, pos = [], 0
    for ex_ in execs:
        starts.append(pos); pos += len(ex_)
    bad = set()
    for rj in sorted(rejects, key=lambda x: x["line"]):
        e = bisect.bisect_right(starts, rj["line"]) - 1
        if e in bad:
            continue
        bad.add(e)
        ex_, case = execs[e], cases[e]
        k = rj["line"] - starts[e]                       # index of the rejected event in its execution: Reset, new, op1, ...
        key = None
        if k >= 2 and k - 2 < len(case["ops"]) and ex_[k - 1].get("e") == "Op" and "obs" in ex_[k - 1] and case["c"] in ("vector", "string", "deque"):
            key = classify(case["c"], ex_[k - 1]["obs"], case["ops"][k - 2], ex_[k])
        if key and key in known:
            res.known(known[key])
        else:
            op = case["ops"][k - 2] if 0 <= k - 2 < len(case["ops"]) else {"op": ex_[k].get("op")}
            msg = "%s %s: not a step of the abstract model; before: %s; recorded: %s" % (
                case["c"], json.dumps(op, sort_keys=True), json.dumps(ex_[k - 1].get("obs")) if k >= 1 else "-",
                json.dumps({x: y for x, y in ex_[k].items() if x in ("res", "obs", "other", "tmp", "live", "bad", "otherLen", "otherTerm")}))
            msg = msg[:700]
            if ex_[k].get("e") == "Abort":
                op = case["ops"][k - 2] if 0 <= k - 2 < len(case["ops"]) else {"op": "new" if k < 2 else "destroy"}
                why = ex_[k].get("why") or "status %s" % ex_[k].get("status")
                msg = "%s %s aborted the real code (%s)" % (case["c"], json.dumps(op, sort_keys=True), why)
            if key and key in fixed:             # the recorded outcome is exactly what the defect produced before its repair
                msg = "REGRESSION of fixed finding %s (%s): %s" % (key, fixed[key].get("commit", "?"), msg)
            elif key:
                msg = "[%s] %s" % (key, msg)
            res.violation(msg, ex_[:k + 1])
    res.cov["traces_validated_against_impl"] = len(execs) - len(bad)
    # ---- coverage accounting
    nt = set()
    for case, ex_ in zip(cases, execs):
        if case["tags"]:
            nt.add(vlib.canon_hash([case["c"], case["p"], case["ops"]]))
    res.cov["distinct_nontrivial"] = len(nt)
    res.cov["rule"] = ("executions = shortest histories reaching a transition (pre-state, operation) of the TLC state graphs of MapImpl / "
                       "VectorImpl / StringImpl / ListImpl / DequeImpl: per model every transition whose operation takes a listed branch (up to %d) "
                       "and a seeded sample of the others (up to %d) - TLC itself checks all of them -, plus seeded random histories of XalanSet / default-parameter "
                       "XalanMap%s, plus XalanDOMStringPool / XalanDOMStringHashTable against the pool contract of Containers.tla (every ordered triple of the 15 strings of length <= 3 over two units "
                       "requested and looked up with 1-2 buckets so that prefixes collide, and long seeded histories with clear()); non-trivial = the last operation takes a tagged branch of the transcribed algorithm (rehash, reuse of a "
                       "freed node, bucket compaction, stale bucket reference, reallocation, in-place insertion / self insertion, element "
                       "shifting, block recycling, splice, a path repaired by a fix: commit) or the history is a long random one; distinct by hash of "
                       "(container, parameters, operations)" % (caps[0], caps[1], "" if quick else " and tlc -simulate histories of 40 operations"))
    by = {}
    for case in cases:
        by[case["c"]] = by.get(case["c"], 0) + 1
    res.notes["executions_by_container"] = by
    for want in ("map", "vector", "string", "list", "deque"):
        for case, ex_ in zip(cases, execs):
            if case["c"] == want and len(case["ops"]) >= 3 and case["tags"] and len(case["ops"]) < 8:
                res.sample({"case": {"c": case["c"], "p": case["p"], "ops": case["ops"], "tags": case["tags"]}, "last_event": ex_[-2]}, limit=5)
                break
    res.assumptions += [
        "doubles: load factors are dyadic (1.0, 0.75) so that size_type(m_loadFactor * size()) is exact in the model; 1.6 * n is exact for the sizes reached",
        "XalanMap bucket capacities, the MemoryManager and allocation failure are not modelled (C19 covers the latter)",
        "strings never contain the code unit 0 (XML's Char excludes it; XalanDOMString measures pointer arguments and npos counts by scanning for 0)",
        "operations are called inside the preconditions the classes assert (positions within the object, non-empty for pop/front/back); "
        "swap / operator= partners of vector, list, deque and string are temporaries built from literal sequences",
        "element type of vector/list/deque/map values is an instrumented class (live-object count, lifetime errors); keys and code units are plain integers",
        "XalanDeque::swap is exercised between deques of equal and of different block sizes (m_blockSize is exchanged since the repair)",
    ]


def replay(path):
    events = vlib.read_ndjson(path)
    rejects, _ = vlib.tlc_validate_sharded(TRACE, events, shards=1, tag="c20replay")
    for r in rejects:
        ev = events[r["line"]]
        print("REJECTED line %d (%s): not a step of the abstract model (spec/core/Containers.tla)\n  before  : %s\n  recorded: %s" % (
            r["line"] + 1, r["msg"], json.dumps(events[r["line"] - 1]) if r["line"] > 0 else "-", json.dumps(ev)))
    return 1 if rejects else 0
