"""Corpus of inputs (S, D, P) for C05.  Every document carries the xml-stylesheet processing instruction (href="main.xsl",
resolved against the document's base URI), so that the SAME document is used by the forms that name the stylesheet and by
the forms that find it through the PI.  Expected results are never computed here."""
import copy
import xdm, xslgen
from props import c02

PI = '<?xml-stylesheet type="text/xsl" href="main.xsl"?>'
XSL = 'xmlns:xsl="http://www.w3.org/1999/XSL/Transform"'


def feat(method="xml", enc="utf-8", utf16=False, srcbase=False):
    return {"method": method, "enc": enc, "utf16": utf16, "srcbase": srcbase}


def ss(body, top="", attrs=""):
    return '<xsl:stylesheet version="1.0" %s%s>\n%s\n%s\n</xsl:stylesheet>\n' % (XSL, (" " + attrs) if attrs else "", top, body)


def doc(body, prolog="", decl='<?xml version="1.0"?>'):
    return "%s\n%s\n%s%s\n" % (decl, PI, prolog, body)


def inp(name, xsl, xml, f=None, sorted_xml=None, sparam=("ps", "sv"), nparam=("pn", "2.5"), extra=None, ctl=()):
    """ctl: the control experiments this input carries (see Trace_C05.tla): "nsaxis" -> in_xmlnsxml.xml"""
    files = {"main.xsl": xsl, "in.xml": xml}
    if sorted_xml is not None:
        files["in_sorted.xml"] = sorted_xml
    files.update(extra or {})
    return {"name": name, "kind": "hand", "files": files, "feat": f or feat(), "sparam": list(sparam) if sparam else None, "nparam": list(nparam) if nparam else None, "ctl": list(ctl)}


IDENTITY = '<xsl:template match="@*|node()"><xsl:copy><xsl:apply-templates select="@*|node()"/></xsl:copy></xsl:template>'
# every node of the document in document order with its position: exposes any difference in document order or node identity
DUMP = ('<xsl:template match="/"><out><xsl:for-each select="//node()|//@*"><n p="{position()}" t="{name()}" u="{namespace-uri()}" '
        'c="{count(preceding::node())}" a="{count(ancestor::node())}" f="{count(following::*)}"><xsl:if test="not(*)"><xsl:value-of select="."/></xsl:if></n></xsl:for-each></out></xsl:template>')

DOC_MIXED = '<r><p>one<b>two</b>three<!--c1-->four<?pi d?>five</p><q a="1" b="2"><i/>tail</q><!--c2--><p>x<b>y<b>z</b></b></p></r>'
DOC_NS = ('<r xmlns="urn:d" xmlns:p="urn:p"><p:e b="2" p:a="1">t1</p:e><e xmlns="" k="v"><f xmlns="urn:f" xmlns:q="urn:q" q:z="9"/></e>'
          '<p:e xmlns:p="urn:p2">t2<g/></p:e></r>')
DOC_WS = '<r>\n  <a>\n    <b>x</b>\n    <b> </b>\n  </a>\n  <keep>  <b>y</b>  </keep>\n  <a>t\n</a>\n</r>'
DOC_POS = ('<r id="r0"><a id="a1" k="x"><b id="b1">1</b><c id="c1"/><b id="b2">2</b></a><!--m--><a id="a2" k="y"><b id="b3" k="x">3</b>'
           '<a id="a3"><b id="b4">4</b><?t u?></a>txt</a><c id="c2" k="x"/></r>')


def big_doc(n):
    items = "".join('<item id="i%d" k="%s">value %d é€ &amp; &lt;tag&gt;</item>' % (i, "abc"[i % 3], i) for i in range(n))
    return "<list>%s</list>" % items


def handmade():
    L = []
    # ---- attributes: document order in the native tree, name order in a Xerces DOM
    unsorted = '<r><e z="1" a="2" m="3">one</e><e b="1" a="2"/></r>'
    sorted_ = '<r><e a="2" m="3" z="1">one</e><e a="2" b="1"/></r>'
    L.append(inp("attr-order-positional", ss('<xsl:template match="/"><out><xsl:for-each select="//e"><e first="{name(@*[1])}" last="{name(@*[last()])}"><xsl:for-each select="@*"><a n="{name()}" p="{position()}"/></xsl:for-each></e></xsl:for-each></out></xsl:template>'),
                 doc(unsorted), sorted_xml=doc(sorted_)))
    L.append(inp("attr-order-insensitive", ss('<xsl:template match="/"><out n="{count(//@*)}" z="{//e/@z}"><xsl:for-each select="//e"><e><xsl:copy-of select="@*"/><xsl:for-each select="@*"><xsl:sort select="name()"/><a n="{name()}" p="{position()}"/></xsl:for-each></e></xsl:for-each></out></xsl:template>'),
                 doc(unsorted), sorted_xml=doc(sorted_)))
    # ---- adjacent character events (entity and character references split SAX events; the builder test splits every call)
    L.append(inp("adjacent-text", ss('<xsl:template match="/"><out all="{count(//text())}"><xsl:for-each select="//t"><t n="{count(text())}" l="{string-length(text()[1])}" two="{boolean(text()[2])}" eq="{text() = \'alpha&amp;betaAgamma\'}"><xsl:value-of select="text()[1]"/></t></xsl:for-each></out></xsl:template>'),
                 doc('<r><t>alpha&amp;beta&#65;gamma</t><t>ab</t><t>x</t><t>a&lt;b&gt;c&quot;d&apos;e</t><t>long text with several words and a reference &#x20AC; inside it</t><t/></r>')))
    # ---- mixed content, comments, processing instructions (the xml-stylesheet PI is a node of the document)
    L.append(inp("mixed-identity", ss(IDENTITY), doc(DOC_MIXED)))
    L.append(inp("mixed-dump", ss(DUMP), doc(DOC_MIXED)))
    L.append(inp("mixed-counts", ss('<xsl:template match="/"><out nodes="{count(//node())}" top="{count(/node())}" c="{count(//comment())}" pi="{count(//processing-instruction())}" firstpi="{name(/processing-instruction()[1])}"><xsl:for-each select="//p/node()"><k t="{name()}" s="{.}" p="{position()}"/></xsl:for-each></out></xsl:template>'),
                 doc(DOC_MIXED, prolog="<!--before-->")))
    # ---- namespaces
    L.append(inp("ns-identity", ss(IDENTITY), doc(DOC_NS)))
    L.append(inp("ns-dump", ss('<xsl:template match="/"><out><xsl:for-each select="//*|//@*"><n q="{name()}" l="{local-name()}" u="{namespace-uri()}" ns="{count(namespace::*)}" p="{position()}"/></xsl:for-each><sel a="{count(//p:e)}" b="{count(//d:e)}" c="{count(//e)}" d="{count(//@p:a)}" xmlns:p="urn:p" xmlns:d="urn:d"/></out></xsl:template>'),
                 doc(DOC_NS), ctl=["nsaxis"], extra={"in_xmlnsxml.xml": doc(DOC_NS.replace("<r ", '<r xmlns:xml="http://www.w3.org/XML/1998/namespace" ', 1))}))
    L.append(inp("ns-result", ss('<xsl:template match="/"><o:out xmlns:o="urn:o" xmlns="urn:dflt"><in o:a="1" b="{count(//*)}"/><xsl:element name="x:el" namespace="urn:x"><xsl:attribute name="y:at" namespace="urn:y">v</xsl:attribute><none xmlns=""/></xsl:element><xsl:copy-of select="/*/*[1]"/><skipped xmlns:unused="urn:unused"/></o:out></xsl:template>',
                                      attrs='xmlns:ex="urn:ex" exclude-result-prefixes="ex"'),
                 doc(DOC_NS)))
    L.append(inp("ns-xml-attrs", ss('<xsl:template match="/"><out><xsl:for-each select="//*"><e n="{name()}" lang="{lang(\'en\')}" x="{@xml:lang}" sp="{@xml:space}"><xsl:copy-of select="@xml:*"/></e></xsl:for-each></out></xsl:template>'),
                 doc('<r xml:lang="en-US"><a xml:space="preserve"> <b xml:lang="de"/> </a><c/></r>')))
    # ---- whitespace-only text and xsl:strip-space
    STRIP = '<xsl:strip-space elements="*"/><xsl:preserve-space elements="keep"/>'
    L.append(inp("strip-space", ss('<xsl:template match="/"><out n="{count(//text())}"><xsl:for-each select="//text()"><t p="{position()}" l="{string-length()}" par="{name(..)}" prev="{count(preceding-sibling::node())}"/></xsl:for-each></out></xsl:template>', top=STRIP), doc(DOC_WS)))
    L.append(inp("strip-space-identity", ss(IDENTITY, top=STRIP), doc(DOC_WS)))
    L.append(inp("no-strip-space", ss('<xsl:template match="/"><out n="{count(//text())}"><xsl:for-each select="//node()"><t p="{position()}" l="{string-length()}" k="{name()}"/></xsl:for-each></out></xsl:template>'), doc(DOC_WS)))
    # ---- base URIs: xsl:include, document(''), document(x, /)
    INC = ss('<xsl:template match="b"><inc-b><xsl:value-of select="."/></inc-b></xsl:template><xsl:variable name="incv" select="\'from-inc\'"/>')
    L.append(inp("include-and-document-self",
                 ss('<xsl:template match="/"><out v="{$incv}"><xsl:apply-templates select="//b"/><xsl:for-each select="//a"><l k="{@k}"><xsl:value-of select="document(\'\')/*/my:tbl/my:i[@k = current()/@k]"/></l></xsl:for-each><self n="{count(document(\'\')//xsl:template)}"/></out></xsl:template>',
                    top='<xsl:include href="inc.xsl"/><my:tbl><my:i k="x">Alpha</my:i><my:i k="y">Beta</my:i></my:tbl>', attrs='xmlns:my="urn:my" exclude-result-prefixes="my"'),
                 doc(DOC_POS), extra={"inc.xsl": INC}))
    L.append(inp("document-relative-to-source",
                 ss('<xsl:template match="/"><out><xsl:for-each select="document(\'aux.xml\', /)//v"><v p="{position()}"><xsl:value-of select="."/></v></xsl:for-each><xsl:copy-of select="document(//ref/@href, /)/aux/v[2]"/></out></xsl:template>'),
                 doc('<r><ref href="aux.xml"/></r>'), f=feat(srcbase=True), extra={"aux.xml": "<aux><v>one</v><v>two</v></aux>"}))
    L.append(inp("import-precedence", ss('<xsl:template match="b"><main-b><xsl:apply-imports/></main-b></xsl:template><xsl:template match="/"><out><xsl:apply-templates select="//b|//c"/></out></xsl:template>', top='<xsl:import href="imp.xsl"/>'),
                 doc(DOC_POS), extra={"imp.xsl": ss('<xsl:template match="b"><imp-b id="{@id}"/></xsl:template><xsl:template match="c"><imp-c id="{@id}"/></xsl:template>')}))
    # ---- top-level parameters
    PARAMS = '<xsl:param name="ps" select="\'dflt\'"/><xsl:param name="pn" select="0"/><xsl:param name="unset" select="\'u\'"/>'
    L.append(inp("params", ss('<xsl:template match="/"><out s="{$ps}" n="{$pn}" n2="{$pn * 2}" u="{$unset}" t="{concat($ps, \'-\', $pn)}"><sel><xsl:copy-of select="//*[@k = $ps]"/></sel><pos><xsl:copy-of select="(//b)[position() = floor($pn)]"/></pos><isnum v="{$pn + 1 = 3.5}" isstr="{string-length($ps)}"/></out></xsl:template>', top=PARAMS),
                 doc(DOC_POS), sparam=("ps", "x"), nparam=("pn", "2.5")))
    L.append(inp("params-not-given", ss('<xsl:template match="/"><out s="{$ps}" n="{$pn}"/></xsl:template>', top=PARAMS), doc("<r/>"), sparam=None, nparam=None))
    L.append(inp("params-string-with-space", ss('<xsl:template match="/"><out s="{$ps}" l="{string-length($ps)}" n="{$pn}"/></xsl:template>', top=PARAMS), doc("<r/>"), sparam=("ps", "two words"), nparam=("pn", "-7")))
    # ---- xsl:output: method and encoding change the bytes, not the content
    BODY = '<xsl:template match="/"><doc a="café &lt;&amp;&quot;"><p>café € &lt;&amp;&gt; end</p><xsl:comment>cé</xsl:comment><q><xsl:value-of select="count(//*)"/></q><e/></doc></xsl:template>'
    for name, out, f in [
            ("out-xml-utf8", '<xsl:output method="xml" encoding="UTF-8"/>', feat()),
            ("out-xml-latin1", '<xsl:output method="xml" encoding="ISO-8859-1"/>', feat()),
            ("out-xml-ascii", '<xsl:output method="xml" encoding="US-ASCII"/>', feat()),      # its comment is ASCII (see below)
            ("out-xml-utf16", '<xsl:output method="xml" encoding="UTF-16"/>', feat(utf16=True)),
            ("out-xml-nodecl-doctype", '<xsl:output method="xml" omit-xml-declaration="yes" doctype-system="d.dtd"/>', feat()),
            ("out-xml-standalone", '<xsl:output method="xml" standalone="yes" version="1.0"/>', feat()),
            ("out-xml-cdata-elements", '<xsl:output method="xml" cdata-section-elements="p q"/>', feat())]:
        # a character the encoding cannot represent inside a comment is C04's subject (finding: written as &#233;), not repeated here
        body = BODY.replace("<xsl:comment>cé</xsl:comment>", "<xsl:comment>ce</xsl:comment>") if name == "out-xml-ascii" else BODY
        # (out-xml-cdata-elements: the text of p and q reaches FormatterListener::cdata(); the source-tree target used to drop it)
        L.append(inp(name, ss(body, top=out), doc(DOC_MIXED), f=f))
    HTML = ('<xsl:template match="/"><html><body class="c"><p id="p1">café &lt;&amp;&gt; text<br/>more</p><hr/><img src="a.png" alt="x"/><ul><xsl:for-each select="//b"><li><xsl:value-of select="."/></li></xsl:for-each></ul>'
            '<xsl:comment>note</xsl:comment><div title="a&amp;b"><span/>tail</div></body></html></xsl:template>')
    L.append(inp("out-html-utf8", ss(HTML, top='<xsl:output method="html" indent="no" encoding="UTF-8"/>'), doc(DOC_MIXED), f=feat("html")))
    L.append(inp("out-html-latin1", ss(HTML, top='<xsl:output method="html" indent="no" encoding="ISO-8859-1"/>'), doc(DOC_MIXED), f=feat("html", "iso-8859-1")))
    TEXT = '<xsl:template match="/"><w><xsl:text>café &lt;&amp;&gt; </xsl:text><xsl:for-each select="//text()"><x a="ignored"><xsl:value-of select="."/>|</x></xsl:for-each><xsl:comment>no</xsl:comment><xsl:text>&#10;end</xsl:text></w></xsl:template>'
    L.append(inp("out-text-utf8", ss(TEXT, top='<xsl:output method="text" encoding="UTF-8"/>'), doc(DOC_MIXED), f=feat("text")))
    L.append(inp("out-text-latin1", ss(TEXT, top='<xsl:output method="text" encoding="ISO-8859-1"/>'), doc(DOC_MIXED), f=feat("text", "iso-8859-1")))
    L.append(inp("out-text-utf16", ss(TEXT, top='<xsl:output method="text" encoding="UTF-16"/>'), doc(DOC_MIXED), f=feat("text", "utf-16", utf16=True)))
    # ---- position-sensitive expressions: document order in the native tree versus the Xerces bridge
    POS = ('<xsl:template match="/"><out last="{name(//*[last()])}" lastid="{(//*)[last()]/@id}" third="{(//*)[3]/@id}"><xsl:for-each select="//*">'
           '<e id="{@id}" prec="{preceding::*[1]/@id}" foll="{following::*[1]/@id}" anc="{ancestor::*[1]/@id}" ps="{preceding-sibling::node()[1]/@id}" np="{count(preceding::node())}" '
           'nf="{count(following::node())}" same="{generate-id(..) = generate-id(parent::*)}" lastk="{(//*[@k=current()/@k])[last()]/@id}"/></xsl:for-each>'
           '<u><xsl:for-each select="//@k|//text()|//comment()|//processing-instruction()"><i p="{position()}" v="{.}"/></xsl:for-each></u>'
           '<k><xsl:for-each select="key(\'byk\', \'x\')"><i id="{@id}" p="{position()}"/></xsl:for-each><first id="{key(\'byk\', \'x\')[1]/@id}"/></k>'
           '<rev><xsl:for-each select="//b"><xsl:sort select="position()" data-type="number" order="descending"/><i id="{@id}"/></xsl:for-each></rev></out></xsl:template>')
    L.append(inp("position-sensitive", ss(POS, top='<xsl:key name="byk" match="*[@k]" use="@k"/>'), doc(DOC_POS)))
    L.append(inp("position-dump", ss(DUMP), doc(DOC_POS)))
    L.append(inp("position-dump-ns", ss(DUMP), doc(DOC_NS)))
    # ---- DTD: ID attributes, defaulted attributes
    DTD = '<!DOCTYPE r [<!ATTLIST a id ID #IMPLIED dflt CDATA "dv"><!ATTLIST b id ID #IMPLIED>]>\n'
    L.append(inp("dtd-id-default-attrs", ss('<xsl:template match="/"><out a2="{name(id(\'a2\'))}" b3="{id(\'b3\')}" many="{count(id(\'a1 b1 nope\'))}"><xsl:for-each select="//a"><a d="{@dflt}" n="{count(@*)}"/></xsl:for-each></out></xsl:template>'),
                 doc('<r><a id="a1"><b id="b1">1</b></a><a dflt="own" id="a2"><b id="b3">3</b></a></r>', prolog=DTD)))
    # every DTD attribute type next to ID: only ID-typed attributes enter the id() index (XPath 4.1) - IDREF / IDREFS values that point
    # forwards, backwards or nowhere, name tokens and enumerated values that spell an ID or a non-ID, in every source form
    DTD_T = ('<!DOCTYPE r [<!ATTLIST a id ID #IMPLIED ref IDREF #IMPLIED refs IDREFS #IMPLIED tok NMTOKEN #IMPLIED toks NMTOKENS #IMPLIED kind (i1|i2|zz) #IMPLIED txt CDATA #IMPLIED>'
             '<!ATTLIST b id ID #IMPLIED ref IDREF #IMPLIED>]>\n')
    IDS = ' '.join("i%d" % k for k in range(1, 8)) + " zz q"
    L.append(inp("dtd-attribute-types", ss('<xsl:template match="/"><out n="{count(id(\'%s\'))}"><xsl:for-each select="id(\'%s\')"><hit name="{name()}" p="{count(preceding::*)}" a="{count(ancestor::*)}"/></xsl:for-each>'
                                           '<fwd><xsl:value-of select="name(id(//a[1]/@ref))"/>|<xsl:value-of select="count(id(//@refs))"/>|<xsl:value-of select="count(id(//@tok | //@toks | //@kind | //@txt))"/></fwd></out></xsl:template>' % (IDS, IDS)),
                 doc('<r><a ref="i5" refs="i6 i7 i3" tok="i4" toks="i4 i2" kind="i2" txt="i1"/><a id="i1" ref="i1"/><b ref="i7" id="i2"><a id="i3" refs="i1 i2"/></b><a ref="zz" tok="q"/><b id="i5"/><a id="i6" kind="zz"/></r>', prolog=DTD_T)))
    L.append(inp("dtd-doctype-node", ss('<xsl:template match="/"><out top="{count(/node())}" before="{count(/*/preceding-sibling::node())}" name="{name(/node()[last() - 1])}"/></xsl:template>'),
                 doc('<r><a id="a1"/></r>', prolog=DTD)))
    # comments and a processing instruction on both sides of the document type declaration, and after the document element
    L.append(inp("dtd-prolog-comments", ss('<xsl:template match="/"><out top="{count(/node())}" c="{count(/comment())}" p="{count(/processing-instruction())}" before="{count(/*/preceding-sibling::node())}" after="{count(/*/following-sibling::node())}">'
                                           '<xsl:for-each select="/node()"><n k="{name()}" v="{.}" pos="{position()}"/></xsl:for-each></out></xsl:template>'),
                 doc('<r><a id="a1"/></r><!-- end --><?last one?>', prolog='<!-- before --><?first pi?>\n' + DTD.rstrip("\n") + '<!-- after one --><?mid pi?><!-- after two -->\n')))
    # ---- attribute values with escapes; characters needing escapes in the output
    L.append(inp("attr-escapes", ss('<xsl:template match="/"><out><xsl:for-each select="//e/@*"><a n="{name()}" l="{string-length()}" v="{.}"/></xsl:for-each><t><xsl:value-of select="//t"/></t></out></xsl:template>'),
                 doc('<r><e a="x&#10;y&#9;z" b="&quot;q&quot; &amp; &lt;" c="  two  spaces  "/><t>line1&#13;line2\ttab &#160;nbsp</t></r>')))
    # ---- enough output for several handler calls (buffer of 512 units), narrow and wide writers
    BIG = '<xsl:template match="/"><out><xsl:for-each select="//item"><row id="{@id}" k="{@k}" n="{position()}"><xsl:value-of select="."/></row></xsl:for-each></out></xsl:template>'
    L.append(inp("big-utf8", ss(BIG), doc(big_doc(70))))
    L.append(inp("big-latin1", ss(BIG, top='<xsl:output encoding="ISO-8859-1"/>'), doc(big_doc(70))))
    L.append(inp("big-utf16", ss(BIG, top='<xsl:output encoding="UTF-16"/>'), doc(big_doc(70)), f=feat(utf16=True)))
    L.append(inp("big-text", ss('<xsl:template match="/"><w><xsl:for-each select="//item"><xsl:value-of select="concat(@id, \':\', ., \'&#10;\')"/></xsl:for-each></w></xsl:template>', top='<xsl:output method="text"/>'), doc(big_doc(70)), f=feat("text")))
    L.append(inp("exact-buffer-text", ss('<xsl:template match="/"><w><xsl:value-of select="//t"/></w></xsl:template>', top='<xsl:output method="text" encoding="ISO-8859-1"/>'), doc("<r><t>%s</t></r>" % ("0123456789abcdef" * 64)), f=feat("text", "iso-8859-1")))
    # ---- the xml-stylesheet form with other xml-stylesheet instructions around the XSLT one (a CSS one first, an alternate after)
    PIDOC = ('<?xml version="1.0"?>\n<?xml-stylesheet type="text/css" href="style.css"?>\n<!--c--><?other x?>\n%s\n<?xml-stylesheet type="text/css" href="late.css"?>\n'
             '<r><a>1</a><b>2</b></r>\n' % PI)
    L.append(inp("pi-among-other-stylesheet-pis", ss('<xsl:template match="/"><out pis="{count(/processing-instruction())}" first="{/processing-instruction()[1]}"><xsl:copy-of select="/r/*"/></out></xsl:template>'), PIDOC))
    # ---- inputs on which every form must fail
    L.append(inp("fail-terminate", ss('<xsl:template match="/"><out><a/><xsl:message terminate="yes">stop</xsl:message></out></xsl:template>'), doc("<r/>")))
    L.append(inp("fail-source-malformed", ss('<xsl:template match="/"><out/></xsl:template>'), '<?xml version="1.0"?>\n%s\n<r><a></r>\n' % PI))
    L.append(inp("fail-stylesheet-xpath", ss('<xsl:template match="/"><out v="{1 +* 2}"/></xsl:template>'), doc("<r/>")))
    L.append(inp("undefined-variable-is-a-warning", ss('<xsl:template match="/"><out v="{$nope}"/></xsl:template>'), doc("<r/>")))
    L.append(inp("fail-unknown-template", ss('<xsl:template match="/"><out><xsl:call-template name="nope"/></out></xsl:template>'), doc("<r/>")))
    L.append(inp("fail-unknown-function", ss('<xsl:template match="/"><out v="{nope(1)}"/></xsl:template>'), doc("<r/>")))
    L.append(inp("fail-stylesheet-malformed", '<xsl:stylesheet version="1.0" %s><xsl:template match="/"><out></xsl:template></xsl:stylesheet>' % XSL, doc("<r/>")))
    return L


# ---------------------------------------------------------------------------------------- generated pairs
def sort_attrs(t):
    t = copy.deepcopy(t)

    def go(n):
        if n["k"] == "elem":
            n["a"].sort(key=lambda a: xdm.qn(a.get("p", ""), a["l"]))
        for c in n.get("c", []):
            go(c)
    go(t)
    return t


def render_doc(t, dtd):
    top = [c for c in t["c"] if c["k"] == "elem"][0]["l"]
    return '<?xml version="1.0"?>\n' + PI + "\n" + xdm.render_xml(t, doctype=(c02.DTD % top) if dtd else None) + "\n"


def generated(rng, n):
    docs = c02.make_docs(rng, max(6, n // 3))
    nsdocs = [xdm.random_doc(rng, maxnodes=rng.choice([8, 12, 16]), ns=True) for _ in range(max(3, n // 10))]
    out = []
    for k in range(n):
        g = xslgen.XslGen(rng)
        text = xslgen.render(g.stylesheet())
        # top-level parameters, shown on the document element of the result
        text = text.replace(">\n", '>\n<xsl:param name="ps" select="\'d\'"/><xsl:param name="pn" select="0"/>\n', 1)
        text = text.replace('<xsl:template match="/"><out>', '<xsl:template match="/"><out ps="{$ps}" pn="{$pn * 2}">', 1)
        t = docs[rng.randrange(len(docs))] if k % 5 != 3 else nsdocs[rng.randrange(len(nsdocs))]
        f = feat()
        if k % 5 == 1:                              # the wide writers (XalanOutputStream's own buffer) instead of the UTF-8 writer
            text = text.replace("<xsl:param ", '<xsl:output encoding="ISO-8859-1"/><xsl:param ', 1)
        elif k % 10 == 7:
            text = text.replace("<xsl:param ", '<xsl:output encoding="UTF-16"/><xsl:param ', 1); f = feat(utf16=True)
        dtd = k % 4 == 0                            # a quarter of the documents have a DOCTYPE (ID attributes) ...
        in_order = k % 2 == 0                       # ... and those and another quarter have their attributes in name order already
        st = sort_attrs(t)
        files = {"main.xsl": text, "in.xml": render_doc(st if in_order else t, dtd)}
        ctl = []
        if not in_order and files["in.xml"] != render_doc(st, dtd):
            files["in_sorted.xml"] = render_doc(st, dtd)
        out.append({"name": "gen%d" % k, "kind": "gen", "files": files, "feat": f, "sparam": ["ps", "s%d" % k], "nparam": ["pn", str(k % 7 + 0.5)], "ctl": ctl})
    return out


TEXTDUMP = ('<xsl:template match="/"><out all="{count(//text())}"><xsl:for-each select="//e"><e id="{@id}" n="{count(node())}" t="{count(text())}" first="{string-length(text()[1])}" '
            'last="{string-length(text()[last()])}" len="{string-length(.)}"><xsl:for-each select="node()"><k p="{position()}" t="{name()}" l="{string-length()}" '
            'b="{substring(., 1, 3)}" z="{substring(., string-length() - 2)}"/></xsl:for-each></e></xsl:for-each></out></xsl:template>')


def text_boundaries(rng, n):
    """one text node, however the parser hands it over: runs of characters of many lengths (around the small constants a tree
    builder may buffer with, and larger than a parser's own buffer) joined by entity / character references, CDATA sections and
    internal entities - none of which ends a text node - and by comments / PIs / elements, which do."""
    out = []
    lengths = [0, 1, 2, 15, 16, 17, 31, 32, 33, 63, 64, 65, 99, 100, 101, 109, 127, 128, 129, 255, 256, 257, 511, 512, 513, 1023, 1024, 1025, 4095, 4096, 4097, 16383, 16385, 70000]
    glue_same = ["&amp;", "&lt;", "&#65;", "&#x263A;", "<![CDATA[<c>]]>", "&ent;", "<![CDATA[]]>", "&long;", "\n", "\r\n"]
    glue_split = ["<!--c-->", "<?p d?>", "<i/>"]
    for k in range(n):
        els = []
        for j in range(rng.randint(3, 6)):
            parts = []
            for c in range(rng.randint(1, 5)):
                ln = rng.choice(lengths[:28] if rng.random() < 0.9 else lengths)
                parts.append("".join(rng.choice("abcdefghij klmno") for _ in range(ln)))
                parts.append(rng.choice(glue_same) if rng.random() < 0.8 else rng.choice(glue_split))
            if rng.random() < 0.5:
                parts.pop()
            els.append('<e id="e%d">%s</e>' % (j, "".join(parts)))
        dtd = '<!DOCTYPE r [<!ENTITY ent "E&#38;E"><!ENTITY long "%s">]>' % ("L" * 150)
        body = "<r>%s</r>" % "".join(els)
        # control experiment "nocdata": the same document with its CDATA sections written as escaped character data
        plain = body.replace("<![CDATA[<c>]]>", "&lt;c&gt;").replace("<![CDATA[]]>", "")
        out.append(inp("text-boundaries-%d" % k, ss(TEXTDUMP), doc(body, prolog=dtd),
                       ctl=["nocdata"] if plain != body else [], extra={"in_nocdata.xml": doc(plain, prolog=dtd)} if plain != body else None))
    return out


def make_corpus(rng, ngen):
    return handmade() + text_boundaries(rng, max(4, ngen // 6)) + generated(rng, ngen)
