"""C04 - XML output is well-formed and parses back to exactly the result tree.
MC : MC_WriterBuffer.tla - the staging buffers of the three writer families (XalanUTF8Writer, XalanUTF16Writer,
     XalanOtherEncodingWriter) and of the legacy FormatterToXML, transcribed with a buffer of 8 units: for every sequence of
     write operations the concatenation of the flushes is the encoding of the input, the buffer never overruns, the two
     counters stay consistent and no flush cuts a multi-unit character.  MC_Serializer.tla - the escaping decisions of
     FormatterToXMLUnicode (SerializerImpl.tla: CharFunctor tables, CDATA splitting, character-reference fallback) and of the
     older FormatterToXML (second half of SerializerImpl.tla: m_maxCharacter, special-character maps, accumDefaultEscape,
     writeNormalizedChars, canTranscodeTo) against the abstract parser of Serializer.tla (ParseBack o Serialize = id on all
     short strings over the class alphabet; invariants ImplConforms / LegacyConformsInv).
GEN: MC_WriterBuffer exports one shortest operation history per transition (hist + VIEW + tlc -dump); every history is
     scaled to the real buffer size (512) and rendered as an event script; plus the offset x class x context x option product:
     each special character / sequence at buffer offsets 505..516 in text, attribute values, CDATA-section elements, comments,
     PI data and names.
RUN: harness/c04.cpp feeds the scripts into XalanXMLSerializerFactory::create's product ("new"), FormatterToXML ("legacy")
     and through XalanTransformer with a generated stylesheet ("e2e"); a sample runs under ASan.
     canon(): decode per the requested encoding, XML 1.1 front end, pyexpat (independent of Xerces) -> canonical node list.
TV : Trace_C04.tla decides: status/Representable consistency, parsed tree = Tree(script), flush granularity, new/legacy agreement."""
import json, os, random, re, subprocess, sys, time
from concurrent.futures import ThreadPoolExecutor
from xml.parsers import expat
import vlib, tlaparse
from vlib import ROOT

PROP = "C04"
TRACE = os.path.join(ROOT, "spec/trace/Trace_C04.tla")
MC_WB = os.path.join(ROOT, "spec/mc/MC_WriterBuffer.tla")
MC_SER = os.path.join(ROOT, "spec/mc/MC_Serializer.tla")
BUF = 512

ENCODINGS_MC = ["UTF-8", "UTF-16", "ISO-8859-1", "US-ASCII", "windows-1252", "GB18030", "UTF-16BE"]
# X-UNKNOWN-ENC: a name no transcoder knows (XSLT 16.1: a processor that does not signal an error "should use UTF-8 or UTF-16"; Xalan uses
# UTF-8): what is written must then BE UTF-8 and say so
ENCODINGS = ENCODINGS_MC + ["X-UNKNOWN-ENC"]
EFFECTIVE = {"X-UNKNOWN-ENC": "UTF-8"}
NO_LEGACY = {"UTF-16BE"}       # encodings only run through the factory serializer and end to end
PYCODEC = {"X-UNKNOWN-ENC": "utf-8", "UTF-16BE": "utf-16-be", "UTF-8": "utf-8", "UTF-16": "utf-16", "ISO-8859-1": "latin-1", "US-ASCII": "ascii", "windows-1252": "cp1252", "GB18030": "gb18030"}
VERSIONS = ["1.0", "1.1"]


# ---------------------------------------------------------------------------------------- strings
def rle(cps):
    """canonical run-length coding of a code point sequence: [[cp, n], ...]"""
    out = []
    for c in cps:
        if out and out[-1][0] == c:
            out[-1][1] += 1
        else:
            out.append([c, 1])
    return out


def unrle(r):
    return [c for c, n in r for _ in range(n)]


def S(text):
    return rle([ord(c) for c in text])


# ----------------------------------------------------------------------------------- canonicaliser
_DECL = re.compile(r'^<\?xml\s+version\s*=\s*(["\'])(1\.[0-9]+)\1(?:\s+encoding\s*=\s*(["\'])([A-Za-z][A-Za-z0-9._-]*)\3)?'
                   r'(?:\s+standalone\s*=\s*(["\'])(yes|no)\5)?\s*\?>')
_RESTRICTED11 = set(range(1, 9)) | {0xB, 0xC} | set(range(0xE, 0x20)) | set(range(0x7F, 0x85)) | set(range(0x86, 0xA0))
_ONLY11 = set(range(1, 9)) | {0xB, 0xC} | set(range(0xE, 0x20))         # referable in 1.1, not characters of 1.0
_PUA = 0xF700


def _front11(text):
    """XML 1.1 -> XML 1.0 front end for the 1.0-only parser: restricted characters must not be literal, 1.1 line ends are
    normalised, references to C0 controls (legal only in 1.1) become private-use placeholders (content and attribute
    values only).  returns (text, error)"""
    for ch in text:
        o = ord(ch)
        if o in _RESTRICTED11:
            return None, "XML 1.1: literal restricted character U+%04X" % o
        if _PUA <= o < _PUA + 0x20:
            return None, "canonicaliser: placeholder collision"
    text = text.replace("\r\n", "\n").replace("\r\x85", "\n").replace("\x85", "\n").replace("\u2028", "\n").replace("\r", "\n")
    out, i, n = [], 0, len(text)
    while i < n:
        if text.startswith("<!--", i):
            j = text.find("-->", i + 4); j = n if j < 0 else j + 3
        elif text.startswith("<![CDATA[", i):
            j = text.find("]]>", i + 9); j = n if j < 0 else j + 3
        elif text.startswith("<?", i):
            j = text.find("?>", i + 2); j = n if j < 0 else j + 2
        elif text.startswith("&#", i):
            j = text.find(";", i)
            m = re.fullmatch(r"&#(?:x([0-9a-fA-F]+)|([0-9]+));", text[i:j + 1]) if j > 0 else None
            if m:
                v = int(m.group(1), 16) if m.group(1) else int(m.group(2))
                if v in _ONLY11:
                    out.append(chr(_PUA + v)); i = j + 1
                    continue
            j = i + 2
        else:
            j = i + 1
        out.append(text[i:j]); i = j
    return "".join(out), None


def _back11(s):
    return "".join(chr(ord(c) - _PUA) if _PUA <= ord(c) < _PUA + 0x20 else c for c in s)


def canon(data, enc, ver):
    """bytes -> (node list, "") or (None, error).  Nodes: {"k","n","v","a"} with run-length coded strings; adjacent
    character data (CDATA sections included) merged; attributes sorted by name."""
    try:
        if enc == "UTF-16" and data[:2] not in (b"\xff\xfe", b"\xfe\xff"):
            return None, "decode: UTF-16 entity without byte order mark"
        text = data.decode(PYCODEC[enc], "strict")
    except UnicodeError as e:
        return None, "decode: not valid %s: %s" % (enc, str(e)[:80])
    if text[:1] == "\ufeff":
        text = text[1:]
    docver = "1.0"
    m = _DECL.match(text)
    if m:
        docver = m.group(2)
        if m.group(4) and m.group(4).lower() != EFFECTIVE.get(enc, enc).lower():
            return None, "declaration: encoding %s declared, %s %s" % (m.group(4), enc, "requested" if enc not in EFFECTIVE else "requested, %s written" % EFFECTIVE[enc])
        if docver != ver:
            return None, "declaration: version %s declared, %s requested" % (docver, ver)
        text = text[m.end():]
    elif text.startswith("<?xml"):
        return None, "declaration: malformed XML declaration"
    back = lambda s: s
    if docver == "1.1":
        text, err = _front11(text)
        if err:
            return None, err
        back = _back11
    nodes = []

    def chars(s):
        if nodes and nodes[-1]["k"] == "T":
            nodes[-1]["v"] += s
        else:
            nodes.append({"k": "T", "n": "", "v": s, "a": []})

    p = expat.ParserCreate("utf-8")
    p.ordered_attributes = True
    p.buffer_text = False
    p.StartElementHandler = lambda name, a: nodes.append({"k": "S", "n": name, "v": "", "a": sorted([[a[i], a[i + 1]] for i in range(0, len(a), 2)])})
    p.EndElementHandler = lambda name: nodes.append({"k": "E", "n": name, "v": "", "a": []})
    p.CharacterDataHandler = chars
    p.CommentHandler = lambda d: nodes.append({"k": "C", "n": "", "v": d, "a": []})
    p.ProcessingInstructionHandler = lambda t, d: nodes.append({"k": "P", "n": t, "v": d, "a": []})
    try:
        p.Parse(text.encode("utf-8"), True)
    except expat.ExpatError as e:
        return None, "not well-formed: %s" % e
    except UnicodeError as e:
        return None, "decode: %s" % str(e)[:80]
    out = []
    for nd in nodes:
        out.append({"k": nd["k"], "n": S(nd["n"]), "v": S(back(nd["v"])), "a": [[S(k), S(back(v))] for k, v in nd["a"]]})
    return out, ""


# ------------------------------------------------------------------------------------- running
def node(k, n=(), v=(), a=()):
    return {"k": k, "n": rle(list(n)), "v": rle(list(v)), "a": [[rle(list(x)), rle(list(y))] for x, y in a]}


def run_harness(cases, wd, flavour="hooks", tag="run", timeout=900):
    """cases: list of dicts with id/enc/ver/decl/which/script[/xsl/xml].  Returns {(id, which): result}, deaths.
    A death (crash, sanitizer report, time-out) is attributed to the first case without a complete result; the
    shard is restarted after it."""
    exe = vlib.build_harness("c04", flavour)
    nsh = max(1, min(vlib.NCPU, len(cases) // 40 + 1))
    # the scripts that can run into the legacy serializer's known hang (2 s of CPU each) are dealt out evenly
    risky = lambda c: "legacy" in c["which"] and c["enc"] == "UTF-8" and any(cp > 0xFFFF or 0xD800 <= cp <= 0xDBFF for n in c["script"] for cp, _ in n["v"] + n["n"])
    order = [c for c in cases if risky(c)] + [c for c in cases if not risky(c)]
    shards = [order[i::nsh] for i in range(nsh)]

    def one(si):
        todo = shards[si]
        results, deaths, k = {}, [], 0
        while todo:
            cp = os.path.join(wd, "%s-cases-%d-%d.ndjson" % (tag, si, k))
            rp = os.path.join(wd, "%s-res-%d-%d.ndjson" % (tag, si, k))
            k += 1
            vlib.write_ndjson(cp, todo)
            with open(rp, "w") as f:
                try:
                    p = subprocess.run([exe, cp], stdout=f, stderr=subprocess.PIPE, timeout=timeout,
                                       env=dict(os.environ, ASAN_OPTIONS="detect_leaks=0", UBSAN_OPTIONS="print_stacktrace=1"))
                    rc, err = p.returncode, p.stderr.decode("utf8", "replace")
                except subprocess.TimeoutExpired as e:
                    rc, err = -9, "TIMEOUT after %ds\n" % timeout + (e.stderr or b"").decode("utf8", "replace")
            done = set()
            with open(rp) as f:
                for line in f:
                    line = line.strip()
                    if not line.endswith("}"):
                        continue
                    try:
                        r = json.loads(line)
                    except ValueError:
                        continue
                    results[(r["id"], r["which"])] = r
                    done.add((r["id"], r["which"]))
            os.remove(rp); os.remove(cp)
            if rc == 0:
                break
            # find the first (case, which) without result
            dead = None
            for i, c in enumerate(todo):
                for w in c["which"]:
                    if (c["id"], w) not in done:
                        dead = (i, w); break
                if dead:
                    break
            if dead is None:
                deaths.append((None, None, rc, err)); break
            i, w = dead
            deaths.append((todo[i], w, rc, err))
            rest = [x for x in todo[i]["which"][todo[i]["which"].index(w) + 1:]]
            todo = ([dict(todo[i], which=rest)] if rest else []) + todo[i + 1:]
        return results, deaths

    results, deaths = {}, []
    with ThreadPoolExecutor(max_workers=nsh) as ex:
        for r, d in ex.map(one, range(nsh)):
            results.update(r); deaths += d
    return results, deaths


# ------------------------------------------------------------------------------------ generator
X = 0x78
CLASSES = {   # class alphabet of the model: name -> code points
    "plain": [0x61], "lt": [0x3C], "amp": [0x26], "gt": [0x3E], "quot": [0x22], "apos": [0x27], "tab": [9], "cr": [13], "lf": [10],
    "crlf": [13, 10], "rsb": [0x5D], "cdend": [0x5D, 0x5D, 0x3E], "nel": [0x85], "lsep": [0x2028], "latin1": [0xE9], "bmp": [0x20AC],
    "supp": [0x1F600], "loneHigh": [0xD800], "loneLow": [0xDC00], "c0": [1], "fffe": [0xFFFE], "del": [0x7F], "c1": [0x9F],
    "cyr": [0x416], "sp": [0x20], "dash": [0x2D], "qm": [0x3F], "bmpCdend": [0x20AC, 0x5D, 0x5D, 0x3E], "suppPair": [0x1F600, 0x1F600],
    "crNel": [13, 0x85], "ext": [0x100],
    # the edges of the UTF-8 / UTF-16 forms: last two-byte and first three-byte character, the last BMP character, first and last supplementary one
    "b7ff": [0x7FF], "b800": [0x800], "bfffd": [0xFFFD], "s10000": [0x10000], "s10ffff": [0x10FFFF], "b80": [0x80],
}
NAME_CLASSES = ["plain", "latin1", "cyr"]
BOUNDARY_CLASSES = ["latin1", "bmp", "supp", "lt", "amp", "cr", "crlf", "cdend", "tab", "nel", "lsep", "cyr", "rsb", "loneLow", "suppPair", "bmpCdend", "quot"]
CONTEXTS = ["T", "A", "D", "C", "P"]
R = [0x72]


def header_len(enc, ver, ctx, legacy=False):
    decl = '<?xml version="%s" encoding="%s"?>' % (ver, enc)
    return len(decl) + {"T": 3, "A": 6, "D": 12, "C": 7, "P": 7, "N": 1, "AN": 3, "PT": 5}[ctx]


def place(ctx, body):
    if ctx == "T":
        return [node("S", R), node("T", v=body), node("E", R)]
    if ctx == "D":
        return [node("S", R), node("D", v=body), node("E", R)]
    if ctx == "A":
        return [node("S", R, a=[([0x61], body)]), node("E", R)]
    if ctx == "C":
        return [node("S", R), node("C", v=body), node("E", R)]
    if ctx == "P":
        return [node("S", R), node("P", n=[0x70], v=body), node("E", R)]
    if ctx == "N":
        return [node("S", body), node("E", body)]
    if ctx == "AN":
        return [node("S", R, a=[(body, [0x76])]), node("E", R)]
    if ctx == "PT":
        return [node("S", R), node("P", n=body, v=[0x64]), node("E", R)]
    raise ValueError(ctx)


def contract_ok(ctx, body):
    """caller's contract (Serializer.tla CallerContract) for the generated body"""
    if ctx == "C":
        return not any(body[i] == 0x2D and body[i + 1] == 0x2D for i in range(len(body) - 1)) and not (body and body[-1] == 0x2D)
    if ctx == "P":
        return not any(body[i] == 0x3F and body[i + 1] == 0x3E for i in range(len(body) - 1)) and not (body and body[0] in (9, 10, 13, 32))
    return True


def gen_cases(tier, rng):
    """the offset x class x context x option product (quick: a slice of it)"""
    quick = tier == "quick"
    cases = []

    def add(enc, ver, ctx, cls, pre, post, pos=None, e2e=False, indent=False):
        body = [X] * pre + CLASSES[cls] + [X] * post
        if not contract_ok(ctx, body):
            return
        if indent:
            # the INDENTING instantiation of the factory serializer (XalanXMLSerializerFactory::create picks one of twelve classes by
            # encoding family x version x indent): one element with text / attribute / CDATA content, where indentation adds nothing
            cases.append({"enc": enc, "ver": ver, "decl": True, "indent": True, "which": ["new"], "script": place(ctx, body),
                          "meta": {"ctx": ctx, "cls": cls, "pos": pos, "post": post, "indent": True}})
            return
        cases.append({"enc": enc, "ver": ver, "decl": True, "which": ["new", "legacy"] + (["e2e"] if e2e else []), "script": place(ctx, body),
                      "meta": {"ctx": ctx, "cls": cls, "pos": pos, "post": post}})

    # (a) every class in every context under every option vector, away from the buffer boundary
    for enc in ENCODINGS:
        for ver in VERSIONS:
            for ctx in CONTEXTS:
                for cls in CLASSES:
                    add(enc, ver, ctx, cls, 2, 2, e2e=True)
                    if ctx in ("T", "A", "D"):
                        add(enc, ver, ctx, cls, 2, 2, indent=True)
                    if ctx == "D" or not quick:
                        add(enc, ver, ctx, cls, 2, 0, e2e=(ctx == "D"))          # the special character last (CDATA look-ahead, section left open)
                    if ctx == "D" and (cls in ("rsb", "cdend", "bmp", "supp", "cr") or not quick):
                        add(enc, ver, ctx, cls, 0, 0)                              # the special character is the WHOLE text (look-ahead / look-behind at both ends)
                        add(enc, ver, ctx, cls, 0, 2)
            for ctx in ("N", "AN", "PT"):
                for cls in NAME_CLASSES:
                    add(enc, ver, ctx, cls, 2, 2, e2e=True)
    # (b) the buffer boundary: every offset 505..516 of the 512-unit buffers
    offsets = list(range(505, 517)) if not quick else list(range(505, 517))
    classes = list(CLASSES) if not quick else BOUNDARY_CLASSES
    for enc in ENCODINGS:
        for ver in (VERSIONS if not quick else ["1.0"]):
            for ctx in CONTEXTS + ["N"]:
                for cls in (classes if ctx != "N" else NAME_CLASSES):
                    if quick and ctx in ("C", "P") and cls not in ("latin1", "bmp", "supp", "cyr"):
                        continue
                    if quick and ctx == "N" and enc not in ("UTF-8", "ISO-8859-1"):
                        continue
                    for pos in offsets:
                        if quick and enc in ("US-ASCII", "windows-1252") and pos % 2:
                            continue
                        add(enc, ver, ctx, cls, pos - header_len(enc, ver, ctx), 10, pos=pos,
                            e2e=(enc in ("UTF-8", "UTF-16", "ISO-8859-1") and (not quick or pos % 4 == 0)))
    if quick:
        for enc in ENCODINGS:                      # XML 1.1 at the boundary: the reference-only classes
            for ctx in ("T", "A"):
                for cls in ("nel", "lsep", "c0", "del", "tab", "cr"):
                    for pos in (509, 510, 511, 512):
                        add(enc, "1.1", ctx, cls, pos - header_len(enc, "1.1", ctx), 10, pos=pos)
    # (a') ordered PAIRS of classes in a cdata-section element: what is written after a character that had to leave the section (a
    # reference) re-opens the section - a supplementary character, a bracket, another reference - and the reverse orders
    firsts = ["cr", "nel", "lsep", "c0", "del", "ext", "bmp", "latin1", "cdend", "rsb"]
    seconds = ["supp", "bmp", "rsb", "cdend", "cr", "plain", "ext"]
    for enc in ENCODINGS:
        for ver in VERSIONS:
            for c1 in firsts:
                for c2 in seconds:
                    if quick and enc in ("UTF-8", "UTF-16", "US-ASCII") and c2 not in ("supp", "rsb"):
                        continue
                    body = CLASSES[c1] + CLASSES[c2]
                    cases.append({"enc": enc, "ver": ver, "decl": True, "which": ["new", "legacy"], "script": place("D", [X] + body + [X]),
                                  "meta": {"ctx": "D", "cls": c1 + "+" + c2, "pos": None, "post": 1}})
                    cases.append({"enc": enc, "ver": ver, "decl": True, "which": ["new"], "script": place("D", body),
                                  "meta": {"ctx": "D", "cls": c1 + "+" + c2, "pos": None, "post": 0}})
    # (b') strings that are handed to the writer in ONE call and are longer than its buffer (names of elements / attributes / PI targets
    # are; text is written unit by unit): every encoding - the writers differ in how they flush before writing through
    for enc in ENCODINGS:
        for ver in (VERSIONS if not quick else ["1.0"]):
            for ctx in ("N", "AN", "PT"):
                for n in (513, 600, 1025) if not quick else (600,):
                    add(enc, ver, ctx, "plain", n, 0, pos=n, e2e=(n == 600))
                add(enc, ver, ctx, "latin1" if enc != "US-ASCII" else "plain", 520, 3, pos=520)
    # (c) seeded mixtures: several specials in one string, several nodes
    names = list(CLASSES)
    for _ in range(300 if quick else 4000):
        enc, ver = rng.choice(ENCODINGS), rng.choice(VERSIONS)
        ctx = rng.choice(CONTEXTS)
        body = []
        for _ in range(rng.randint(2, 5)):
            body += [X] * rng.randint(0, 2) + CLASSES[rng.choice(names)]
        pre = rng.choice([0, 1, rng.randint(480, 515)])
        body = [X] * pre + body + [X] * rng.randint(0, 3)
        if any(body[i] == 0xD800 and body[i + 1] == 0xDC00 for i in range(len(body) - 1)) or not contract_ok(ctx, body):
            continue
        sc = place(ctx, body)
        if rng.random() < 0.5:                        # a second node after it: adjacent character events merge
            extra = rng.choice([node("T", v=[X, 13, X]), node("C", v=[X]), node("D" if ctx == "D" else "T", v=CLASSES[rng.choice(names)] + [X])])
            if ctx in ("T", "D", "C", "P"):
                sc = sc[:-1] + [extra] + sc[-1:]
        cases.append({"enc": enc, "ver": ver, "decl": True, "which": ["new", "legacy"], "script": sc, "meta": {"ctx": ctx, "cls": "mix", "pos": None, "post": None}})
    for i, c in enumerate(cases):
        c["id"] = i + 1
    return cases


# ---- histories exported from MC_WriterBuffer, scaled to the real buffer --------------------------------
FAM_ENC = {"utf8": [("UTF-8", "new")], "utf16": [("UTF-16", "new")], "legacy": [("UTF-16", "legacy"), ("UTF-8", "legacy")]}
MODEL_BUF = 8


def render_history(fam, hist, enc):
    """-> (body code points, predicted chunk lengths) or None if the history has no rendering in this encoding"""
    ch = {"utf8": {1: 0x79, 2: 0xE9, 3: 0x20AC, 4: 0x1F600}}.get(fam, {1: 0x79, 2: 0x1F600})
    body, pred = [], []
    for op in hist:
        if op["k"] == "ch":
            body.append(ch[op["n"]])
        elif op["k"] == "str":
            body.append({4: 0x3C, 5: 0x26}[op["n"]])
        elif op["k"] == "ref":
            body.append({6: 0x100, 7: 0x416}[op["n"]])
        if op["k"] != "end":
            for m in op["fl"]:
                pred.append(BUF - MODEL_BUF + m)
            if op["fl"]:
                body += [X] * (BUF - MODEL_BUF)          # refill to the same distance from the end of the buffer
    return body, pred


def gen_buffer_cases(hists, start_id):
    cases = []
    for fam, hs in hists.items():
        for h in hs:
            kinds = {(o["k"], o["n"]) for o in h}
            if fam == "other":
                if ("ch", 2) in kinds and any(k == "ref" for k, _ in kinds):
                    continue                              # needs an encoding with supplementary characters AND gaps
                targets = [("GB18030", "new")] if ("ch", 2) in kinds else [("ISO-8859-1", "new")]
            else:
                targets = FAM_ENC[fam]
            for enc, which in targets:
                body, pred = render_history(fam, h, enc)
                pre = BUF - MODEL_BUF - header_len(enc, "1.0", "T", legacy=(which == "legacy"))
                cases.append({"enc": enc, "ver": "1.0", "decl": True, "which": [which], "script": place("T", [X] * pre + body),
                              "pred": pred, "meta": {"ctx": "T", "cls": "mc-" + fam, "pos": None, "post": None, "hist": h}})
    for i, c in enumerate(cases):
        c["id"] = start_id + i
    return cases


# ---- end to end: the script as a source document + the identity transformation with xsl:output ----------
def _esc(cps, attr=False):
    out = []
    for c in cps:
        if 0x20 <= c <= 0x7E and c not in (0x26, 0x3C, 0x3E, 0x22, 0x27):
            out.append(chr(c))
        else:
            out.append("&#%d;" % c)
    return "".join(out)


def source_of(script, ver):
    """a source document whose tree is Tree(script), or None if XML cannot carry it"""
    allc = [c for n in script for c in unrle(n["v"]) + unrle(n["n"]) + [x for a in n["a"] for x in unrle(a[0]) + unrle(a[1])]]
    if any(0xD800 <= c <= 0xDFFF or c in (0xFFFE, 0xFFFF) for c in allc):
        return None
    srcver = "1.1" if any(c < 0x20 and c not in (9, 10, 13) for c in allc) else "1.0"
    out = ['<?xml version="%s" encoding="UTF-8"?>' % srcver]
    for n in script:
        name = "".join(map(chr, unrle(n["n"])))
        v = unrle(n["v"])
        if n["k"] == "S":
            out.append("<" + name + "".join(' %s="%s"' % ("".join(map(chr, unrle(a[0]))), _esc(unrle(a[1]), True)) for a in n["a"]) + ">")
        elif n["k"] == "E":
            out.append("</" + name + ">")
        elif n["k"] in ("T", "D"):
            out.append(_esc(v))
        else:
            # literal only: anything the source parser would normalise or refuse cannot be carried
            if any(c in (13,) or (c < 0x20 and c not in (9, 10)) or (srcver == "1.1" and (c in (0x85, 0x2028) or 0x7F <= c <= 0x9F)) for c in v):
                return None
            out.append(("<!--%s-->" % "".join(map(chr, v))) if n["k"] == "C" else ("<?%s %s?>" % (name, "".join(map(chr, v)))))
    return "".join(out)


def stylesheet_of(script, enc, ver):
    cd = ' cdata-section-elements="r"' if any(n["k"] == "D" for n in script) else ""
    return ('<xsl:stylesheet version="1.0" xmlns:xsl="http://www.w3.org/1999/XSL/Transform">'
            '<xsl:output method="xml" encoding="%s" version="%s" omit-xml-declaration="no" indent="no"%s/>'
            '<xsl:template match="@*|node()"><xsl:copy><xsl:apply-templates select="@*|node()"/></xsl:copy></xsl:template>'
            '</xsl:stylesheet>' % (enc, ver, cd))


REPAIR = [   # (stylesheet body, the tree the XSLT Recommendation asks for)
    ('<r><xsl:comment>a--b-</xsl:comment></r>', [node("S", R), node("C", v=[0x61, 0x2D, 0x20, 0x2D, 0x62, 0x2D, 0x20]), node("E", R)]),
    ('<r><xsl:comment>---</xsl:comment></r>', [node("S", R), node("C", v=[0x2D, 0x20, 0x2D, 0x20, 0x2D, 0x20]), node("E", R)]),
    ('<r><xsl:processing-instruction name="p">a?>b</xsl:processing-instruction></r>', [node("S", R), node("P", n=[0x70], v=[0x61, 0x3F, 0x20, 0x3E, 0x62]), node("E", R)]),
    ('<r><xsl:processing-instruction name="p">??></xsl:processing-instruction></r>', [node("S", R), node("P", n=[0x70], v=[0x3F, 0x3F, 0x20, 0x3E]), node("E", R)]),
]


def gen_e2e_extra(start_id):
    cases = []
    for enc in ("UTF-8", "UTF-16", "ISO-8859-1"):
        for omit in ("no", "yes"):
            if omit == "yes" and enc != "UTF-8":
                continue
            for body, script in REPAIR:
                xsl = ('<xsl:stylesheet version="1.0" xmlns:xsl="http://www.w3.org/1999/XSL/Transform">'
                       '<xsl:output method="xml" encoding="%s" omit-xml-declaration="%s"/><xsl:template match="/">%s</xsl:template></xsl:stylesheet>' % (enc, omit, body))
                cases.append({"enc": enc, "ver": "1.0", "decl": omit == "no", "which": ["e2e"], "script": script, "xsl": xsl, "xml": "<d/>",
                              "meta": {"ctx": "C", "cls": "repair", "pos": None, "post": None}})
    for i, c in enumerate(cases):
        c["id"] = start_id + i
    return cases


def drop_legacy(cases):
    out = []
    for c in cases:
        if c["enc"] in NO_LEGACY:
            w = [x for x in c["which"] if x != "legacy"]
            if not w:
                continue
            c = dict(c, which=w)
        out.append(c)
    return out


def attach_e2e(cases):
    for c in cases:
        if "e2e" in c["which"] and "xsl" not in c:
            src = source_of(c["script"], c["ver"])
            if src is None:
                c["which"] = [w for w in c["which"] if w != "e2e"]
            else:
                c["xml"], c["xsl"] = src, stylesheet_of(c["script"], c["enc"], c["ver"])


# ------------------------------------------------------------------------------------- events
def make_events(cases, results):
    """one Serialize event per (case, which) that produced a result, one Agree event per case with both serializers"""
    events = []
    for c in cases:
        per = {}
        for w in c["which"]:
            r = results.get((c["id"], w))
            if r is None:
                continue
            tree, perr = (None, "")
            if r["status"] == "ok":
                tree, perr = canon(bytes.fromhex(r["hex"]), c["enc"], c["ver"])
            ev = {"e": "Serialize", "id": c["id"], "which": w, "enc": c["enc"], "ver": c["ver"], "direct": w != "e2e", "script": c["script"],
                  "status": r["status"], "msg": r["msg"][:200], "perr": perr, "tree": tree or [], "splits": r["splits"], "chunks": r["chunks"],
                  "pred": c.get("pred", []) if w != "e2e" else [], "hex": r["hex"] if len(r["hex"]) < 400 else r["hex"][:120] + ".." + r["hex"][-240:]}
            per[w] = ev
            events.append(ev)
        if "new" in per and "legacy" in per:
            events.append({"e": "Agree", "id": c["id"], "enc": c["enc"], "ver": c["ver"], "script": c["script"],
                           "a": {k: per["new"][k] for k in ("status", "perr", "tree")}, "b": {k: per["legacy"][k] for k in ("status", "perr", "tree")}})
    return events


# ------------------------------------------------------------------------------------- triage
# TLC decides what is rejected.  The triage below only labels a rejection KNOWN (one of the confirmed classes of
# known_findings.d/C04.jsonl, recognised by its trigger AND its exact symptom) or VIOLATION (everything else).
def strings_of(script):
    """[(context, code points)] with contexts T D A C P N"""
    out = []
    for n in script:
        if n["k"] in ("S", "E", "P"):
            out.append(("N", unrle(n["n"])))
        if n["k"] == "S":
            for a in n["a"]:
                out.append(("N", unrle(a[0]))); out.append(("A", unrle(a[1])))
        if n["k"] in ("T", "D", "C", "P"):
            out.append((n["k"], unrle(n["v"])))
    return out


def encodable(c, enc):
    if 0xD800 <= c <= 0xDFFF:
        return False
    if enc in ("UTF-8", "UTF-16", "GB18030", "UTF-16BE", "X-UNKNOWN-ENC"):
        return True
    try:
        chr(c).encode(PYCODEC[enc]); return True
    except UnicodeError:
        return False


def legacy_max(enc):
    return 0xFFFF if enc in ("UTF-8", "UTF-16") else 0xFF if enc == "ISO-8859-1" else 0x7F


def written_raw(c, enc, which, ctx="T"):
    """is this character copied to the output as itself (as opposed to a character reference)?  In comments and PIs
    FormatterToXML copies what the encoding has (canTranscodeTo) and refuses the rest; elsewhere everything above
    m_maxCharacter becomes a reference."""
    if which == "legacy":
        return c <= legacy_max(enc) or (ctx in "CP" and encodable(c, enc))
    return enc in ("UTF-8", "UTF-16") or encodable(c, enc)


def restricted11(c):
    return c in _RESTRICTED11


def lineend_norm(v, ver, enc, which, to=10, ctx="T"):
    out, i, changed = [], 0, False
    raw = lambda c: written_raw(c, enc, which, ctx)
    while i < len(v):
        c = v[i]
        if c == 13 and raw(c):
            if i + 1 < len(v) and (v[i + 1] == 10 or (ver == "1.1" and v[i + 1] == 0x85 and raw(0x85))):
                i += 1
            out.append(to); changed = True
        elif ver == "1.1" and c in (0x85, 0x2028) and raw(c):
            out.append(to); changed = True
        else:
            out.append(c)
        i += 1
    return out, changed


def py_tree(script):
    out = []
    for n in script:
        k = "T" if n["k"] == "D" else n["k"]
        v = unrle(n["v"])
        if k == "T" and not v:
            continue
        if k == "T" and out and out[-1]["k"] == "T":
            out[-1]["v"] += v
        else:
            out.append({"k": k, "n": unrle(n["n"]), "v": list(v), "a": sorted([[unrle(a[0]), unrle(a[1])] for a in n["a"]])})
    return out


def tree_of_event(tree):
    return [{"k": n["k"], "n": unrle(n["n"]), "v": unrle(n["v"]), "a": sorted([[unrle(a[0]), unrle(a[1])] for a in n["a"]])} for n in tree]


def refs(c, which):
    if which == "legacy" and c > 0xFFFF:
        c -= 0x10000
        return [ord(x) for x in "&#%d;&#%d;" % (0xD800 + (c >> 10), 0xDC00 + (c & 0x3FF))]
    return [ord(x) for x in "&#%d;" % c]


SHARED = ("rawLineEndInCdataSection", "rawLineEndInCommentOrPI", "charRefInCommentOrPI", "loneSurrogateWritten", "nonCharacterWritten")


def class_key(key, legacy):
    """FormatterToXML shares these classes with the factory serializer; it is listed (and repaired) separately"""
    return "legacy" + key[0].upper() + key[1:] if legacy and key in SHARED else key


def predicted_deviation(ev, known):
    """the tree the known tree-changing deviations predict for this script, and the keys that changed something.
    Only classes that are still open (status "known") are applied: a repaired class predicts nothing, so its
    recurrence matches no prediction and is reported as a violation."""
    enc, ver, which = EFFECTIVE.get(ev["enc"], ev["enc"]), ev["ver"], "legacy" if ev["which"] == "legacy" else "new"
    on = lambda key: class_key(key, which == "legacy") in known
    keys, script = [], []
    for n in ev["script"]:
        n = dict(n)
        v = unrle(n["v"])
        if n["k"] == "D":
            if on("rawLineEndInCdataSection"):
                if which == "legacy":                     # writeNormalizedChars turns CR LF into one newline first
                    w, i = [], 0
                    while i < len(v):
                        if v[i] == 13 and i + 1 < len(v) and v[i + 1] == 10:
                            w.append(10); i += 2; keys.append("rawLineEndInCdataSection")
                        else:
                            w.append(v[i]); i += 1
                    v = w
                v2, ch = lineend_norm(v, ver, enc, which)
                if ch:
                    keys.append("rawLineEndInCdataSection")
                n["v"] = rle(v2)
        elif n["k"] in ("C", "P"):
            v2 = v
            if on("rawLineEndInCommentOrPI"):
                v2, ch = lineend_norm(v, ver, enc, which, ctx=n["k"])
                if ch:
                    keys.append("rawLineEndInCommentOrPI")
                    if n["k"] == "P":                     # a line end the parser made at the start of PI data is dropped as white space
                        while v2 and v2[0] in (9, 10, 32):
                            v2 = v2[1:]
            if enc not in ("UTF-8", "UTF-16") and on("charRefInCommentOrPI"):
                v3 = []
                for c in v2:
                    if not written_raw(c, enc, which) and not (which == "new" and 0xD800 <= c <= 0xDBFF):
                        v3 += refs(c, which)
                        if "charRefInCommentOrPI" not in keys:
                            keys.append("charRefInCommentOrPI")
                    else:
                        v3.append(c)
                v2 = v3
            n["v"] = rle(v2)
        elif which == "legacy" and ver == "1.1" and n["k"] == "T" and enc in ("UTF-8", "UTF-16") and 0x2028 in v and on("legacyXml11RestrictedRawInTextOrAttr"):
            n["v"] = rle([10 if c == 0x2028 else c for c in v]); keys.append("legacyXml11RestrictedRawInTextOrAttr")
        if which == "legacy" and ver == "1.1" and n["k"] == "S" and enc in ("UTF-8", "UTF-16") and on("legacyXml11RestrictedRawInTextOrAttr"):
            a2 = []
            for a in n["a"]:
                av = unrle(a[1])
                if 0x2028 in av:
                    av = [32 if c == 0x2028 else c for c in av]; keys.append("legacyXml11RestrictedRawInTextOrAttr")
                a2.append([a[0], rle(av)])
            n["a"] = a2
        script.append(n)
    return py_tree(script), keys


def _hexes(msg):
    return set(re.findall(r"'([0-9A-Fa-f]+)'", msg))


def triage(ev, known):
    """-> known-finding key or None"""
    if ev["e"] != "Serialize":
        return None
    enc, ver, which = EFFECTIVE.get(ev["enc"], ev["enc"]), ev["ver"], ev["which"]       # an unknown name: what is written is UTF-8
    legacy = which == "legacy"
    strs = strings_of(ev["script"])
    other = enc not in ("UTF-8", "UTF-16")

    def has(ctxs, pred):
        return any(ctx in ctxs and any(pred(c) for c in v) for ctx, v in strs)

    def hit(key):
        key = class_key(key, legacy)
        return key if key in known else None

    if ev["status"] == "error":
        hx = {int(h, 16) for h in _hexes(ev["msg"])}
        if enc == "GB18030" and has("TADCPN", lambda c: c >= 0x100000) and not has("TADCPN", lambda c: 0xD800 <= c <= 0xDFFF or c in (0xFFFE, 0xFFFF)):
            return hit("plane16RefusedUnderGB18030")
        if not legacy:
            if ver == "1.1" and 9 in hx and has("DCP", lambda c: c == 9):
                return hit("xml11TabRejected")
            if ver == "1.1" and has("D", lambda c: c in hx and (c == 13 or restricted11(c))):
                return hit("xml11RestrictedInCdataElementRejected")
        else:
            if ver == "1.0" and (has("A", lambda c: c in hx and c in (9, 10, 13)) or has("T", lambda c: c in hx and c == 13)):
                return hit("legacyXml10WhitespaceRejected")
            if ver == "1.0" and ((enc in ("UTF-8", "UTF-16", "ISO-8859-1") and 0x85 in hx and has("TA", lambda c: c == 0x85))
                                 or (other and 0x2028 in hx and has("TA", lambda c: c == 0x2028))):
                return hit("legacyXml10NelLsepRejected")
        return None
    lone = has("TADCPN", lambda c: 0xDC00 <= c <= 0xDFFF or ((legacy or enc == "UTF-16") and 0xD800 <= c <= 0xDBFF))
    if ev["perr"]:
        perr = ev["perr"]
        if lone and (legacy or perr.startswith("decode") or "invalid character number" in perr or "invalid token" in perr):
            return hit("loneSurrogateWritten")
        if has("TADCPN", lambda c: c in (0xFFFE, 0xFFFF)) and ("invalid token" in perr or "invalid character number" in perr):
            return hit("nonCharacterWritten")
        if not legacy:
            for ctx, v in strs:
                if ctx == "D" and other:
                    w = [c for c in v if c != 10]
                    if w and not encodable(w[-1], enc) and not (0xD800 <= w[-1] <= 0xDBFF) and "unclosed CDATA" in perr:
                        return hit("cdataSectionLeftOpen")
                    nolf = [c for c in v if c != 10]       # line feeds between the two do not reset the writer's "outside" flag
                    if any(not encodable(nolf[i], enc) and nolf[i + 1:i + 4] == [0x5D, 0x5D, 0x3E] for i in range(len(nolf))) and "invalid token" in perr:
                        return hit("cdataEndAfterUnencodable")
        else:
            if any(ctx in "DCP" and any((c < 0x20 and c not in (9, 10, 13)) or (ver == "1.1" and restricted11(c) and written_raw(c, enc, "legacy", ctx)) for c in v)
                   for ctx, v in strs) and ("invalid token" in perr or "restricted character" in perr):
                return hit("legacyControlRawInCdataCommentPI")
            if ver == "1.1" and has("TA", lambda c: c == 0x9F and legacy_max(enc) >= 0x9F) and "restricted character U+009F" in perr:
                return hit("legacyXml11RestrictedRawInTextOrAttr")
            if other and has("D", lambda c: c > legacy_max(enc)):
                return hit("legacyCdataUnencodableMishandled")
            if has("N", lambda c: c > legacy_max(enc)):
                return hit("legacyNameCharReplaced")
        return None
    if ev.get("tvmsg", "").startswith("the output parses back"):
        want, keys = predicted_deviation(ev, known)
        if keys and want == tree_of_event(ev["tree"]):
            return hit(keys[0])
        if not legacy and other:
            # a section left open swallows the markup up to the next "]]>": well-formed again if another section follows
            ds = [[c for c in unrle(n["v"]) if c != 10] for n in ev["script"] if n["k"] == "D"]
            if any(w and not encodable(w[-1], enc) and not (0xD800 <= w[-1] <= 0xDBFF) for w in ds[:-1]):
                return hit("cdataSectionLeftOpen")
        if legacy:
            if lone:
                return hit("loneSurrogateWritten")
            if other and has("D", lambda c: c > legacy_max(enc)):
                return hit("legacyCdataUnencodableMishandled")
    return None


DEATH_KEYS = [
    # (key, predicate(case, which, stderr))
    ("cdataLookaheadPastEnd", lambda c, w, err: "heap-buffer-overflow" in err and "writeCDATAChars" in err and "READ of size 2" in err
        and any(n["k"] == "D" and unrle(n["v"])[-1:] == [0x5D] for n in c["script"])),
    ("legacySurrogatePairSplitHangs", lambda c, w, err: "HANG" in err and w == "legacy" and c["enc"] == "UTF-8"
        and any(ch > 0xFFFF or 0xD800 <= ch <= 0xDBFF for _, v in strings_of(c["script"]) for ch in v)),
]


# -------------------------------------------------------------------------------------- model checking
def wb_cfg(fam, maxhist, strlens, view, invariants=True):
    s = ["SPECIFICATION Spec", "CONSTANTS", "  BufSize = %d" % MODEL_BUF, "  SBufSize = %d" % MODEL_BUF, '  Fam = "%s"' % fam,
         "  MaxHist = %d" % maxhist, "  StrLens = {%s}" % ", ".join(map(str, strlens)), "  RefLens = {6, 7}", "VIEW " + view]
    if invariants:
        s += ["INVARIANT Conserved", "INVARIANT Bounded", "INVARIANT EndEmpties", "INVARIANT NoSplit", "INVARIANT DeviationsAreReal"]
    return "\n".join(s) + "\n"


def ser_cfg(spec, maxlen, encs, alphabet, invs):
    return "\n".join(["SPECIFICATION " + spec, "CONSTANTS", "  MaxLen = %d" % maxlen, "  MCEncodings = {%s}" % ", ".join('"%s"' % e for e in encs),
                      "  Alphabet <- " + alphabet] + ["INVARIANT " + i for i in invs]) + "\n"


def model_check(res, tier, wd):
    quick = tier == "quick"
    jobs = []
    for fam in ("utf8", "utf16", "other", "legacy"):
        cfg = os.path.join(wd, "wb_%s.cfg" % fam)
        open(cfg, "w").write(wb_cfg(fam, 8 if quick else 12, (4, 5, 9), "View"))
        jobs.append(("MC_WriterBuffer/%s (buffer %d, <= %d operations)" % (fam, MODEL_BUF, 8 if quick else 12), MC_WB, cfg))
    runs = [("StrSpec", 2 if quick else 3, ENCODINGS_MC, "FullAlphabet", ["SpecSound", "ImplConforms", "LegacyConformsInv"]),
            ("StrSpec", 4 if quick else 5, ["UTF-8", "ISO-8859-1"], "SeqAlphabet", ["SpecSound", "ImplConforms", "LegacyConformsInv"]),
            ("TokSpec", 2 if quick else 3, ["UTF-8", "ISO-8859-1"], "FullAlphabet" if quick else "SeqAlphabet", ["SpecComplete"])]
    for i, (spec, ml, encs, alpha, invs) in enumerate(runs):
        cfg = os.path.join(wd, "ser_%d.cfg" % i)
        open(cfg, "w").write(ser_cfg(spec, ml, encs, alpha, invs))
        jobs.append(("MC_Serializer/%s (length <= %d, %s, %d encodings)" % (spec, ml, alpha, len(encs)), MC_SER, cfg))

    def one(j):
        label, mod, cfg = j
        return label, vlib.tlc_mc(mod, cfg, workers=4, timeout=3000, name="c04mc" + os.path.basename(cfg), extra=["-noGenerateSpecTE"])
    return jobs, one


def export_histories(tier, wd):
    hists = {}
    for fam in ("utf8", "utf16", "other", "legacy"):
        cfg = os.path.join(wd, "gen_%s.cfg" % fam)
        open(cfg, "w").write(wb_cfg(fam, 6 if tier == "quick" else 8, (4, 5), "GenView", invariants=False))
        dump = os.path.join(wd, "gen_%s" % fam)
        r = vlib.tlc(MC_WB, cfg, workers=1, name="c04gen" + fam, timeout=1500, extra=["-noGenerateSpecTE", "-dump", dump])
        if not r["ok"]:
            raise vlib.Infra("GEN (MC_WriterBuffer/%s) failed: %s" % (fam, r["out"][-2000:]))
        hists[fam] = [s["hist"] for s in tlaparse.read_dump(dump + ".dump", only={"hist"}) if s["hist"]]
    return hists


# -------------------------------------------------------------------------------------------- run
def asan_sample(cases, tier):
    out = []
    for c in cases:
        m = c["meta"]
        if m["cls"].startswith("mc-"):
            if c["enc"] in ("UTF-8", "GB18030") and c["which"] == ["new"]:
                out.append(c)
        elif m["pos"] is None and m["cls"] not in ("mix", "repair") and c["enc"] in ("UTF-8", "ISO-8859-1") and (tier != "quick" or c["ver"] == "1.0"):
            out.append(c)
        elif m["pos"] in (510, 511, 512) and c["enc"] in ("UTF-8", "UTF-16", "GB18030") and m["cls"] in ("supp", "bmp", "latin1", "rsb", "cdend"):
            out.append(c)
    return [dict(c, which=[w for w in c["which"] if w != "e2e"]) for c in out]


def nontrivial(c):
    return any(ch != X and not (0x61 <= ch <= 0x7A) for ctx, v in strings_of(c["script"]) if ctx != "N" for ch in v) or \
           any(ch > 0x7F for ctx, v in strings_of(c["script"]) if ctx == "N" for ch in v)


def run(res, tier, seed):
    rng = random.Random(seed)
    t0 = time.time()
    phase = {}
    wd = vlib.workdir("c04-%d" % os.getpid())
    known = {k["key"]: k for k in vlib.known_findings(PROP)}
    pool = ThreadPoolExecutor(max_workers=3)
    jobs, one = model_check(res, tier, wd)
    mc_futs = [pool.submit(one, j) for j in jobs]
    # ---- GEN
    hists = export_histories(tier, wd)
    phase["gen_tlc"] = round(time.time() - t0, 1)
    cases = drop_legacy(gen_cases(tier, rng))
    bcases = gen_buffer_cases(hists, len(cases) + 1)
    cases += bcases
    cases += gen_e2e_extra(len(cases) + 1)
    attach_e2e(cases)
    byid = {c["id"]: c for c in cases}
    res.notes["cases"] = {"scripts": len(cases), "from_MC_WriterBuffer_transitions": len(bcases),
                          "histories_exported": {f: len(h) for f, h in hists.items()},
                          "end_to_end": sum("e2e" in c["which"] for c in cases)}
    # ---- RUN
    slim = [{k: v for k, v in c.items() if k not in ("meta", "pred")} for c in cases]
    fut_asan = pool.submit(run_harness, [{k: v for k, v in c.items() if k not in ("meta", "pred", "xsl", "xml")} for c in asan_sample(cases, tier)],
                           wd, "asan", "asan", 3000)
    results, deaths = run_harness(slim, wd, "hooks", "hooks", 3000)
    phase["run_hooks"] = round(time.time() - t0, 1)
    aresults, adeaths = fut_asan.result()
    phase["run_asan"] = round(time.time() - t0, 1)
    events = make_events(cases, results)
    # the sanitizer build must behave like the plain one: an observation identical to one already in the trace is not judged twice
    aevents = []
    for (cid, w), r in sorted(aresults.items()):
        h = results.get((cid, w))
        if h is None or (h["status"], h["hex"], h["chunks"]) != (r["status"], r["hex"], r["chunks"]):
            aevents += [dict(e, flavour="asan", pred=[]) for e in make_events([dict(byid[cid], which=[w])], {(cid, w): r}) if e["e"] == "Serialize"]
    res.notes["asan_runs"] = len(aresults)
    res.notes["asan_runs_differing_from_plain_build"] = len(aevents)
    events += aevents
    nser = sum(e["e"] == "Serialize" for e in events)
    res.cov["evaluations"] = nser
    # ---- deaths: crash / sanitizer report / hang while serializing a legal script
    for flav, dl in (("hooks", deaths), ("asan", adeaths)):
        for c, w, rc, err in dl:
            if c is None:
                res.violation("harness (%s) exited with %s after the last case: %s" % (flav, rc, err[-300:]), [{"e": "Case", "flavour": flav}])
                continue
            full = byid[c["id"]]
            key = next((k for k, pred in DEATH_KEYS if k in known and pred(full, w, err)), None)
            if key:
                res.known(known[key])
            else:
                brief = re.search(r"(ERROR: AddressSanitizer[^\n]*|runtime error[^\n]*|HANG[^\n]*|TIMEOUT[^\n]*)", err)
                res.violation("%s serializer died (rc=%s, %s build) on %s/%s %s: %s" % (w, rc, flav, c["enc"], c["ver"], full["meta"],
                              brief.group(1) if brief else err[-200:]), [{"e": "Case", "flavour": flav, "which": w, "case": {k: v for k, v in full.items() if k != "meta"}}])
    # ---- TV
    tv_fields = ("e", "id", "which", "enc", "ver", "direct", "script", "status", "perr", "tree", "splits", "chunks", "pred", "a", "b")
    rejects, st = vlib.tlc_validate_sharded(TRACE, [{k: e[k] for k in tv_fields if k in e} for e in events], shards=(8 if tier == "quick" else None), tag="c04tv", stateless=True, timeout=3000)
    phase["tv"] = round(time.time() - t0, 1)
    res.notes["tv_states"] = st["tv_states"]
    res.notes["dropped_outside_model"] = st["dropped"]
    bad_ids, agree_rej, drift = {}, [], set()
    res.notes["buffer_model_flush_pattern_mismatches"] = 0
    nviol = 0
    for rj in rejects:
        ev = events[rj["line"]]
        if ev["e"] == "Agree":
            agree_rej.append((rj, ev)); continue
        ev["tvmsg"] = rj["msg"]
        if rj["msg"].startswith("MODEL-MISMATCH"):
            # the output met the obligation; only the flush pattern differs from what WriterBufferImpl predicts
            res.notes["buffer_model_flush_pattern_mismatches"] = res.notes.get("buffer_model_flush_pattern_mismatches", 0) + 1
            vlib.log("C04: %s %s: %s" % (ev["which"], ev["enc"], rj["msg"][:200]))
            drift.add(rj["line"])
            continue
        key = triage(ev, known)
        bad_ids.setdefault(ev["id"], []).append(key)
        if key:
            res.known(known[key])
        else:
            nviol += 1
            res.violation("%s %s/%s %s: %s" % (ev["which"], ev["enc"], ev["ver"], byid[ev["id"]]["meta"].get("cls"), rj["msg"][:300]), [ev])
    for rj, ev in agree_rej:
        keys = bad_ids.get(ev["id"])
        if keys is None:
            res.violation("%s/%s: %s (neither serializer was rejected on its own)" % (ev["enc"], ev["ver"], rj["msg"][:300]), [ev])
        # otherwise the disagreement is the consequence of the rejection(s) already reported for this script
    res.notes["disagreements_new_vs_legacy"] = len(agree_rej)
    res.cov["traces_validated_against_impl"] = nser - sum(1 for rj in rejects if events[rj["line"]]["e"] == "Serialize" and rj["line"] not in drift) - st["dropped"]
    res.cov["distinct_nontrivial"] = len({vlib.canon_hash([c["script"], c["enc"], c["ver"], w]) for c in cases if nontrivial(c)
                                          for w in c["which"] if (c["id"], w) in results})
    res.cov["rule"] = ("event scripts = (every class of the alphabet x context {text, attribute, cdata-section element, comment, PI data} + names) x "
                       "6 encodings x XML 1.0/1.1, the same product with the special character at every offset 505..516 of the 512-unit "
                       "staging buffers (quick: boundary-relevant classes), seeded mixtures, and one script per transition of MC_WriterBuffer "
                       "scaled to the real buffer; each run through the factory serializer, FormatterToXML and (where XML can carry the tree) "
                       "XalanTransformer; evaluation = one serializer run parsed back by expat and judged by Trace_C04; non-trivial = the script "
                       "contains a character other than filler/ASCII letters; distinct by hash of (script, encoding, version, serializer)")
    pos_cov = sorted({(c["meta"]["cls"], c["meta"]["pos"]) for c in cases if c["meta"]["pos"]})
    res.notes["boundary_offsets"] = {"classes": len({p[0] for p in pos_cov}), "offsets": sorted({p[1] for p in pos_cov}), "class_x_offset": len(pos_cov)}
    flushed = [e for e in events if e["e"] == "Serialize" and len(e["chunks"]) > 1]
    res.notes["runs_with_a_mid_document_flush"] = len(flushed)
    for ev in [e for e in events if e["e"] == "Serialize" and e["status"] == "ok"][:: max(1, nser // 4)][:4]:
        res.sample({"which": ev["which"], "enc": ev["enc"], "ver": ev["ver"], "cls": byid[ev["id"]]["meta"]["cls"], "pos": byid[ev["id"]]["meta"]["pos"],
                    "chunks": ev["chunks"], "nodes": len(ev["tree"])})
    for f in mc_futs:
        label, r = f.result()
        res.add_mc(r, label)
    pool.shutdown()
    phase["mc_done"] = round(time.time() - t0, 1)
    res.notes["phase_end_s"] = phase
    res.notes["per_serializer"] = {w: {"runs": sum(1 for e in events if e["e"] == "Serialize" and e["which"] == w),
                                       "errors": sum(1 for e in events if e["e"] == "Serialize" and e["which"] == w and e["status"] == "error")}
                                   for w in ("new", "legacy", "e2e")}
    res.assumptions += [
        "expat 2.5 (pyexpat) is the independent parser; it implements XML 1.0 only - for version=1.1 output the canonicaliser applies XML 1.1's line-end "
        "normalisation, rejects literal restricted characters and maps references to C0 controls through private-use placeholders before expat sees the text",
        "bytes are decoded with Python's codecs for the requested encoding (windows-1252: scripts containing U+0080..U+009F are outside the model, ICU maps five "
        "of them, Python none); the XML declaration's encoding/version must match the requested ones when present",
        "namespace processing is off in the parser: scripts use unprefixed names only, namespace-well-formedness reduces to well-formedness",
        "names are drawn from a small valid-name alphabet; validity of names, '--' in comments and '?>' in PIs are the caller's contract for the direct "
        "serializer interface (the XSLT engine's repair is checked end to end)",
        "indentation (indent=yes), doctype-system/public and standalone are not exercised",
        "labelling a TLC rejection as KNOWN-FINDING (trigger + exact predicted symptom) is done in Python; the rejection itself is TLC's"]


# ------------------------------------------------------------------------------------------ replay
def replay(path):
    recs = vlib.read_ndjson(path)
    wd = vlib.workdir("c04replay")
    rc = 0
    evs = [r for r in recs if r.get("e") in ("Serialize", "Agree")]
    for r in recs:
        if r.get("e") == "Case" and "case" in r:
            c = dict(r["case"], which=[r["which"]])
            results, deaths = run_harness([c], wd, r["flavour"], "replay", 600)
            for _, w, code, err in deaths:
                print("REJECTED: %s serializer died (rc=%s): %s" % (w, code, err[-600:])); rc = 1
            evs += make_events([c], results)
    if evs:
        for e in evs:
            e.pop("tvmsg", None)
        rejects, _ = vlib.tlc_validate_sharded(TRACE, evs, shards=1, tag="c04replay", stateless=True)
        for rj in rejects:
            print("REJECTED event %d (%s): %s" % (rj["line"], evs[rj["line"]].get("which", "agree"), rj["msg"][:600])); rc = 1
    return rc
