"""C12 - node-sets are duplicate-free sets in one consistent document order.
MC : NodeListImpl (transcribed MutableNodeRefList) refines NodeList for all bounded histories.
GEN: one shortest history per transition of the implementation-shaped graph (tlc -dump).
RUN: harness/c12.cpp replays them on the real MutableNodeRefList (native tree, Xerces wrapper built / lazy).
TV : Trace_C12.tla accepts an execution iff every step is a step of the abstract contract."""
import os, subprocess
import vlib, tlaparse
from vlib import ROOT

PROP = "C12"
MC = os.path.join(ROOT, "spec/mc/MC_NodeList.tla")
TRACE = os.path.join(ROOT, "spec/trace/Trace_C12.tla")

DOCS = {3: ["<a><b/><c/>t</a>", "<x y='1'>t<!--c--></x>"],
        4: ["<a><b/><c/>t</a>", "<x y='1'>t<!--c--></x>"]}


def cfg_text(indexed, maxidx, maxlen, maxhist, maxsrc, gen):
    s = ["SPECIFICATION " + ("GenSpec" if gen else "Spec"), "CONSTANTS", "  MaxIdx = %d" % maxidx, "  MaxLen = %d" % maxlen,
         "  MaxHist = %d" % maxhist, "  MaxSrc = %d" % maxsrc, "  Indexed <- " + indexed, "VIEW View", "CONSTRAINT Bound"]
    if not gen:
        s += ["INVARIANT HonestInv", "INVARIANT DeviationsAreReal", "PROPERTY Refinement"]
    return "\n".join(s) + "\n"


def classify(pre, ev):
    """semantic key of a rejected step (mirrors KD_* of NodeListImpl.tla)"""
    def dev(lst, n):
        n = tuple(n); l = [tuple(x) for x in lst]
        if n in l or not l:
            return None
        same = [x for x in l if x[0] == n[0]]
        if n[1] == 1 and same:
            return "rootAfter"
        if same and l[-1][0] != n[0] and all(x[1] < n[1] for x in same):
            return "interleave"
        return None
    if ev["op"] == "addInOrder":
        return dev(pre, ev["n"])
    if ev["op"] == "addAll":
        src = ev["src"] if ev["sflag"] != "rev" else list(reversed(ev["src"]))
        cur = [tuple(x) for x in pre]
        for n in src:
            k = dev(cur, n)
            if k:
                return k
            n = tuple(n)
            if n not in cur:                      # abstract continuation: sorted within its document's group, new group last
                idxs = [i for i, x in enumerate(cur) if x[0] == n[0]]
                if not idxs:
                    cur.append(n)
                else:
                    at = idxs[-1] + 1
                    for i in idxs:
                        if cur[i][1] > n[1]:
                            at = i; break
                    cur.insert(at, n)
        return None
    return None


def run(res, tier, seed):
    quick = tier == "quick"
    wd = vlib.workdir("c12-%d" % os.getpid())
    maxidx, maxlen, maxhist, maxsrc = (3, 4, 6, 2) if quick else (4, 5, 7, 2)
    # ---- MC
    for indexed in ("IndexedAll", "IndexedNone", "IndexedMixed"):
        cfg = os.path.join(wd, "mc_%s.cfg" % indexed)
        open(cfg, "w").write(cfg_text(indexed, maxidx, maxlen, maxhist, maxsrc, False))
        r = vlib.tlc_mc(MC, cfg, name="c12mc" + indexed, timeout=3000)
        res.add_mc(r, "MC_NodeList/" + indexed)
    # ---- GEN: per-transition histories, deviating insertions included
    gidx, glen, ghist, gsrc = (3, 3, 4, 2) if quick else (4, 4, 5, 2)
    hists = {}
    for indexed in ("IndexedAll", "IndexedNone"):
        cfg = os.path.join(wd, "gen_%s.cfg" % indexed)
        open(cfg, "w").write(cfg_text(indexed, gidx, glen, ghist, gsrc, True))
        dump = os.path.join(wd, "gen_%s" % indexed)
        r = vlib.tlc(MC, cfg, workers=1, name="c12gen" + indexed, timeout=3000, extra=["-dump", dump])
        if not r["ok"]:
            raise vlib.Infra("GEN failed: " + r["out"][-3000:])
        hs = [s["hist"] for s in tlaparse.read_dump(dump + ".dump", only={"hist"}) if s["hist"]]
        hists[indexed] = hs
    # ---- RUN
    exe = vlib.build_harness("c12")
    cases = []
    for indexed, kinds in (("IndexedAll", ("native", "xerces-built")), ("IndexedNone", ("xerces-lazy",))):
        for kind in kinds:
            for h in hists[indexed]:
                cases.append({"kind": kind, "docs": DOCS[gidx], "ops": h})
    cpath = os.path.join(wd, "cases.ndjson")
    vlib.write_ndjson(cpath, cases)
    tpath = os.path.join(wd, "trace.ndjson")
    with open(tpath, "w") as f:
        r = subprocess.run([exe, cpath], stdout=f, stderr=subprocess.PIPE, text=True, timeout=3000)
    if r.returncode != 0:
        # the harness died: a crash of the real code while replaying a legal history is a violation
        events = vlib.read_ndjson(tpath)
        res.violation("harness terminated abnormally (rc=%d): %s" % (r.returncode, r.stderr[-300:]), events[-20:])
        return
    events = vlib.read_ndjson(tpath)
    execs = vlib.split_executions(events)
    res.cov["evaluations"] = len(execs)
    # ---- TV
    rejects, st = vlib.tlc_validate_sharded(TRACE, events, tag="c12tv")
    res.notes["tv_states"] = st["tv_states"]
    known = {k["key"]: k for k in vlib.known_findings(PROP)}
    # locate executions of rejects
    starts, pos = [], 0
    for ex in execs:
        starts.append(pos); pos += len(ex)
    import bisect
    bad = set()
    for rj in rejects:
        e = bisect.bisect_right(starts, rj["line"]) - 1
        bad.add(e)
        ex = execs[e]; k = rj["line"] - starts[e]
        pre = ex[k - 1]["list"] if k > 1 else []
        key = classify(pre, ex[k])
        if key and key in known:
            res.known(known[key])
        else:
            res.violation(rj["msg"][:300], ex[:k + 1])
    res.cov["traces_validated_against_impl"] = len(execs) - len(bad)
    # non-trivial: an in-order insertion that did not simply append, or met a duplicate
    nt = set()
    for ex in execs:
        prev = []
        for ev in ex[1:]:
            if ev["op"] in ("addInOrder", "addAll") and prev and ev["list"][:len(prev)] != prev or (ev["op"] == "addInOrder" and ev["list"] == prev):
                nt.add(vlib.canon_hash([x for x in ex[1:]] + [ex[0].get("kind")]))
                break
            prev = ev["list"]
    res.cov["distinct_nontrivial"] = len(nt)
    res.cov["rule"] = ("one shortest operation history per transition (pre-state, operation) of the TLC state graph of "
                       "MC_NodeList (MaxIdx=%d MaxLen=%d MaxHist=%d), replayed on native / Xerces-built / Xerces-lazy trees; "
                       "non-trivial = some in-document-order insertion did not append at the end or met a duplicate; "
                       "distinct by hash of (tree kind, recorded events)" % (gidx, glen, ghist))
    for ex in execs[len(execs) // 2: len(execs) // 2 + 3]:
        res.sample(ex)
    res.assumptions += ["DOMServices::isNodeAfter is modelled by index comparison in NodeListImpl (DomOrder MC shows them equal)",
                        "documents used by the replay are fixed 3/4-node documents; the list algorithm only sees (document, index)"]


def replay(path):
    events = vlib.read_ndjson(path)
    rejects, _ = vlib.tlc_validate_sharded(TRACE, events, shards=1, tag="c12replay")
    for r in rejects:
        print("REJECTED line %d: %s" % (r["line"], r["msg"]))
    return 1 if rejects else 0
