"""C12 - node-sets are duplicate-free sets in one consistent document order.
MC : NodeListImpl (transcribed MutableNodeRefList) refines NodeList for all bounded histories.
GEN: one shortest history per transition of the implementation-shaped graph (tlc -dump).
RUN: harness/c12.cpp replays them on the real MutableNodeRefList (native tree, Xerces wrapper built / lazy).
TV : Trace_C12.tla accepts an execution iff every step is a step of the abstract contract."""
import os, subprocess, json
import vlib, tlaparse
from vlib import ROOT

PROP = "C12"
MC = os.path.join(ROOT, "spec/mc/MC_NodeList.tla")
TRACE = os.path.join(ROOT, "spec/trace/Trace_C12.tla")

DOCS = {3: ["<a><b/><c/>t</a>", "<x y='1'>t<!--c--></x>"],
        4: ["<a><b/><c/>t</a>", "<x y='1'>t<!--c--></x>"]}


def cfg_text(indexed, maxidx, maxlen, maxhist, maxsrc, gen):
    s = ["SPECIFICATION " + ("GenSpec" if gen else "Spec"), "CONSTANTS", "  MaxIdx = %d" % maxidx, "  MaxLen = %d" % maxlen,
         "  MaxHist = %d" % maxhist, "  MaxSrc = %d" % maxsrc, "  Indexed <- " + indexed, "VIEW View", "CONSTRAINT Bound"]
    if not gen:
        s += ["INVARIANT HonestInv", "INVARIANT DeviationsAreReal", "PROPERTY Refinement"]
    return "\n".join(s) + "\n"


def classify(pre, ev):
    """semantic key of a rejected step (mirrors KD_* of NodeListImpl.tla)"""
    def dev(lst, n):
        n = tuple(n); l = [tuple(x) for x in lst]
        if n in l or not l:
            return None
        same = [x for x in l if x[0] == n[0]]
        if n[1] == 1 and same:
            return "rootAfter"
        if same and l[-1][0] != n[0] and all(x[1] < n[1] for x in same):
            return "interleave"
        return None
    if ev["op"] == "addInOrder":
        return dev(pre, ev["n"])
    if ev["op"] == "addAll":
        src = ev["src"] if ev["sflag"] != "rev" else list(reversed(ev["src"]))
        cur = [tuple(x) for x in pre]
        for n in src:
            k = dev(cur, n)
            if k:
                return k
            n = tuple(n)
            if n not in cur:                      # abstract continuation: sorted within its document's group, new group last
                idxs = [i for i, x in enumerate(cur) if x[0] == n[0]]
                if not idxs:
                    cur.append(n)
                else:
                    at = idxs[-1] + 1
                    for i in idxs:
                        if cur[i][1] > n[1]:
                            at = i; break
                    cur.insert(at, n)
        return None
    return None


def run(res, tier, seed):
    quick = tier == "quick"
    wd = vlib.workdir("c12-%d" % os.getpid())
    maxidx, maxlen, maxhist, maxsrc = (3, 4, 6, 2) if quick else (4, 5, 7, 2)
    # ---- MC
    for indexed in ("IndexedAll", "IndexedNone", "IndexedMixed"):
        cfg = os.path.join(wd, "mc_%s.cfg" % indexed)
        open(cfg, "w").write(cfg_text(indexed, maxidx, maxlen, maxhist, maxsrc, False))
        r = vlib.tlc_mc(MC, cfg, name="c12mc" + indexed, timeout=3000)
        res.add_mc(r, "MC_NodeList/" + indexed)
    # ---- GEN: per-transition histories, deviating insertions included
    gidx, glen, ghist, gsrc = (3, 3, 4, 2) if quick else (4, 4, 5, 2)
    hists = {}
    for indexed in ("IndexedAll", "IndexedNone"):
        cfg = os.path.join(wd, "gen_%s.cfg" % indexed)
        open(cfg, "w").write(cfg_text(indexed, gidx, glen, ghist, gsrc, True))
        dump = os.path.join(wd, "gen_%s" % indexed)
        r = vlib.tlc(MC, cfg, workers=1, name="c12gen" + indexed, timeout=3000, extra=["-dump", dump])
        if not r["ok"]:
            raise vlib.Infra("GEN failed: " + r["out"][-3000:])
        hs = [s["hist"] for s in tlaparse.read_dump(dump + ".dump", only={"hist"}) if s["hist"]]
        hists[indexed] = hs
    # ---- RUN
    exe = vlib.build_harness("c12")
    cases = []
    for indexed, kinds in (("IndexedAll", ("native", "xerces-built")), ("IndexedNone", ("xerces-lazy",))):
        for kind in kinds:
            for h in hists[indexed]:
                cases.append({"kind": kind, "docs": DOCS[gidx], "ops": h})
    cpath = os.path.join(wd, "cases.ndjson")
    vlib.write_ndjson(cpath, cases)
    tpath = os.path.join(wd, "trace.ndjson")
    with open(tpath, "w") as f:
        r = subprocess.run([exe, cpath], stdout=f, stderr=subprocess.PIPE, text=True, timeout=3000)
    if r.returncode != 0:
        # the harness died: a crash of the real code while replaying a legal history is a violation
        events = vlib.read_ndjson(tpath)
        res.violation("harness terminated abnormally (rc=%d): %s" % (r.returncode, r.stderr[-300:]), events[-20:])
        return
    events = vlib.read_ndjson(tpath)
    execs = vlib.split_executions(events)
    res.cov["evaluations"] = len(execs)
    # ---- TV
    rejects, st = vlib.tlc_validate_sharded(TRACE, events, tag="c12tv")
    res.notes["tv_states"] = st["tv_states"]
    known = {k["key"]: k for k in vlib.known_findings(PROP)}
    # locate executions of rejects
    starts, pos = [], 0
    for ex in execs:
        starts.append(pos); pos += len(ex)
    import bisect
    bad = set()
    for rj in rejects:
        e = bisect.bisect_right(starts, rj["line"]) - 1
        bad.add(e)
        ex = execs[e]; k = rj["line"] - starts[e]
        pre = ex[k - 1]["list"] if k > 1 else []
        key = classify(pre, ex[k])
        if key and key in known:
            res.known(known[key])
        else:
            res.violation(rj["msg"][:300], ex[:k + 1])
    res.cov["traces_validated_against_impl"] = len(execs) - len(bad)
    # non-trivial: an in-order insertion that did not simply append, or met a duplicate
    nt = set()
    for ex in execs:
        prev = []
        for ev in ex[1:]:
            if ev["op"] in ("addInOrder", "addAll") and prev and ev["list"][:len(prev)] != prev or (ev["op"] == "addInOrder" and ev["list"] == prev):
                nt.add(vlib.canon_hash([x for x in ex[1:]] + [ex[0].get("kind")]))
                break
            prev = ev["list"]
    res.cov["distinct_nontrivial"] = len(nt)
    res.cov["rule"] = ("one shortest operation history per transition (pre-state, operation) of the TLC state graph of "
                       "MC_NodeList (MaxIdx=%d MaxLen=%d MaxHist=%d), replayed on native / Xerces-built / Xerces-lazy trees; "
                       "non-trivial = some in-document-order insertion did not append at the end or met a duplicate; "
                       "distinct by hash of (tree kind, recorded events); besides: the namespace-node order family (one event per context "
                       "element: the namespace axis, its unions with itself / single namespace nodes / attributes / children / self / parent, filtered subsets, "
                       "all of which must be delivered in the one order the axis shows, Trace_C12ns), and the result-tree-fragment family (a fragment built from a known tree, "
                       "exsl:node-set(), unions / reverse axes / positional predicates from its root against XPathSem!Eval on that tree), and the id() family (every sequence of up to 4 tokens "
                       "over the IDs of a document as string argument, node-set arguments holding token lists, as general value and as node list, on native and Xerces trees)" % (gidx, glen, ghist))
    nns, nns_ok = nsorder_family(res, wd, quick, seed)
    nrt, nrt_ok = rtf_family(res, wd, quick, seed)
    nid, nid_ok = id_family(res, wd, quick, seed)
    res.cov["evaluations"] += nns + nrt + nid
    res.cov["traces_validated_against_impl"] += nns_ok + nrt_ok + nid_ok
    for ex in execs[len(execs) // 2: len(execs) // 2 + 3]:
        res.sample(ex)
    res.assumptions += ["DOMServices::isNodeAfter is modelled by index comparison in NodeListImpl (DomOrder MC shows them equal)",
                        "documents used by the replay are fixed 3/4-node documents; the list algorithm only sees (document, index)"]


def nsd_by_id(tree):
    """node id (as xdm.flatten numbers them) -> set of prefixes declared on that element"""
    out, k = {}, [0]

    def go(n):
        k[0] += 1
        me = k[0]
        if n["k"] == "elem":
            out[me] = {p for p, u in n.get("nsd", [])}
            k[0] += len(n.get("a", []))
        for c in n.get("c", []):
            go(c)
    go(tree)
    return out


TRACE_NS = os.path.join(ROOT, "spec/trace/Trace_C12ns.tla")


def nsorder_family(res, wd, quick, seed):
    """namespace nodes: XPath 5.4 leaves their relative order to the implementation, but every node-set has to be delivered in ONE
    order.  From each element of documents with 1-4 declarations per element: the namespace axis itself, unions with itself, with
    single namespace nodes, attributes, children, self and the parent, and filtered subsets;
    each observed as count() and name((expr)[k])."""
    import random
    import xdm, xpgen
    from xpgen import path, step, bin_, fn, num, filt, t_name, T_ANY, T_NODE
    from props import c02
    rng = random.Random(seed)
    docs = []
    def el(depth, inherited):
        nsd = [(pf, rng.choice(["urn:u", "urn:v", "urn:w"])) for pf in rng.sample(["a", "b", "c", "d"], rng.randint(0, 3))]
        if rng.random() < 0.25:
            nsd.append(("", rng.choice(["urn:u", "urn:d"])))
        rng.shuffle(nsd)
        dflt = dict(nsd).get("", inherited)          # an unprefixed element name is in the default namespace in scope
        kids = [el(depth + 1, dflt) for _ in range(rng.randint(0, 2) if depth < 2 else 0)]
        return xdm.E(rng.choice(["m", "n"]), *kids, a=[xdm.A(x, "1") for x in rng.sample(["x", "y"], rng.randint(0, 2))], nsd=nsd, u=dflt or "")
    for k in range(6 if quick else 60):
        docs.append(xdm.R(el(0, None)))
    flats = [xdm.flatten(t) for t in docs]
    declared = [nsd_by_id(t) for t in docs]

    def declaring(fl, i, pf):
        """the nearest ancestor-or-self of element i that carries a declaration of the prefix (0 for the implicit xml prefix)"""
        d = flats.index(fl)
        while i and fl["kind"][i - 1] == "elem":
            if pf in declared[d].get(i, ()):
                return i
            i = fl["parent"][i - 1]
        return 0
    NSX = path([step("namespace", T_ANY, abbr=False)])
    ATT = path([step("attribute", T_ANY)])
    cases, plan = [], []
    for d, fl in enumerate(flats):
        for i in range(1, fl["n"] + 1):
            if fl["kind"][i - 1] != "elem":
                continue
            prefixes = ["".join(map(chr, x[0])) for x in fl["ins"][i - 1]]
            exprs = [NSX, bin_("|", NSX, NSX), bin_("|", ATT, NSX), bin_("|", NSX, ATT),
                     bin_("|", NSX, path([step("child", T_ANY)])), bin_("|", path([step("self", T_NODE, abbr=False)]), NSX),
                     bin_("|", path([step("namespace", T_ANY, bin_("=", fn("position"), fn("last")), abbr=False)]), NSX),
                     bin_("|", bin_("|", path([step("child", T_ANY)]), ATT), NSX),
                     filt(bin_("|", NSX, ATT), bin_("!=", fn("name"), xpgen.lit("x")))]
            if fl["kind"][fl["parent"][i - 1] - 1] == "elem":
                exprs.append(bin_("|", NSX, path([step("parent", T_NODE, abbr=False)])))
            for pf in prefixes:
                if pf:
                    one = path([step("namespace", t_name(pf), abbr=False)])
                    exprs += [bin_("|", one, NSX), bin_("|", NSX, one)]
            bound = len(prefixes) + 8
            for e in exprs:
                plan.append((d + 1, i, e, bound))
                cases.append((d + 1, i, 1, 1, fn("count", e), {}))
                for k in range(1, bound + 1):
                    cases.append((d + 1, i, 1, 1, fn("name", filt(e, num(k))), {}))
    nwd = os.path.join(wd, "nsorder"); os.makedirs(nwd)
    # count() through the number entry point, name() through the string entry point
    counts, crashes1 = c02.run_cases(docs, flats, [c for c in cases if c[4]["name"] == "count"], nwd, mode="num", tag="nsc")
    names, crashes2 = c02.run_cases(docs, flats, [c for c in cases if c[4]["name"] == "name"], nwd, mode="str", tag="nsn")
    for c, err, rc in crashes1 + crashes2:
        res.violation("evaluator process died (rc=%s) on %s: %s" % (rc, c["text"], err), [c])
    cnt = {(e["doc"], e["ctx"], e["text"]): e for e in counts}
    nam = {(e["doc"], e["ctx"], e["text"]): e for e in names}
    events, by = [], {}
    for d, i, e, bound in plan:
        ce = cnt.get((d, i, xpgen.render(fn("count", e))))
        if ce is None or "res" not in ce or ce["res"]["v"]["k"] != "fin":
            res.violation("count(%s) failed at node %d of document %d: %s" % (xpgen.render(e), i, d, ce and ce.get("error")), [ce or {}]); continue
        n = ce["res"]["v"]["m"] // 8
        got, ok = [], n <= bound
        for k in range(1, min(n, bound) + 1):
            ne = nam.get((d, i, xpgen.render(fn("name", filt(e, num(k))))))
            if ne is None or "res" not in ne:
                ok = False; break
            got.append(ne["res"]["v"][3:])            # the string entry point appends to "PRE"
        if not ok:
            res.violation("name((%s)[k]) failed at node %d of document %d" % (xpgen.render(e), i, d), [ce]); continue
        ev = by.get((d, i))
        if ev is None:
            ev = by[(d, i)] = {"e": "NsOrder", "doc": d, "ctx": i, "pi": got, "decl": [declaring(flats[d - 1], i, "".join(map(chr, pf))) for pf in got], "obs": [],
                               "xml": c02.doc_xml(docs[d - 1])}
            events.append(ev)
        ev["obs"].append({"expr": xpgen.strip_render_only(e), "text": xpgen.render(e), "n": n, "names": got})
    dpath = os.path.join(nwd, "docs.ndjson")
    vlib.write_ndjson(dpath, flats)
    rejects, st = vlib.tlc_validate_sharded(TRACE_NS, events, tag="c12ns", env={"DOCS": dpath}, stateless=True, timeout=3000)
    known = {k["key"]: k for k in vlib.known_findings(PROP)}
    for rj in rejects:
        ev = events[rj["line"]]
        if rj["msg"].startswith("KNOWN nsNodeOrderedAtDeclaringElement") and "nsNodeOrderedAtDeclaringElement" in known:
            res.known(known["nsNodeOrderedAtDeclaringElement"]); continue
        res.violation("namespace nodes of node %d of document %d: %s" % (ev["ctx"], ev["doc"], rj["msg"][:400]), [dict(ev, flat=flats[ev["doc"] - 1])])
    res.notes["namespace_order_contexts"] = len(events)
    res.notes["namespace_order_observations"] = sum(len(e["obs"]) for e in events)
    res.notes["namespace_order_contexts_with_3_or_more_nodes"] = sum(1 for e in events if len(e["pi"]) >= 3)
    return len(events), len(events) - len(rejects)


def id_family(res, wd, quick, seed):
    """id() deliveries: EVERY sequence of up to 4 tokens over the IDs of a document (and a token that is no ID) as the string argument -
    tokens out of document order, repeated, unknown -, and node-set arguments whose string-values are such token lists; asked for as a
    general value and as a node list.  Trace_C02: the value is XPathSem!Eval's, delivered duplicate-free and in document order."""
    import itertools, random
    import xdm, xpgen
    from xpgen import path, step, bin_, fn, lit, var, t_name, T_ANY, DOS
    from props import c02
    rng = random.Random(seed + 11)
    iwd = os.path.join(wd, "idfam"); os.makedirs(iwd)
    E, A, T, R = xdm.E, xdm.A, xdm.T, xdm.R
    doc = R(E("a", E("b", T("i3 i1"), a=[A("id", "i1"), A("x", "i2 i3 i2")]), E("c", E("b", T("i4 zz i1 i3"), a=[A("id", "i3")]), a=[A("id", "i2"), A("y", "i4 i2")]),
              E("b", T("i2 i1 i4"), a=[A("id", "i4"), A("x", "i1")]), a=[A("x", "i4 i3 i2 i1")]))
    docs, flats = [doc], [xdm.flatten(doc, c02.ID_ATTRS)]
    toks = ["i1", "i2", "i3", "i4", "zz"]
    cases = []
    for k in range(1, 5):
        seqs = list(itertools.product(toks, repeat=k))
        if quick and k == 4:
            seqs = rng.sample(seqs, 160)
        for ts in seqs:
            e = fn("id", lit((" " if len(cases) % 7 == 0 else "") + " ".join(ts) + ("  " if len(cases) % 5 == 0 else "")))
            cases.append((1, 1 + len(cases) % flats[0]["n"], 1, 1, e, {}))
            if k >= 3:
                cases.append((1, 1, 1, 1, fn("count", e), {}))
    AT = lambda n_: step("attribute", t_name(n_))
    nsargs = [path([DOS, step("child", t_name("b"))], abs_=True), path([DOS, AT("x")], abs_=True), path([DOS, AT("y")], abs_=True),
              bin_("|", path([DOS, AT("x")], abs_=True), path([DOS, step("child", t_name("b"))], abs_=True)), path([DOS, step("child", T_ANY), step("attribute", T_ANY)], abs_=True),
              path([step("child", T_ANY)]), path([step("attribute", T_ANY)]), var("e")]
    n = flats[0]["n"]
    for a_ in nsargs:
        for ctx in range(1, n + 1):
            for e in (fn("id", a_), fn("id", fn("id", a_)), bin_("|", fn("id", a_), fn("id", lit("i4 i1"))), fn("count", fn("id", a_))):
                ids = sorted(rng.sample(range(1, n + 1), 3))
                cases.append((1, ctx, 1, 1, e, {"e": {"t": "ns", "v": [[1, i, 0] for i in ids]}}))
    events = []
    for kind in ("eval", "nodelist"):
        for tree in ("native", "xerces-built"):
            evs, crashes = c02.run_cases(docs, flats, [c for c in cases if kind == "eval" or c[4].get("name") == "id" or c[4]["op"] == "bin"], iwd, kind=tree, mode=kind, tag="id" + kind + tree[:3])
            for c, err, rc in crashes:
                res.violation("evaluator process died (rc=%s) on %s: %s" % (rc, c["text"], err), [c])
            events += evs
    rejects, st = c02.validate(res, events, flats, iwd, "c12id", lambda ev: None, PROP)
    res.notes["id_family_evaluations"] = len(events)
    return len(events), len(events) - len(rejects)


def rtf_family(res, wd, quick, seed):
    """result tree fragments turned into node-sets: a variable whose content builds a known tree T (literal elements with attributes,
    xsl:text, xsl:comment, xsl:processing-instruction), exsl:node-set() of it, and node-set expressions evaluated from its root -
    unions of text / element / attribute steps, reverse axes, positional predicates.  The fragment is isomorphic to T, so
    XPathSem!Eval on T is the oracle (Trace_C02: the value, duplicate-free, in document order)."""
    import random, subprocess
    from xml.sax.saxutils import escape, quoteattr
    import xdm, xpgen
    from xpgen import path, step, bin_, fn, num, T_ANY, T_NODE, T_TEXT, T_COMMENT, t_name, t_pi, DOS
    from props import c02
    rng = random.Random(seed + 7)
    rwd = os.path.join(wd, "rtf"); os.makedirs(rwd)
    docs = [xdm.random_doc(rng, maxnodes=rng.choice([8, 12, 16])) for _ in range(6 if quick else 60)]
    docs.append(xdm.R(xdm.E("p", xdm.T("alpha"), xdm.E("b", a=[xdm.A("k", "1")]), xdm.T("beta"), xdm.E("c", xdm.T("x"), a=[xdm.A("k", "2"), xdm.A("j", "3")]), xdm.T("gamma"))))
    flats = [xdm.flatten(t) for t in docs]

    def build(n):
        k = n["k"]
        if k == "elem":
            return "<%s%s>%s</%s>" % (n["l"], "".join(" %s=%s" % (a["l"], quoteattr(a["v"])) for a in n["a"]), "".join(build(c) for c in n["c"]), n["l"])
        if k == "text":
            return "<xsl:text>%s</xsl:text>" % escape(n["v"])
        if k == "comment":
            return "<xsl:comment>%s</xsl:comment>" % escape(n["v"])
        if k == "pi":
            return '<xsl:processing-instruction name="%s">%s</xsl:processing-instruction>' % (n["l"], escape(n["v"]))
        return "".join(build(c) for c in n["c"])
    P = lambda *st, **kw: path(list(st), **kw)
    ch, at = (lambda t, *p: step("child", t, *p)), (lambda t, *p: step("attribute", t, *p))
    fixed = [bin_("|", P(DOS, ch(T_TEXT), abs_=True), P(DOS, ch(T_ANY), abs_=True)),
             bin_("|", bin_("|", P(DOS, ch(T_ANY), at(T_ANY), abs_=True), P(DOS, ch(T_TEXT), abs_=True)), P(DOS, ch(T_ANY), abs_=True)),
             P(step("descendant", T_NODE, abbr=False)), bin_("|", P(step("descendant", T_NODE, abbr=False)), P(DOS, at(T_ANY), abs_=True)),
             P(DOS, ch(T_ANY), step("preceding-sibling", T_NODE, abbr=False), abs_=True), P(DOS, ch(T_TEXT), step("following", T_NODE, abbr=False), abs_=True),
             bin_("|", P(DOS, at(T_ANY), step("parent", T_NODE, abbr=False), abs_=True), P(DOS, ch(T_COMMENT), abs_=True)),
             P(DOS, ch(T_NODE, num(1)), abs_=True), P(DOS, ch(T_NODE, fn("last")), abs_=True), P(DOS, ch(T_ANY), step("ancestor-or-self", T_NODE, abbr=False), abs_=True),
             # the ROOT of the fragment united with its nodes, in both operand orders: root first (the root of a fragment is a document
             # fragment node of its own kind; its nodes are owned by a document that is only a factory)
             bin_("|", P(ch(T_NODE)), P(step("self", T_NODE))), bin_("|", P(step("self", T_NODE)), P(ch(T_NODE))),
             bin_("|", P(DOS, ch(T_TEXT), abs_=True), P(abs_=True)), bin_("|", P(abs_=True), P(DOS, at(T_ANY), abs_=True)),
             bin_("|", bin_("|", P(DOS, ch(T_ANY), abs_=True), P(abs_=True)), P(DOS, ch(T_COMMENT), abs_=True)),
             bin_("|", P(step("descendant", T_NODE, abbr=False)), P(DOS, ch(T_ANY, num(1)), step("ancestor", T_NODE, abbr=False), abs_=True))]
    cases, metas = [], []
    for d, t in enumerate(docs):
        g = xpgen.Gen(rng)
        exprs = fixed + [g.ns(2) for _ in range(6 if quick else 20)]
        body = "".join('<xsl:variable name="r%d" select=%s/>' % (k, quoteattr(xpgen.render(e))) for k, e in enumerate(exprs))
        cdir = os.path.join(rwd, "case%d" % d); os.makedirs(cdir)
        open(os.path.join(cdir, "main.xsl"), "w").write(
            '<xsl:stylesheet version="1.0" xmlns:xsl="http://www.w3.org/1999/XSL/Transform" xmlns:exsl="http://exslt.org/common">\n'
            '<xsl:template match="/"><xsl:variable name="f">%s</xsl:variable><xsl:for-each select="exsl:node-set($f)">%s</xsl:for-each></xsl:template></xsl:stylesheet>'
            % (build(t), body))
        open(os.path.join(cdir, "in.xml"), "w").write("<r/>")
        cases.append({"id": d, "dir": cdir, "trace": "none", "select": True})
        metas.append(exprs)
    exe = vlib.build_harness("xslt")
    cp_ = os.path.join(rwd, "cases.ndjson"); vlib.write_ndjson(cp_, cases)
    out = subprocess.run([exe, cp_], capture_output=True, text=True, timeout=1800)
    by, cur = {}, None
    for line in out.stdout.splitlines():
        try:
            ev = json.loads(line)
        except ValueError:
            continue
        if ev.get("e") == "Reset":
            cur = by.setdefault(ev["id"], [])
        elif cur is not None:
            cur.append(ev)
    events = []
    for d, exprs in enumerate(metas):
        es = by.get(d) or []
        sample = {"xsl": open(os.path.join(cases[d]["dir"], "main.xsl")).read()}
        if not es or es[-1].get("e") != "Done" or es[-1].get("status") != 0:
            res.violation("result-tree-fragment family: transformation %s" % ("failed: " + es[-1].get("msg", "")[:200] if es and es[-1].get("e") == "Done" else "died (rc=%s)" % out.returncode), [sample]); continue
        sel = [e for e in es if e["e"] == "S" and e["el"] == "xsl:variable"]
        if len(sel) != len(exprs):
            raise vlib.Infra("result-tree-fragment family: %d selection events for %d expressions" % (len(sel), len(exprs)))
        for e, sv in zip(exprs, sel):
            v = sv["val"]
            if v.get("t") == "ns":
                frag = {x[0] for x in v["v"]}
                if len(frag) > 1:
                    res.violation("a node-set over one fragment holds nodes of %d documents: %s" % (len(frag), xpgen.render(e)), [sample]); continue
                v = {"t": "ns", "v": [[d + 1, x[1], 0] for x in v["v"]]}
            events.append({"e": "Eval", "kind": "eval", "doc": d + 1, "ctx": 1, "pos": 1, "size": 1, "text": xpgen.render(e), "expr": xpgen.strip_render_only(e), "vars": {},
                           "res": v, "nsmap": [], "family": "rtf", "flatdoc": flats[d], "xsl": sample["xsl"]})
    dpath = os.path.join(rwd, "docs.ndjson")
    vlib.write_ndjson(dpath, flats)
    rejects, st = vlib.tlc_validate_sharded(c02.TRACE, [{k: v for k, v in e.items() if k not in ("family", "flatdoc", "xsl")} for e in events], tag="c12rtf", env={"DOCS": dpath}, stateless=True, timeout=3000)
    for rj in rejects:
        ev = events[rj["line"]]
        res.violation("node-set over a result tree fragment, %s: %s" % (ev["text"], rj["msg"][:300]), [ev])
    res.notes["rtf_nodeset_evaluations"] = len(events)
    res.notes["rtf_nodeset_not_judged"] = st["dropped"]
    return len(events), len(events) - len(rejects) - st["dropped"]


def replay(path):
    events = vlib.read_ndjson(path)
    if events and events[0].get("family") == "rtf":
        from props import c02
        wd = vlib.workdir("c12replay-%d" % os.getpid())
        dpath = os.path.join(wd, "docs.ndjson")
        vlib.write_ndjson(dpath, [events[0]["flatdoc"]])
        evs = []
        for ev in events:
            e2 = {k: v for k, v in ev.items() if k not in ("family", "flatdoc", "xsl")}
            e2["doc"] = 1
            if e2["res"].get("t") == "ns":
                e2["res"] = {"t": "ns", "v": [[1, x[1], 0] for x in e2["res"]["v"]]}
            evs.append(e2)
        rejects, _ = vlib.tlc_validate_sharded(c02.TRACE, evs, shards=1, tag="c12rtfreplay", env={"DOCS": dpath}, stateless=True)
        for r in rejects:
            print("REJECTED: %s" % r["msg"][:2000])
        return 1 if rejects else 0
    if events and events[0].get("e") == "NsOrder":
        wd = vlib.workdir("c12replay-%d" % os.getpid())
        dpath = os.path.join(wd, "docs.ndjson")
        vlib.write_ndjson(dpath, [events[0]["flat"]])
        evs = [{k: v for k, v in dict(ev, doc=1).items() if k not in ("flat", "xml")} for ev in events]
        rejects, _ = vlib.tlc_validate_sharded(TRACE_NS, evs, shards=1, tag="c12nsreplay", env={"DOCS": dpath}, stateless=True)
        for r in rejects:
            print("REJECTED: %s" % r["msg"][:2000])
        return 1 if rejects else 0
    rejects, _ = vlib.tlc_validate_sharded(TRACE, events, shards=1, tag="c12replay")
    for r in rejects:
        print("REJECTED line %d: %s" % (r["line"], r["msg"]))
    return 1 if rejects else 0
