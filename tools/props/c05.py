"""C05 - the result does not depend on how source, stylesheet and output are supplied.
MC : MC_Forms.tla - TLC enumerates Cfgs = src x ss x out x api (324), decides Supported / the exclusion that hits, checks that
     what every supported form delivers is a Run(cfg) step for the ONE outcome R(S, D, P); the callback target
     (FormsCallbackImpl = XalanOutputStream + XalanTransformerOutputStream transcribed) obeys the chunk protocol and surfaces a
     short count as an error; the quick subset (chosen greedily here from TLC's export) is checked by TLC to be pairwise covering.
GEN: corpus of (S, D, P): hand-made inputs that stress the mechanics of the forms + seeded xslgen stylesheets on seeded documents.
RUN: harness/c05.cpp runs each input through every selected form with the real API of that form (C++, C API, Xalan executable).
TV : Trace_C05.tla: first Run of an execution defines the reference, every other Run must agree (TLC decides equality of the
     canonical trees; this file only PARSES bytes into trees with pyexpat / html.parser, independently of Xerces)."""
import os, random, json, subprocess, hashlib, html.parser, xml.parsers.expat
import vlib, tlaparse, xdm, xslgen
from vlib import ROOT
from props import c02, c05_corpus

PROP = "C05"
MC = os.path.join(ROOT, "spec/mc/MC_Forms.tla")
TRACE = os.path.join(ROOT, "spec/trace/Trace_C05.tla")
DIMS = ("src", "ss", "out", "api")
REF = {"src": "file", "ss": "inputSource", "out": "stream", "api": "cpp"}
XMLNS_NS = "http://www.w3.org/2000/xmlns/"


# ------------------------------------------------------------------------------------------------ MC
def mc_cfg(spec, invs, n=1, maxstr=1, wide=True, buf=1, short=0):
    return "\n".join(["SPECIFICATION " + spec, "CONSTANTS", "  N = %d" % n, "  MaxStr = %d" % maxstr, "  Wide = %s" % ("TRUE" if wide else "FALSE"),
                      "  BufSize = %d" % buf, "  ShortAt = %d" % short] + ["INVARIANT " + i for i in invs]) + "\n"


def enumerate_forms(res, wd):
    """TLC decides Supported for all 324 forms; returns (supported cfgs with via, {exclusion: count})"""
    cfg = os.path.join(wd, "enum.cfg")
    open(cfg, "w").write(mc_cfg("EnumSpec", ["RunIsFormIndependent", "ExclusionsAreDisjointFromSupport"]))
    dump = os.path.join(wd, "enum")
    r = vlib.tlc_mc(MC, cfg, workers=4, name="c05enum", timeout=900, extra=["-dump", dump])
    res.add_mc(r, "MC_Forms/EnumSpec")
    seen, sup, why = set(), [], {}
    for s in tlaparse.read_dump(dump + ".dump", only={"cfg", "info"}):
        c = {d: s["cfg"][d] for d in DIMS}
        k = key(c)
        if k in seen:
            continue
        seen.add(k)
        if s["info"]["sup"]:
            sup.append(dict(c, via=s["info"]["via"]))
        for w in s["info"]["why"]:
            why[w] = why.get(w, 0) + 1
    if len(seen) != 324 or not sup:
        raise vlib.Infra("form enumeration incomplete: %d forms" % len(seen))
    sup.sort(key=lambda c: (c != dict(REF, via=c["via"]), [c[d] for d in DIMS]))
    return sup, why


def key(c):
    return "/".join(c[d] for d in DIMS)


def fkey(c):
    """CfgStr of Trace_C05.tla"""
    return "/".join(c[d] for d in ("api", "src", "ss", "out"))


def pairs_of(c):
    return {(a, c[a], b, c[b]) for a in DIMS for b in DIMS if a != b}


def greedy_pairwise(sup):
    need = set().union(*[pairs_of(c) for c in sup])
    chosen = [c for c in sup if key(c) == key(REF)]
    for c in chosen:
        need -= pairs_of(c)
    rest = [c for c in sup if key(c) != key(REF)]
    while need:
        best = max(rest, key=lambda c: (len(pairs_of(c) & need), -rest.index(c)))
        chosen.append(best); rest.remove(best); need -= pairs_of(best)
    return chosen


def mc_cover(res, wd, quick):
    q = os.path.join(wd, "quick.ndjson")
    vlib.write_ndjson(q, [{d: c[d] for d in DIMS} for c in quick])
    cfg = os.path.join(wd, "cover.cfg")
    open(cfg, "w").write(mc_cfg("CoverSpec", ["QuickIsPairwiseCovering"]))
    r = vlib.tlc_mc(MC, cfg, workers=1, name="c05cover", timeout=900, env={"QUICK": q})
    res.add_mc(r, "MC_Forms/CoverSpec")


def mc_callback(res, wd, tier):
    n, maxstr, buf = (7, 4, 3) if tier == "quick" else (10, 6, 4)
    for wide in (True, False):
        for short in range(0, 4 if tier == "quick" else 6):
            cfg = os.path.join(wd, "cb_%s_%d.cfg" % (wide, short))
            open(cfg, "w").write(mc_cfg("CbSpec", ["Conserved", "Bounded", "ChunkProtocol", "ShortCountSurfaces"], n, maxstr, wide, buf, short))
            r = vlib.tlc_mc(MC, cfg, workers=2, name="c05cb%s%d" % (wide, short), timeout=900)
            res.add_mc(r, "MC_Forms/CbSpec wide=%s ShortAt=%d" % (wide, short))


# ------------------------------------------------------------------------------- canonical trees (parsing only)
def _merge_text(kids):
    out = []
    for n in kids:
        if n["k"] == "text":
            if not n["v"]:
                continue
            if out and out[-1]["k"] == "text":
                out[-1] = {"k": "text", "v": out[-1]["v"] + n["v"]}
                continue
        out.append(n)
    return out


def _attr(qn, ns, v):
    if qn == "xmlns" or qn.startswith("xmlns:"):
        ns = ""                                  # a namespace declaration: its name and value are what it says
    return [qn, ns or "", v]


def canon_walked(tree):
    """result of walking a DOM / source-tree target (harness JSON) -> canonical tree"""
    out = []
    for n in tree:
        k = n["k"]
        if k == "elem":
            out.append({"k": "elem", "name": n["qn"], "ns": n["ns"] or "", "attrs": sorted(_attr(*a) for a in n["a"]), "kids": canon_walked(n["c"])})
        elif k == "text":
            out.append({"k": "text", "v": n["v"]})
        elif k == "comment":
            out.append({"k": "comment", "v": n["v"]})
        elif k == "pi":
            out.append({"k": "pi", "name": n["l"], "v": n["v"].lstrip(" \t\r\n")})     # <?t  x?>: white space after the target is the separator
        else:
            out.append({"k": "other", "v": n.get("v", "")})
    return _merge_text(out)


def unparsable(what, data):
    return [{"k": "unparsable", "v": "%s sha1=%s" % (what, hashlib.sha1(data).hexdigest()[:12])}]


def canon_xml(data):
    """bytes of the xml output method -> canonical tree, with pyexpat (not namespace-processing: prefixes are resolved here)"""
    p = xml.parsers.expat.ParserCreate()
    p.ordered_attributes = True
    p.buffer_text = False
    root = {"kids": [], "nsmap": {"xml": "http://www.w3.org/XML/1998/namespace", "": ""}}
    stack = [root]

    def start(name, attrs):
        pairs = [(attrs[i], attrs[i + 1]) for i in range(0, len(attrs), 2)]
        nsmap = dict(stack[-1]["nsmap"])
        for q, v in pairs:
            if q == "xmlns":
                nsmap[""] = v
            elif q.startswith("xmlns:"):
                nsmap[q[6:]] = v

        def ns_of(q, is_attr):
            if ":" in q:
                return nsmap.get(q.split(":", 1)[0], "?unbound")
            return "" if is_attr else nsmap.get("", "")
        e = {"k": "elem", "name": name, "ns": ns_of(name, False), "attrs": sorted(_attr(q, ns_of(q, True), v) for q, v in pairs), "kids": [], "nsmap": nsmap}
        stack[-1]["kids"].append(e); stack.append(e)

    def end(name):
        e = stack.pop()
        e["kids"] = _merge_text(e["kids"]); del e["nsmap"]

    p.StartElementHandler = start
    p.EndElementHandler = end
    p.CharacterDataHandler = lambda s: stack[-1]["kids"].append({"k": "text", "v": s})
    p.CommentHandler = lambda s: stack[-1]["kids"].append({"k": "comment", "v": s})
    p.ProcessingInstructionHandler = lambda t, d: stack[-1]["kids"].append({"k": "pi", "name": t, "v": d})
    try:
        p.Parse(data, True)
    except xml.parsers.expat.ExpatError as e:
        return unparsable("xml: %s" % e, data)
    return _merge_text(root["kids"])


HTML_VOID = {"area", "base", "basefont", "br", "col", "frame", "hr", "img", "input", "isindex", "link", "meta", "param"}


class _Html(html.parser.HTMLParser):
    def __init__(self):
        super().__init__(convert_charrefs=True)
        self.root = {"kids": []}
        self.stack = [self.root]
        self.bad = None

    def handle_starttag(self, tag, attrs):
        e = {"k": "elem", "name": tag, "ns": "", "attrs": sorted([a, "", a if v is None else v] for a, v in attrs), "kids": []}
        self.stack[-1]["kids"].append(e)
        if tag not in HTML_VOID:
            self.stack.append(e)

    def handle_startendtag(self, tag, attrs):
        self.stack[-1]["kids"].append({"k": "elem", "name": tag, "ns": "", "attrs": sorted([a, "", a if v is None else v] for a, v in attrs), "kids": []})

    def handle_endtag(self, tag):
        if tag in HTML_VOID:
            return
        if len(self.stack) < 2 or self.stack[-1]["name"] != tag:
            self.bad = "unbalanced </%s>" % tag
            return
        e = self.stack.pop(); e["kids"] = _merge_text(e["kids"])

    def handle_data(self, data):
        self.stack[-1]["kids"].append({"k": "text", "v": data})

    def handle_comment(self, data):
        self.stack[-1]["kids"].append({"k": "comment", "v": data})

    def handle_pi(self, data):
        t, _, d = data.partition(" ")
        self.stack[-1]["kids"].append({"k": "pi", "name": t, "v": d})


def canon_html(data, enc):
    try:
        text = data.decode(enc)
    except (UnicodeDecodeError, LookupError) as e:
        return unparsable("html decode: %s" % e, data)
    h = _Html()
    h.feed(text); h.close()
    if h.bad or len(h.stack) != 1:
        return unparsable("html: %s" % (h.bad or "unclosed element"), data)
    kids = _merge_text(h.root["kids"])
    return [n for n in kids if not (n["k"] == "text" and not n["v"].strip())] if len(kids) > 1 else kids


def canon_text(data, enc):
    try:
        text = data.decode(enc)
    except (UnicodeDecodeError, LookupError) as e:
        return unparsable("text decode: %s" % e, data)
    if text.startswith("\ufeff"):
        text = text[1:]
    return [{"k": "text", "v": text}] if text else []


def canon_bytes(data, feat):
    m = feat["method"]
    if m == "xml":
        return canon_xml(data)
    if m == "html":
        return canon_html(data, feat.get("enc", "utf-8"))
    return canon_text(data, feat.get("enc", "utf-8"))


def count_nodes(tree):
    return sum(1 + len(n.get("attrs", [])) + count_nodes(n.get("kids", [])) for n in tree)


# ------------------------------------------------------------------------------------------ RUN
def snapshot_binaries(bdir, harness, wd):
    """Builds the command-line program of the SAME build (current working tree of $VERIF_REPO) and copies it, the harness and the
    libraries they load into the work directory - all under build_repo's lock, so that a concurrent rebuild of the shared build
    directory cannot pull a library away from under a running form.  Returns (harness, Xalan, LD_LIBRARY_PATH)."""
    lock = os.path.join(os.path.dirname(bdir), ".lock-" + os.path.basename(bdir))
    snap = os.path.join(wd, "bin"); os.makedirs(snap)
    libs = [os.path.join(bdir, "src", "xalanc", "libxalan-c.so*"), os.path.join(bdir, "src", "xalanc", "Utils", "XalanMsgLib", "libxalanMsg.so*")]
    script = "ninja -C '%s' Xalan && cp -a '%s' '%s' %s '%s/'" % (bdir, os.path.join(bdir, "src", "xalanc", "Xalan"), harness, " ".join(libs), snap)
    r = vlib.sh(["flock", lock, "sh", "-c", script], capture_output=True, text=True)
    exe, xalan = os.path.join(snap, os.path.basename(harness)), os.path.join(snap, "Xalan")
    if r.returncode != 0 or not os.path.exists(xalan) or not os.path.exists(exe):
        raise vlib.Infra("cannot build / snapshot the Xalan executable in %s:\n%s" % (bdir, (r.stdout + r.stderr)[-3000:]))
    return exe, xalan, snap


def read_trace(path):
    out = []
    with open(path, encoding="utf8", errors="replace") as f:
        for line in f:
            line = line.strip()
            if line:
                try:
                    out.append(json.loads(line))
                except ValueError:
                    break                       # a line cut off by a crash
    return out


def plan(inp, forms, with_short=True):
    """the runs of one input: control experiment, reference form first, the other forms, short-count variants"""
    feat = inp["feat"]

    def ok(c):
        return not (feat["utf16"] and c["out"] == "cData") and not (feat["srcbase"] and c["src"] == "stream" and c["api"] in ("c", "cli"))
    sel = [c for c in forms if ok(c)]
    runs = []                                               # control experiments first (Trace_C05 only records them)
    ctl = inp.get("ctl", [])
    if "in_sorted.xml" in inp["files"]:
        runs.append(dict(REF, via="stream", xml="in_sorted.xml", ctrl="attrsSorted"))
    for c in sel:
        if c["src"] in ("parsedXerces", "wrappedXercesDOM"):
            if "nsaxis" in ctl:
                runs.append(dict(c, xml="in_xmlnsxml.xml", ctrl="xmlnsXml:" + fkey(c)))
            if "nocdata" in ctl:
                runs.append(dict(c, xml="in_nocdata.xml", ctrl="noCdata:" + fkey(c)))
    runs += sel
    if with_short:
        cbs = [c for c in sel if c["out"] == "callback"]
        for i, c in enumerate(cbs):
            runs.append(dict(c, short=1 + (i + inp["idx"]) % 3))
    return runs


def write_input(wd, inp):
    d = os.path.join(wd, "in%d" % inp["idx"]); os.makedirs(d)
    for name, content in inp["files"].items():
        with open(os.path.join(d, name), "wb") as f:
            f.write(content if isinstance(content, bytes) else content.encode("utf8"))
    return d


def prescreen(res, wd, xalan, libdir, inputs):
    """C05 compares forms; an input on which the plain command-line run (file, stylesheet file, stdout) does not even terminate
    says nothing about forms and would only block the in-process forms: such inputs are set aside and listed in the evidence.
    (Seen on the unchanged tree: an unbalanced XalanNamespacesStack::popContext after an ignored xsl:copy makes
    XSLTEngineImpl::reset() spin in XalanNamespacesStack::clear() AFTER the complete result has been written.)"""
    from concurrent.futures import ThreadPoolExecutor

    def one(inp):
        d = os.path.join(wd, "in%d" % inp["idx"])
        try:
            subprocess.run([xalan, os.path.join(d, "in.xml"), os.path.join(d, "main.xsl")], stdout=subprocess.DEVNULL, stderr=subprocess.DEVNULL, timeout=30,
                           env=dict(os.environ, LD_LIBRARY_PATH=libdir))
            return True
        except subprocess.TimeoutExpired:
            return False
    with ThreadPoolExecutor(max_workers=vlib.NCPU) as ex:
        oks = list(ex.map(one, inputs))
    dropped = [inp["name"] for inp, ok in zip(inputs, oks) if not ok]
    if dropped:
        res.notes["inputs_set_aside_reference_run_does_not_terminate"] = dropped
    return [inp for inp, ok in zip(inputs, oks) if ok]


def run_harness(res, wd, exe, xalan, libdir, inputs, forms):
    cases = []
    for inp in inputs:
        d = os.path.join(wd, "in%d" % inp["idx"])
        c = {"id": inp["idx"], "dir": d, "xml": "in.xml", "xsl": "main.xsl", "cfgs": plan(inp, forms)}
        if inp.get("sparam"):
            c["sparam"] = inp["sparam"]
        if inp.get("nparam"):
            c["nparam"] = inp["nparam"]
        cases.append(c)
    nsh = max(1, min(vlib.NCPU, len(cases)))
    procs = []
    for s in range(nsh):
        ch = cases[s::nsh]
        cp = os.path.join(wd, "cases-%d.ndjson" % s); vlib.write_ndjson(cp, ch)
        tp = os.path.join(wd, "trace-%d.ndjson" % s)
        procs.append((ch, tp, subprocess.Popen([exe, cp, xalan], stdout=open(tp, "w"), stderr=subprocess.PIPE, env=dict(os.environ, ASAN_OPTIONS="detect_leaks=0", LD_LIBRARY_PATH=libdir))))
    raw = {}
    for ch, tp, p in procs:
        try:
            _, err = p.communicate(timeout=600 + 0.3 * sum(len(c["cfgs"]) for c in ch))      # normal: a few ms per run
        except subprocess.TimeoutExpired:
            p.kill(); _, err = p.communicate(); err = b"TIMEOUT " + (err or b"")
        evs = [e for e in read_trace(tp) if e.get("e") == "Run"]
        for e in evs:
            raw.setdefault(e["id"], []).append(e)
        if p.returncode == 2:                       # the harness's own exit code: bad case file, Xalan executable cannot be started
            raise vlib.Infra("harness: %s" % (err or b"").decode("utf8", "replace")[-500:])
        if p.returncode != 0:
            # the process died inside some form: name the form (the first planned run without an event)
            for c in ch:
                got = len(raw.get(c["id"], []))
                if got < len(c["cfgs"]):
                    res.violation("harness died (rc=%s) while running form %s on input %d: %s" % (p.returncode, key(c["cfgs"][got]), c["id"], (err or b"").decode("utf8", "replace")[-300:]),
                                  [{"e": "Crash", "input": c["id"], "cfg": c["cfgs"][got], "files": {k: (v if isinstance(v, str) else v.decode("latin-1")) for k, v in inputs_by_idx(inputs, c["id"])["files"].items()}}])
                    break
    return cases, raw


def inputs_by_idx(inputs, idx):
    return [i for i in inputs if i["idx"] == idx][0]


def to_events(inp, runs):
    """harness Run records of one input -> the execution Trace_C05 validates (canonical trees instead of bytes)"""
    feat = inp["feat"]
    evs = [{"e": "Reset", "id": inp["idx"]}, {"e": "Input", "feat": {"utf16": feat["utf16"], "srcbase": feat["srcbase"], "method": feat["method"]}}]
    for r in runs:
        ok = r["status"] == 0
        digest = ""
        if "tree" in r:
            tree, nbytes = (canon_walked(r["tree"]) if ok else []), 0
        else:
            data = bytes.fromhex(r["bytes"])
            tree, nbytes = (canon_bytes(data, feat) if ok else []), len(data)
            digest = hashlib.sha1(data).hexdigest()[:16] if ok else ""          # forms that write BYTES: equal trees must be written alike
        evs.append({"e": "Run", "cfg": r["cfg"], "via": r["via"], "ok": ok, "status": r["status"], "msg": r["msg"][:200], "tree": tree, "digest": digest,
                    "wlog": r["wlog"], "nbytes": nbytes, "short": r["short"], "ctrl": r["ctrl"], "k": r["k"]})
    return evs


def classify(msg):
    import re
    m = re.search(r"class=tree KD=(\w+)", msg)
    return m.group(1) if m else None


def run(res, tier, seed):
    quick = tier == "quick"
    rng = random.Random(seed)
    wd = vlib.workdir("c05-%d" % os.getpid())
    # ---- MC
    sup, why = enumerate_forms(res, wd)
    qsub = greedy_pairwise(sup)
    mc_cover(res, wd, qsub)
    mc_callback(res, wd, tier)
    res.notes["forms_supported"] = len(sup)
    res.notes["forms_excluded_by"] = why
    res.notes["quick_subset"] = [key(c) for c in qsub]
    forms = qsub if quick else sup
    # ---- GEN
    inputs = c05_corpus.make_corpus(rng, 14 if quick else 2500)
    for i, inp in enumerate(inputs):
        inp["idx"] = i
    # ---- RUN
    built = vlib.build_harness("c05")
    exe, xalan, libdir = snapshot_binaries(os.path.dirname(built), built, wd)
    for inp in inputs:
        write_input(wd, inp)
    inputs = prescreen(res, wd, xalan, libdir, inputs)
    cases, raw = run_harness(res, wd, exe, xalan, libdir, inputs, forms)
    events, execs = [], []
    for inp, c in zip(inputs, cases):
        runs = raw.get(inp["idx"], [])
        if len(runs) < 2:
            continue
        ex = to_events(inp, runs)
        execs.append((inp, len(events), ex))
        events += ex
    res.cov["evaluations"] = sum(1 for e in events if e["e"] == "Run")
    # ---- TV
    rejects, st = vlib.tlc_validate_sharded(TRACE, events, tag="c05tv", timeout=3000)
    res.notes["tv_states"] = st["tv_states"]
    known = {k["key"]: k for k in vlib.known_findings(PROP)}
    import bisect
    starts = [s for _, s, _ in execs]
    bad = set()
    reported = {}
    for rj in sorted(rejects, key=lambda r: r["line"]):
        e = bisect.bisect_right(starts, rj["line"]) - 1
        inp, s0, ex = execs[e]
        bad.add(e)
        kf = classify(rj["msg"])
        if kf and kf in known:
            res.known(known[kf])
            continue
        n = reported.get(e, 0)
        reported[e] = n + 1
        if n >= 3:                                   # at most three replay files per input
            res.notes["violations_not_listed"] = res.notes.get("violations_not_listed", 0) + 1
            continue
        ev = events[rj["line"]]
        head = [x for x in ex[:rj["line"] - s0] if x["e"] != "Run" or x["ctrl"] or x is first_plain(ex)]
        files = {k: (v if isinstance(v, str) else v.decode("latin-1")) for k, v in inp["files"].items()}
        res.violation("input %s: %s" % (inp["name"], rj["msg"][:400]), head + [ev] + [{"e": "Files", "name": inp["name"], "files": files, "sparam": inp.get("sparam"), "nparam": inp.get("nparam")}])
    res.cov["traces_validated_against_impl"] = len(execs) - len(bad)
    # ---- coverage
    nt, used_pairs = set(), set()
    for inp, s0, ex in execs:
        runs = [e for e in ex if e["e"] == "Run" and not e["ctrl"] and not e["short"]]
        for e in runs:
            used_pairs |= pairs_of(e["cfg"])
        oks = [e for e in runs if e["ok"]]
        if len({key(e["cfg"]) for e in oks}) >= 10 and oks and count_nodes(oks[0]["tree"]) >= 5:
            nt.add(vlib.canon_hash([inp["files"]["main.xsl"] if isinstance(inp["files"]["main.xsl"], str) else "", inp["files"]["in.xml"] if isinstance(inp["files"]["in.xml"], str) else inp["name"], inp.get("sparam"), inp.get("nparam")]))
    need = set().union(*[pairs_of(c) for c in sup])
    res.notes["pairs_run"] = "%d of %d (dimension=value) pairs of the supported forms were run" % (len(used_pairs & need), len(need))
    res.notes["inputs"] = {"total": len(inputs), "handmade": sum(1 for i in inputs if i["kind"] == "hand"), "generated": sum(1 for i in inputs if i["kind"] == "gen"),
                           "failing": sum(1 for _, _, ex in execs if not first_plain(ex)["ok"])}
    res.notes["short_count_runs"] = sum(1 for e in events if e["e"] == "Run" and e["short"])
    res.notes["multi_chunk_runs"] = sum(1 for e in events if e["e"] == "Run" and sum(1 for x in e["wlog"] if x >= 0) > 1)
    res.cov["distinct_nontrivial"] = len(nt)
    res.cov["rule"] = ("one evaluation = one run of one form on one input; forms = %s; inputs = hand-made mechanics inputs + seeded xslgen stylesheets on seeded documents "
                       "(half of them with attributes in name order); non-trivial input = at least 10 different forms succeeded and the result tree has at least 5 nodes; "
                       "distinct by hash of (stylesheet, document, parameters)" % ("pairwise-covering subset of the supported forms (TLC-checked)" if quick else "all supported forms"))
    for inp, s0, ex in execs[:2]:
        f = first_plain(ex)
        res.sample({"input": inp["name"], "forms": len(ex) - 2, "ok": f["ok"], "tree": f["tree"] if count_nodes(f["tree"]) < 40 else "(%d nodes)" % count_nodes(f["tree"])})
    res.assumptions += [
        "R(S, D, P) itself is not recomputed here (C01 does that): the reference is the C++ file/inputSource/stream form, every other form must agree with it",
        "byte results are compared as parsed content (pyexpat for xml, html.parser for html, decoded text for text); for the text method only the string-value is comparable with tree targets",
        "stylesheets of the corpus do not use disable-output-escaping, indent=yes or result trees that are not well-formed documents (a DOM cannot hold them)",
        "streams are given a system id wherever the API allows one; the DOM handed to XercesDOMWrapperParsedSource is parsed namespace-aware without entity-reference nodes",
        "namespace declarations are compared as attributes by name and value (their own namespace URI is ignored)"]


def first_plain(ex):
    for e in ex:
        if e["e"] == "Run" and not e["ctrl"] and not e["short"]:
            return e
    return {"ok": False, "tree": []}


def replay(path):
    events = [e for e in vlib.read_ndjson(path) if e.get("e") in ("Reset", "Input", "Run")]
    if not events:
        print("REJECTED: the harness died (see the Crash record in %s)" % path)
        return 1
    rejects, _ = vlib.tlc_validate_sharded(TRACE, events, shards=1, tag="c05replay")
    for r in rejects:
        print("REJECTED line %d: %s" % (r["line"], r["msg"]))
    return 1 if rejects else 0
