"""C07 - compiled stylesheets and parsed sources can be shared by concurrent threads.
MC : MC_Sharing (SharingImpl = how Xalan's shared objects are really used, against Sharing = the protocol): every
     interleaving of 2-3 threads; the pre-built Xerces bridge and the native tree with IDs satisfy RaceFree, the on-demand
     bridge, the lazily created list sentinel and the unlocked string pool VIOLATE it (expected counterexamples).
RUN: harness/c07.cpp - transformer A builds everything inside an mmap arena, the arena is mprotect-ed (Freeze), N threads
     transform with their own transformers; every store into the arena is trapped (SIGSEGV + single-step), with the
     thread's count of held mutexes (interposed pthread_mutex_*).  Outputs are compared with a sequential reference
     computed by a forked child that shares nothing.
TV : Trace_C07.tla rejects an unlocked store into a frozen object and any output differing from the sequential one.
A rejected store is classified by its semantic call-site signature (source kind + first non-container xalanc:: function
on the stack); only the signatures listed in known_findings map to KNOWN-FINDING."""
import json, os, random, re, shutil, subprocess
from concurrent.futures import ThreadPoolExecutor
import vlib
from vlib import ROOT

PROP = "C07"
MC = os.path.join(ROOT, "spec/mc/MC_Sharing.tla")
TRACE = os.path.join(ROOT, "spec/trace/Trace_C07.tla")
CORPUS = os.path.join(ROOT, "corpus", "c07")
LIBS = ["-ldl", "-lpthread"]

# cfg -> invariant TLC must report as violated (None: the run must be clean)
MC_RUNS = [("prebuilt", None), ("native_ids", None), ("reach", "NeverJoined"),
           ("ondemand", "RaceFree"), ("ondemand_cons", None), ("ondemand_out", "OutputsSequential"),
           ("sentinel", "RaceFree"), ("sentinel_cons", None),
           ("poolunlocked", "RaceFree"), ("poolunlocked_cons", None),
           ("staticscratch", "RaceFree"), ("staticscratch_out", "OutputsSequential"), ("staticscratch_cons", None)]

# (kind, schedule).  xerces-parse = XalanTransformer::parseSource(..., useXercesDOM=true): outside the property's
# "thread-safe mode" quantifier (DESIGN 7 #9); its threads run one after the other because running them concurrently
# crashes the process (the unsynchronised string pool) - the stores are trapped all the same.
SCRATCH_FAMILY = ["14-number-formats.xsl", "15-scratch-users.xsl", "16-messages.xsl"]
KINDS = [("native", "concurrent"), ("xerces-wrapper", "concurrent"), ("xerces-parse", "serial")]

# classes that only carry data for their owner: a store inside them belongs to the first function outside of them
GENERIC = ("XalanVector", "XalanList", "XalanMap", "XalanSet", "XalanDeque", "XalanDOMString", "XalanDOMStringAllocator",
           "XalanDOMStringHashTable", "XalanDOMStringPool", "ArenaAllocator", "ArenaBlock", "ArenaBlockBase",
           "ReusableArenaAllocator", "ReusableArenaBlock", "XalanAllocator", "XalanArrayAllocator", "XalanMemMgrAutoPtr",
           "XalanMemMgrAutoPtrArray", "XalanAutoPtr", "XalanBitmap", "XalanMemMgrs", "XalanObjectCache", "XalanObjectStackCache",
           "XalanMemoryManagerObjectCacheDefault", "XalanQNameByValueAllocator", "XalanDOMStringCache", "XalanDOMStringReusableAllocator")


def owner(ev):
    """semantic call-site signature of a recorded store: no addresses, no line numbers"""
    if ev.get("mod") == "xerces":                       # the store instruction is Xerces' own
        m = re.match(r"(xercesc::\w+)", ev.get("site", ""))
        return m.group(1) if m else "xercesc::?"
    for f in ev.get("frames", []):
        cls = f.split("::")[0]
        if cls not in GENERIC:
            return f
    fr = ev.get("frames", [])
    return fr[-1] if fr else "?" + ev.get("site", "?")


def key_of(kind, ev):
    """stores into the library's static data are shared by every thread whatever the source kind: kind "static" """
    return "%s:%s" % ("static" if ev.get("region") == "static" else kind, owner(ev))


# --------------------------------------------------------------------------------------------- corpus
def make_source(n_items, n_chapters, with_dtd, seed=7):
    """source document: catalog of items (id/sku/cat, name, price), references, chapters/sections/paras.
    with_dtd: an internal subset declares item/@id as ID (then id() finds elements and the ID index is not empty)"""
    rnd = random.Random(seed)
    words = ["apple", "Apple", "banana", "Banana", "cherry", "date", "Elder", "elder", "fig", "Grape", "grape", "honey", "iris", "Jade",
             "kiwi", "lemon", "Mango", "mango", "nut", "olive", "Pear", "quince", "rose", "Sage", "thyme", "ugli", "vanilla", "Walnut", "yam", "zest",
             "äpfel", "Öl", "zücchini", "éclair"]
    o = ['<?xml version="1.0" encoding="UTF-8"?>']
    if with_dtd:
        o.append('<!DOCTYPE doc [\n<!ATTLIST item id ID #REQUIRED>\n<!ATTLIST ref to IDREFS #IMPLIED>\n]>')
    o.append('<doc xml:lang="en">\n  <!-- generated source for C07 -->\n  <?proc instr one?>\n  <catalog>')
    for i in range(1, n_items + 1):
        w = words[(i * 7) % len(words)]
        o.append('    <item id="i%d" sku="S%03d" cat="%s"><name>%s%s</name><price>%s</price></item>' % (
            i, i, "abcd"[(i * i) % 4], w, "" if i <= len(words) else str(i % 5), "%.2f" % (rnd.randint(100, 9999) / 100.0)))
        if i % 9 == 0:
            o.append('    <ref to="i%d%s" href="lookup%s.xml"/>' % (i // 3 + 1, " i2" if i % 2 else "", "" if i % 2 else "2"))
    o.append('  </catalog>')
    for c in range(1, n_chapters + 1):
        o.append('  <chapter title="c%d">' % c)
        for s in range(1, 4):
            o.append('    <section n="%d">' % s)
            for p in range(1, 2 + (c + s) % 4):
                lang = ' xml:lang="de"' if (c + s + p) % 5 == 0 else ''
                o.append('      <para%s>text %d.%d.%d %s</para>  ' % (lang, c, s, p, " ".join(rnd.choice(words) for _ in range(rnd.randint(2, 9)))))
            o.append('      <note>   </note>\n    </section>')
        o.append('  </chapter>')
    o.append('</doc>')
    return "\n".join(o) + "\n"


HEADER = ('<?xml version="1.0" encoding="UTF-8"?>\n<xsl:stylesheet version="1.0" xmlns:xsl="http://www.w3.org/1999/XSL/Transform"\n'
          '  xmlns:xalan="http://xml.apache.org/xalan" xmlns:exsl="http://exslt.org/common"\n'
          '  xmlns:set="http://exslt.org/sets" xmlns:math="http://exslt.org/math" xmlns:str="http://exslt.org/strings"\n'
          '  xmlns:dyn="http://exslt.org/dynamic" xmlns:data="urn:c07:data"\n'
          '  exclude-result-prefixes="xalan exsl set math str dyn data">\n')


def base_stylesheets(d):
    return sorted(f for f in os.listdir(d) if re.match(r"\d\d-.*\.xsl$", f))


def parts(path):
    t = open(path, encoding="utf8").read()
    imp = re.search(r"<!--IMPORT-->(.*?)<!--/IMPORT-->", t, re.S)
    decl = re.search(r"<!--DECL-->(.*?)<!--/DECL-->", t, re.S)
    name = re.search(r'<xsl:template name="(f-[\w-]+)"', t)
    return (imp.group(1) if imp else ""), decl.group(1), name.group(1)


def compose(d, files, dest):
    """one stylesheet out of the facility fragments of `files` (their order = order of the calls)"""
    ps = [parts(os.path.join(d, f)) for f in files]
    t = HEADER + "".join(p[0] for p in ps) + '<xsl:output method="xml" indent="no" encoding="UTF-8"/>\n'
    t += "".join(p[1] for p in sorted(ps, key=lambda p: p[2]))
    t += '<xsl:template match="/"><out>' + "".join('<xsl:call-template name="%s"/>' % p[2] for p in ps) + "</out></xsl:template>\n</xsl:stylesheet>\n"
    with open(os.path.join(d, dest), "w", encoding="utf8") as f:
        f.write(t)


def facilities(path):
    t = open(path, encoding="utf8").read()
    fs = []
    for name, pat in (("key", r"xsl:key|key\("), ("number", r"xsl:number"), ("document", r"document\("), ("format-number", r"format-number|decimal-format"),
                      ("sort-lang", r"xsl:sort[^>]*lang="), ("id", r"\bid\("), ("rtf", r"xalan:nodeset|exsl:node-set"), ("exslt", r"set:|math:|str:|dyn:"),
                      ("strip-space", r"xsl:strip-space"), ("attribute-set", r"attribute-set"), ("call-template", r"call-template"),
                      ("copy-of", r"xsl:copy-of"), ("import", r"xsl:import|xsl:include"),
                      ("number-formats", r'format="(a|A|i|I|0+1)"'), ("generate-id", r"generate-id\(")):
        if re.search(pat, t):
            fs.append(name)
    return fs


# ------------------------------------------------------------------------------------------------ run
def model_checking(res, tier, wd):
    def one(item):
        cfgname, expect = item
        cfg = os.path.join(ROOT, "spec/mc/MC_Sharing_%s.cfg" % cfgname)
        if tier == "thorough" and expect is None and cfgname != "reach":
            # deeper: every worker may run two transformations
            t = open(cfg).read().replace("MaxRuns = 1", "MaxRuns = 2")
            cfg = os.path.join(wd, "MC_Sharing_%s_deep.cfg" % cfgname)
            open(cfg, "w").write(t)
        return vlib.tlc(MC, cfg, workers=(2 if expect is None else 1), name="c07mc" + cfgname, timeout=1500, xmx="2g", extra=["-noGenerateSpecTE"])
    with ThreadPoolExecutor(max_workers=5) as ex:
        runs = list(ex.map(one, MC_RUNS))
    for (cfgname, expect), r in zip(MC_RUNS, runs):
        violated = re.findall(r"Invariant (\w+) is violated", r["out"])
        if expect is None:
            if not r["ok"]:
                raise vlib.Infra("MC_Sharing/%s: expected a clean run, TLC said rc=%s %s\n%s" % (cfgname, r["rc"], violated, r["out"][-2500:]))
        else:
            if r["rc"] != 12 or violated != [expect]:
                raise vlib.Infra("MC_Sharing/%s: the expected counterexample to %s did not appear (rc=%s %s)\n%s" % (cfgname, expect, r["rc"], violated, r["out"][-2500:]))
            steps = len(re.findall(r"^State \d+:", r["out"], re.M))
            res.notes.setdefault("expected_counterexamples", []).append({"model": cfgname, "invariant": expect, "trace_states": steps})
        res.add_mc(r, "MC_Sharing/" + cfgname + ("" if expect is None else " (expected violation of %s)" % expect))


def run_case(exe, d, case):
    kind, sched, xsl, xml, threads, iters = case
    cmd = [exe, kind, xsl, xml, str(threads), str(iters)] + (["serial"] if sched == "serial" else [])
    try:
        r = subprocess.run(cmd, cwd=d, capture_output=True, text=True, timeout=600)
        rc, out, err = r.returncode, r.stdout, r.stderr
    except subprocess.TimeoutExpired as ex:
        rc, out, err = 124, (ex.stdout or b"").decode("utf8", "replace") if isinstance(ex.stdout, bytes) else (ex.stdout or ""), "time-out"
    events = []
    for line in out.splitlines():
        line = line.strip()
        if line.startswith("{"):
            try:
                events.append(json.loads(line))
            except ValueError:
                pass
    return rc, events, err


def run(res, tier, seed):
    quick = tier == "quick"
    import time
    wd = vlib.workdir("c07-%d" % os.getpid())
    t0 = time.time()
    model_checking(res, tier, wd)
    t1 = time.time()

    # ---- corpus: the facility stylesheets, their composition, (thorough) seeded compositions and larger sources
    d = os.path.join(wd, "corpus")
    shutil.copytree(CORPUS, d)
    base = base_stylesheets(d)
    compose(d, base, "90-all.xsl")
    sheets = base + ["90-all.xsl"]
    small = ["plain.xml", "ids.xml"]
    rnd = random.Random(seed)
    # threads x transformations per thread.  xerces-parse runs serially, where more threads add nothing, and every text
    # read of it faults (Xerces re-terminates its buffers): 2 x 1 on the small sources
    if quick:
        plan = {"native": (4, 2, small), "xerces-wrapper": (4, 2, small), "xerces-parse": (2, 1, small)}
    else:
        mid, big = [], []
        for n, (items, chapters, bucket) in enumerate(((300, 12, mid), (900, 30, big))):
            for dtd in (False, True):
                name = "gen%d-%s.xml" % (n, "ids" if dtd else "plain")
                open(os.path.join(d, name), "w", encoding="utf8").write(make_source(items, chapters, dtd, seed=seed + n))
                bucket.append(name)
        plan = {"native": (16, 3, small + mid + big), "xerces-wrapper": (8, 2, small + mid), "xerces-parse": (2, 1, small)}
        for i in range(200 - len(sheets)):
            pick = rnd.sample(base, rnd.randint(2, 6))
            name = "gen-%03d.xsl" % i
            compose(d, pick, name)
            sheets.append(name)
    cases = []
    for xsl in sheets:
        for kind, sched in KINDS:
            threads, iters, srcs = plan[kind]
            if xsl.startswith("gen-"):
                srcs = rnd.sample(srcs, 2 if len(srcs) > 2 else 1)
            for xml in srcs:
                cases.append((kind, sched, xsl, xml, threads, iters))
    # per-call scratch users over a 1200-item source, natively and with real concurrency: a race on scratch state that
    # lives where no store is trapped still changes some of the 24 (quick) / 96 (thorough) outputs
    for xsl in SCRATCH_FAMILY:
        cases.append(("native", "concurrent", xsl, "large.xml") + ((8, 3) if quick else (16, 6)))
    exe = vlib.build_harness("c07", libs=LIBS)
    workers = max(2, min(8, vlib.NCPU // (2 if quick else 4)))
    lib = os.path.join(os.path.dirname(exe), "src", "xalanc", "libxalan-c.so")
    stamp = os.stat(os.path.realpath(lib)).st_mtime_ns
    with ThreadPoolExecutor(max_workers=workers) as ex:
        results = list(ex.map(lambda c: run_case(exe, d, c), cases))
    if os.stat(os.path.realpath(lib)).st_mtime_ns != stamp:
        raise vlib.Infra("libxalan-c.so was rebuilt by somebody else while the cases were running: no verdict, run again")
    res.cov["evaluations"] = len(cases)
    t2 = time.time()

    # ---- trace: per case one execution with the protocol events, and one execution per distinct store signature
    known = {k["key"]: k for k in vlib.known_findings(PROP)}
    events, origin = [], []          # origin[i] = (case index, "main" | store event) for execution i
    stats = {"locked_store_sites": {}, "unlocked_store_sites": {}, "faults": 0, "post_freeze_allocations": 0, "lock_calls": 0}
    crashed = set()
    for ci, (case, (rc, evs, err)) in enumerate(zip(cases, results)):
        kind = case[0]
        label = "%s %s %s" % (kind, case[2], case[3])
        dead = rc != 0 or not evs or evs[-1].get("e") != "Join"
        if dead:
            if rc == 4 or rc == 2:
                raise vlib.Infra("harness %s: %s" % (label, err[-500:]))
            crashed.add(ci)
            tail = [] if evs and evs[-1].get("e") == "Crash" else [{"e": "Crash", "rc": rc}]
            res.violation("harness terminated abnormally while threads shared %s (rc=%s): %s" % (label, rc, err.strip()[-300:]),
                          [e for e in evs if e["e"] != "Write"] + tail)
        else:
            if evs[-1].get("dropped"):
                raise vlib.Infra("harness %s: event buffer overflow" % label)
            stats["faults"] += evs[-1].get("faults", 0)
            stats["post_freeze_allocations"] += evs[-1].get("postFreezeAllocs", 0)
            stats["lock_calls"] += evs[-1].get("lockCalls", 0)
        head = [e for e in evs if e["e"] in ("Reset", "Seq", "Build", "Freeze")]
        if not dead:       # a crashed run is reported as such; the stores it recorded before are still validated
            main = [e for e in evs if e["e"] != "Write"]
            origin.append((ci, "main")); events += main
        reps = {}
        for e in evs:
            if e["e"] == "Write":
                sig = (e["obj"], e["locks"] >= 1, key_of(kind, e))
                reps.setdefault(sig, e)
                bucket = stats["locked_store_sites" if e["locks"] >= 1 else "unlocked_store_sites"]
                bucket[key_of(kind, e)] = bucket.get(key_of(kind, e), 0) + 1
        for sig in sorted(reps, key=str):
            e = reps[sig]
            origin.append((ci, e))
            events += head + [{"e": "Start", "thread": e["thread"]}, e]
    rejects, st = vlib.tlc_validate_sharded(TRACE, events, tag="c07tv") if events else ([], {"tv_states": 0})
    res.notes["tv_states"] = st["tv_states"]
    res.notes["phase_wall_s"] = {"mc": round(t1 - t0, 1), "build+run": round(t2 - t1, 1), "tv": round(time.time() - t2, 1)}
    execs = vlib.split_executions(events)
    assert len(execs) == len(origin)
    starts, pos = [], 0
    for ex_ in execs:
        starts.append(pos); pos += len(ex_)
    import bisect
    bad_cases = set(crashed)
    rejected_cases = set()
    seen_known = set()
    for rj in sorted(rejects, key=lambda r: r["line"]):
        xi = bisect.bisect_right(starts, rj["line"]) - 1
        ci, what = origin[xi]
        ex_ = execs[xi]; k = rj["line"] - starts[xi]
        ev = ex_[k]
        kind = cases[ci][0]
        if ev.get("e") == "Write" and what != "main":
            key = key_of(kind, ev)
            if key in known:
                rejected_cases.add(ci)
                if (ci, key) not in seen_known:
                    seen_known.add((ci, key))
                    res.known(known[key])
                continue
        bad_cases.add(ci)
        res.violation("%s %s %s: %s" % (kind, cases[ci][2], cases[ci][3], rj["msg"][:400]), ex_[:k + 1])
    res.cov["traces_validated_against_impl"] = len(cases) - len(bad_cases | rejected_cases)   # accepted without any rejection

    # ---- coverage
    nt, facs = set(), set()
    for ci, (case, (rc, evs, err)) in enumerate(zip(cases, results)):
        seq = next((e for e in evs if e["e"] == "Seq"), None)
        dones = [e for e in evs if e["e"] == "Done"]
        if seq and seq.get("rc") == 0 and seq.get("len", 0) >= 100 and len(dones) == case[4] * case[5]:
            nt.add((case[0], case[3], seq["outHash"]))
            facs.update(facilities(os.path.join(d, case[2])))
    res.cov["distinct_nontrivial"] = len(nt)
    res.cov["rule"] = ("case = (source kind, stylesheet, source document) run with %d threads x %d transformations each on one compiled stylesheet and one "
                       "parsed source built by another transformer inside a write-protected arena; stylesheets = one per lazily initialised facility, "
                       "their composition%s; non-trivial = the sequential reference succeeded with >= 100 bytes of output and all thread results were "
                       "recorded; distinct by (source kind, source document, hash of the sequential output)" % (
                           plan["native"][0], plan["native"][1], "" if quick else ", 186 seeded compositions of 2-6 facilities (VERIF_SEED) and four generated larger sources"))
    res.notes["facilities_touched"] = sorted(facs)
    res.notes["cases_by_kind"] = {k: sum(1 for c in cases if c[0] == k) for k, _ in KINDS}
    res.notes["threads_x_transformations"] = {k: "%d x %d" % (v[0], v[1]) for k, v in plan.items()}
    res.notes["store_observation"] = stats
    for ci in (0, len(cases) // 2, len(cases) - 1):
        evs = results[ci][1]
        res.sample([e for e in evs if e["e"] != "Write"][:14] + [e for e in evs if e["e"] == "Write"][:2])
    res.assumptions += [
        "only stores into memory obtained from transformer A's MemoryManager are observed: C++ statics, Xerces' own heap (the DOM wrapped in thread-safe mode) and anything allocated with another manager are outside the arena",
        "reads are not observed: a locked store paired with an unlocked read elsewhere is not detected, and 'some mutex is held' is taken for 'the guarding mutex is held'",
        "pthread_mutex_lock/trylock/unlock interposed in the harness executable see every mutex operation of libxalan-c and libxerces-c (self-checked per run: lock calls > 0, a probe store is trapped)",
        "call-site signatures come from dladdr on the unwound stack of the -O1 build: inlined functions do not appear, the signature is the first non-container xalanc:: function",
        "XalanTransformer::parseSource(useXercesDOM=true) is run with its threads one after the other (concurrently it crashes); its stores are reported under separate known-finding keys",
    ]
    shutil.rmtree(wd, ignore_errors=True)


def replay(path):
    events = vlib.read_ndjson(path)
    if events and events[-1].get("e") == "Crash":
        print("REJECTED: the harness terminated abnormally (rc=%s) after %d events" % (events[-1].get("rc"), len(events) - 1))
        return 1
    rejects, _ = vlib.tlc_validate_sharded(TRACE, events, shards=1, tag="c07replay")
    for r in rejects:
        print("REJECTED line %d: %s" % (r["line"], r["msg"]))
    return 1 if rejects else 0
