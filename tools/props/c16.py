"""C16 - xsl:sort yields a stable permutation ordered by its keys; position()/last() reflect the sorted order.
MC : MC_Sort.tla - the ordering definition (Sort.tla) is a stable lexicographic total order, NaN first.
GEN: seeded documents whose elements carry key values as attributes/text, 1-3 xsl:sort keys (data-type, order as
     literal or AVT), in xsl:for-each and in xsl:apply-templates.
RUN: harness/xslt.cpp; the body records position() and last() per processed node through xsl:variable select events.
TV : Trace_C16.tla - processing order and positions equal Sort!Sorted."""
import os, random, json, subprocess
from xml.sax.saxutils import quoteattr
import vlib, xdm, xpgen
from xpgen import *
from vlib import ROOT
from props import c02

PROP = "C16"
TRACE = os.path.join(ROOT, "spec/trace/Trace_C16.tla")
XSLNS = 'xmlns:xsl="http://www.w3.org/1999/XSL/Transform"'
NUMV = ["", "x", "-1", "0", "-0", "1", "2", "10", "1.5", "0.5", " 2 ", "-2.5", "100"]
TXTV = ["", "a", "b", "ab", "b1", "1", "10", "2", "aa", "ba"]


def gen_doc(rng, long_=False):
    """long_: 17-70 siblings with two or three different values per key - many ties, and more nodes than any small-list
    special case of a sorting routine (introsort finishes runs of <= 16 with a stable insertion sort)"""
    n = rng.randint(17, 70) if long_ else rng.randint(0, 7)
    numv = rng.sample(NUMV, 3) if long_ else NUMV
    txtv = rng.sample(TXTV[:5], 2) if long_ else TXTV[:5]
    kids = []
    for i in range(n):
        attrs = [xdm.A("k1", rng.choice(numv)), xdm.A("k2", rng.choice(txtv)), xdm.A("k3", rng.choice(numv[:2] if long_ else NUMV[:6]))]
        rng.shuffle(attrs)
        attrs = attrs[:rng.randint(1, 3)]
        name = rng.choice(["e", "e", "e", "f"])
        ch = [xdm.T(rng.choice(TXTV))] if rng.random() < 0.5 else []
        kids.append(xdm.E(name, *[c for c in ch if c["v"]], a=attrs))
        if rng.random() < 0.2:
            kids.append(xdm.T(" "))
    return xdm.R(xdm.E("r", *kids))


def gen_keys(rng):
    ks = []
    for _ in range(rng.choice([1, 1, 2, 2, 3])):
        dt = rng.choice(["number", "text"])
        if dt == "number":
            sel = rng.choice([path([step("attribute", t_name("k1"))]), path([step("attribute", t_name("k3"))]), fn("string-length", path([step("self", T_NODE)])),
                              bin_("-", num(0), path([step("attribute", t_name("k1"))])), fn("position"), fn("count", path([step("attribute", T_ANY)])),
                              # keys that are not numbers as objects: the key is the STRING of the value, converted to a number (a boolean is NaN, an infinity too)
                              bin_(">", path([step("attribute", t_name("k1"))]), num(2)), fn("boolean", path([step("attribute", t_name("k3"))])),
                              bin_("div", bin_("-", path([step("attribute", t_name("k1"))]), num(2)), num(0))])
        else:
            sel = rng.choice([path([step("attribute", t_name("k2"))]), path([step("self", T_NODE)]), fn("name"), fn("concat", path([step("attribute", t_name("k2"))]), lit("a")),
                              path([step("attribute", t_name("k1"))]) if False else path([step("attribute", t_name("k2"))])])
        ks.append({"sel": sel, "dtype": dt, "desc": rng.random() < 0.4})
    return ks


def render(keys, form, select, avt):
    sorts = ""
    for i, k in enumerate(keys):
        order = "descending" if k["desc"] else "ascending"
        if avt and i == 0:
            sorts += '<xsl:sort select=%s data-type="{$dt}" order="{$ord}"/>' % quoteattr(xpgen.render(k["sel"]))
        else:
            sorts += '<xsl:sort select=%s data-type="%s" order="%s"/>' % (quoteattr(xpgen.render(k["sel"])), k["dtype"], order)
    body = '<xsl:variable name="p" select="position()"/><xsl:variable name="l" select="last()"/>'
    lines = ['<xsl:stylesheet version="1.0" %s>' % XSLNS]
    if avt:
        lines.append('<xsl:variable name="dt" select="\'%s\'"/><xsl:variable name="ord" select="\'%s\'"/>' % (keys[0]["dtype"], "descending" if keys[0]["desc"] else "ascending"))
    if form == "for-each":
        lines.append('<xsl:template match="/"><xsl:for-each select=%s>%s%s</xsl:for-each></xsl:template>' % (quoteattr(select), sorts, body))
    else:
        lines.append('<xsl:template match="/"><xsl:apply-templates select=%s mode="s">%s</xsl:apply-templates></xsl:template>' % (quoteattr(select), sorts))
        lines.append('<xsl:template match="node()|@*" mode="s">%s</xsl:template>' % body)
    lines.append('</xsl:stylesheet>')
    return "\n".join(lines) + "\n"


def run(res, tier, seed):
    rng = random.Random(seed)
    quick = tier == "quick"
    wd = vlib.workdir("c16-%d" % os.getpid())
    cfg = os.path.join(wd, "MC_Sort.cfg")
    open(cfg, "w").write("SPECIFICATION Spec\nCONSTANT MaxN = %d\nINVARIANT Inv\n" % (3 if quick else 4))
    r = vlib.tlc_mc(os.path.join(ROOT, "spec/mc/MC_Sort.tla"), cfg, name="c16mc", timeout=3000)
    res.add_mc(r, "MC_Sort (stable lexicographic total order, NaN first)")
    # the implementation-shaped model: NodeSorter's multi-key comparison with its per-key, per-position caches and "not evaluated" marker
    # values, driving a stable sort = the definition; "less" is a strict weak ordering; a key is evaluated once per node
    cfg2 = os.path.join(wd, "MC_SortImpl.cfg")
    open(cfg2, "w").write("SPECIFICATION Spec\nCONSTANTS MaxN = 3\n Full = %s\nINVARIANT Inv\nCHECK_DEADLOCK FALSE\n" % ("FALSE" if tier == "quick" else "TRUE"))
    r2 = vlib.tlc_mc(os.path.join(ROOT, "spec/mc/MC_SortImpl.tla"), cfg2, name="c16mcimpl", timeout=3000, extra=["-noGenerateSpecTE"])
    res.add_mc(r2, "MC_SortImpl (SortImpl: NodeSorter's cached multi-key comparison + stable sort = XSLT 10 for every key-value assignment to <= 3 nodes, 1-2 keys; strict weak ordering; caches honest; one evaluation per key and node)")
    ndocs = 40 if quick else 400
    docs = [gen_doc(rng, long_=(k % 8 == 7)) for k in range(ndocs)]
    flats = [xdm.flatten(t) for t in docs]
    ncases = 1200 if quick else 30000
    cases, metas = [], []
    for k in range(ncases):
        d = rng.randrange(ndocs)
        keys = gen_keys(rng)
        form = rng.choice(["for-each", "apply"])
        select = rng.choice(["r/*", "r/e", "r/node()", "//e | //f", "r/e/@*", "r/*[@k1]"])
        cdir = os.path.join(wd, "case%d" % k)
        os.makedirs(cdir)
        open(os.path.join(cdir, "main.xsl"), "w").write(render(keys, form, select, rng.random() < 0.25))
        open(os.path.join(cdir, "in.xml"), "w").write(xdm.render_xml(docs[d]))
        cases.append({"id": k, "dir": cdir, "trace": "none", "select": True})
        metas.append((d, keys, form, select))
    exe = vlib.build_harness("xslt")
    nsh = vlib.NCPU
    procs = []
    for s in range(nsh):
        ch = cases[s::nsh]
        if ch:
            cp = os.path.join(wd, "cases-%d.ndjson" % s)
            vlib.write_ndjson(cp, ch)
            rp = os.path.join(wd, "trace-%d.ndjson" % s)
            procs.append((ch, rp, subprocess.Popen([exe, cp], stdout=open(rp, "w"), stderr=subprocess.PIPE)))
    events, nontriv = [], set()
    for ch, rp, p in procs:
        _, err = p.communicate(timeout=3000)
        by_id, cur = {}, None
        for ev in vlib.read_ndjson(rp):
            if ev["e"] == "Reset":
                cur = by_id.setdefault(ev["id"], [])
            cur.append(ev)
        for c in ch:
            d, keys, form, select = metas[c["id"]]
            sample = {"xml": xdm.render_xml(docs[d]), "xsl": open(os.path.join(c["dir"], "main.xsl")).read()}
            evs = by_id.get(c["id"])
            if not evs or evs[-1]["e"] != "Done":
                res.violation("transformation process died (rc=%s): %s" % (p.returncode, (err or b"").decode()[-300:]), [sample]); continue
            if evs[-1]["status"] != 0:
                res.violation("error-free stylesheet failed: %s" % evs[-1]["msg"][:200], [sample]); continue
            sel = [e for e in evs if e["e"] == "S" and e["el"] in ("xsl:for-each", "xsl:apply-templates") and e["val"]["t"] == "ns"]
            vs = [e for e in evs if e["e"] == "S" and e["el"] == "xsl:variable" and e["line"] != 2 or (e["e"] == "S" and e["el"] == "xsl:variable" and e["val"]["t"] == "num")]
            vs = [e for e in vs if e["val"]["t"] == "num"]
            if len(sel) != 1 or len(vs) % 2:
                raise vlib.Infra("unexpected selection events in case %d" % c["id"])
            seq = []
            for i in range(0, len(vs), 2):
                pe, le = vs[i], vs[i + 1]
                if pe["node"] != le["node"] or pe["val"]["v"]["k"] != "fin":
                    raise vlib.Infra("position/last events out of step")
                seq.append([[d + 1, pe["node"][1], 0], pe["val"]["v"]["m"] // 8, le["val"]["v"]["m"] // 8])
            ev = {"e": "Sort", "doc": d + 1, "ctx": 1, "sel": [[d + 1, x[1], 0] for x in sel[0]["val"]["v"]],
                  "keys": [{"sel": xpgen.strip_render_only(k["sel"]), "dtype": k["dtype"], "desc": k["desc"]} for k in keys], "seq": seq, "sample": sample}
            events.append(ev)
            if len(seq) >= 3 and [x[0] for x in seq] != ev["sel"]:
                nontriv.add(vlib.canon_hash([sample["xml"], sample["xsl"]]))
    res.cov["evaluations"] = len(events)
    dpath = os.path.join(wd, "docs.ndjson")
    vlib.write_ndjson(dpath, flats)
    rejects, st = vlib.tlc_validate_sharded(TRACE, events, tag="c16tv", env={"DOCS": dpath}, stateless=True, timeout=3000)
    known = {x["key"]: x for x in vlib.known_findings(PROP)}
    for rj in rejects:
        ev = events[rj["line"]]
        res.violation(rj["msg"][:300], [ev])
    res.notes["dropped_outside_number_domain"] = st["dropped"]
    res.cov["traces_validated_against_impl"] = len(events) - len(rejects) - st["dropped"]
    res.cov["distinct_nontrivial"] = len(nontriv)
    res.cov["rule"] = ("seeded documents of 0-7 sibling elements (every 8th: 17-70 siblings with 2-3 values per key, so ties abound and no small-list path of the sorting routine applies) carrying numeric (incl. '', NaN strings, -0, decimals) and text ([a-z0-9]*) key values; 1-3 xsl:sort keys "
                       "(text/number, ascending/descending, literal or AVT attributes, keys using position()) in xsl:for-each and xsl:apply-templates over 6 select forms; "
                       "non-trivial = at least 3 nodes and the processing order differs from document order; distinct by (document, stylesheet)")
    for ev in events[:3]:
        res.sample({"xml": ev["sample"]["xml"], "xsl": ev["sample"]["xsl"], "seq": ev["seq"]})
    res.assumptions += ["text keys are restricted to [a-z0-9]* so that code-point order and the build's collation agree; case-order and lang are not exercised",
                        "numeric keys outside the dyadic domain are dropped (counted)"]


def replay(path):
    raise vlib.Infra("replay needs the document set of the run; re-run tools/check C16 with the same VERIF_SEED")
