"""C19 - pluggable memory manager: balanced use, and allocation failure is survivable.
MC : MC_MemMgr (the contract MemMgr.tla: consistency of the guards, never stuck whatever request is refused,
     run-compressed = single-step operators, every action taken) and MC_ListSentinel (XalanList's lazily allocated
     sentinel composed with unwinding: the repaired list refines the contract, the list as written reaches
     std::terminate - the named KnownDeviation behind the known findings).
GEN: scenarios (compile, parse, transform from streams/files, compiled+parsed, failing transformations, destroy,
     process-level initialize/terminate on the supplied manager) + every realisable call history of MC_MemMgr's state
     graph up to MaxCalls calls; a counting run measures N = number of allocate() requests of each scenario.
RUN: harness/c19.cpp runs every (scenario, k), k in 0..N (or a stride of it), in its own child process on a recording
     manager whose k-th request throws xercesc::OutOfMemoryException (what XalanMemoryManagerDefault throws), then
     destroys the transformer, discards the manager and runs a Probe transformation on a fresh one.
TV : Trace_C19.tla accepts an execution iff it is a behaviour of MemMgr.tla (no foreign/double free, nothing
     outstanding at destruction unless a request was refused, a refused request surfaces as error/exception,
     no std::terminate / signal, Probe result right).  A rejected TERMINATE execution whose call-site signature
     (top 3 library frames at the refused request) is listed in known_findings is a KNOWN-FINDING; everything else
     rejected is a VIOLATION."""
import collections, json, os, re, subprocess, time
from concurrent.futures import ThreadPoolExecutor
import vlib, tlaparse
from vlib import ROOT

PROP = "C19"
LEVEL = "fault_enumeration"
MC_MM = os.path.join(ROOT, "spec/mc/MC_MemMgr.tla")
MC_LS = os.path.join(ROOT, "spec/mc/MC_ListSentinel.tla")
TRACE = os.path.join(ROOT, "spec/trace/Trace_C19.tla")

# ------------------------------------------------------------------------------------------ inputs
XSLNS = "xmlns:xsl='http://www.w3.org/1999/XSL/Transform'"
XML_SMALL = "<doc><item>a</item><item>b</item></doc>"
XSL_SMALL = ("<xsl:stylesheet version='1.0' %s><xsl:output method='xml'/><xsl:template match='/'><out><xsl:for-each "
             "select='doc/item'><i><xsl:value-of select='.'/></i></xsl:for-each></out></xsl:template></xsl:stylesheet>" % XSLNS)
XML_RICH = ("<?xml version='1.0'?><!-- c --><doc xmlns:p='urn:p' id='r'><?pi x?><item n='3' g='x'>c<sub/>t</item><item n='1' g='y'>a</item>"
            "<item n='2' g='x'>b</item><p:q xml:lang='en'> <![CDATA[<&>]]> </p:q></doc>")
XSL_RICH = ("<xsl:stylesheet version='1.0' %s xmlns:p='urn:p' exclude-result-prefixes='p'>"
            "<xsl:output method='xml' indent='yes' encoding='UTF-8'/><xsl:strip-space elements='*'/>"
            "<xsl:key name='g' match='item' use='@g'/><xsl:param name='par' select='\"dflt\"'/>"
            "<xsl:variable name='rtf'><a><b>1</b></a></xsl:variable>"
            "<xsl:attribute-set name='as'><xsl:attribute name='s'>v</xsl:attribute></xsl:attribute-set>"
            "<xsl:decimal-format name='d' decimal-separator=','/>"
            "<xsl:template match='/'><out par='{$par}' xsl:use-attribute-sets='as'>"
            "<xsl:apply-templates select='doc/item'><xsl:sort select='@n' data-type='number' order='descending'/></xsl:apply-templates>"
            "<xsl:for-each select='key(\"g\",\"x\")'><k><xsl:number/></k></xsl:for-each>"
            "<xsl:call-template name='t'><xsl:with-param name='x' select='count(//item)'/></xsl:call-template>"
            "<xsl:copy-of select='$rtf'/><xsl:copy-of select='doc/p:q'/>"
            "<xsl:element name='e{1+1}'><xsl:comment>c</xsl:comment><xsl:processing-instruction name='p'>d</xsl:processing-instruction></xsl:element>"
            "<f><xsl:value-of select='format-number(1234.5, \"#.##0,00\", \"d\")'/></f>"
            "<xsl:message>note</xsl:message>"
            "<s><xsl:value-of select='translate(substring-after(string(doc/item[2]), \"\"), \"ab\", \"AB\")'/>"
            "<xsl:value-of select='sum(doc/item/@n) div 2'/><xsl:value-of select='generate-id(doc) = generate-id(//doc)'/></s>"
            "</out></xsl:template>"
            "<xsl:template match='item'><xsl:variable name='v' select='@n * 2'/><xsl:choose><xsl:when test='$v &gt; 2'><big n='{$v}'>"
            "<xsl:apply-templates/></big></xsl:when><xsl:otherwise><small><xsl:value-of select='.'/></small></xsl:otherwise></xsl:choose></xsl:template>"
            "<xsl:template match='sub'><xsl:if test='not(node())'><xsl:text>-</xsl:text></xsl:if></xsl:template>"
            "<xsl:template name='t'><xsl:param name='x'/><t><xsl:value-of select='$x'/></t></xsl:template>"
            "</xsl:stylesheet>" % XSLNS)
XSL_MESSAGE = ("<xsl:stylesheet version='1.0' %s><xsl:template match='/'><out><xsl:for-each select='doc/item'><i><xsl:value-of select='.'/></i>"
               "<xsl:if test='position()=2'><xsl:message terminate='yes'>stop</xsl:message></xsl:if></xsl:for-each></out></xsl:template></xsl:stylesheet>" % XSLNS)
XSL_XPATHERR = ("<xsl:stylesheet version='1.0' %s><xsl:template match='/'><out><i><xsl:value-of select='doc/item[1]'/></i>"
                "<xsl:value-of select='key(\"nokey\", \"a\")'/></out></xsl:template></xsl:stylesheet>" % XSLNS)
XSL_BAD = ("<xsl:stylesheet version='1.0' %s><xsl:template match='/'><out><xsl:value-of select='doc/item[1'/></out></xsl:template></xsl:stylesheet>" % XSLNS)
XML_BAD = "<doc><item>a</item><item>b</doc>"
XML_PI = "<?xml-stylesheet type='text/xsl' href='small.xsl'?>" + XML_SMALL

DATA_FILES = {"small.xml": XML_SMALL, "small.xsl": XSL_SMALL, "pi.xml": XML_PI}
CORPUS = os.path.join(ROOT, "corpus", "c19")        # stylesheets that xsl:import / xsl:include each other (need files: href is relative)


DATA_DIR = os.path.join(vlib.WORK, "c19-data")       # ONE fixed path: file names reach the library (system ids are hashed
                                                     # and copied), so a per-run path would make the allocation sequence vary


def write_data(wd=None):
    os.makedirs(DATA_DIR, exist_ok=True)
    files = dict(DATA_FILES)
    for n in sorted(os.listdir(CORPUS)):
        files[n] = open(os.path.join(CORPUS, n)).read()
    for n, t in files.items():
        p = os.path.join(DATA_DIR, n)
        if not os.path.exists(p) or open(p).read() != t:
            tmp = "%s.%d.tmp" % (p, os.getpid())
            open(tmp, "w").write(t)
            os.replace(tmp, p)


CREATE, DESTROY = {"api": "create"}, {"api": "destroy"}


def T(src, xsl, out="stream"):
    d = {"api": "transform", "src": src, "xsl": xsl, "out": out}
    if out == "file":
        d["outfile"] = "out.xml"
    return d


# name -> (mode, steps, tier it is swept completely in ("quick"/"thorough"), stride in the other tier)
SCENARIOS = collections.OrderedDict([
    ("create-destroy", ("inited", [CREATE, DESTROY], "quick")),
    ("compile", ("inited", [CREATE, {"api": "compile", "xsl": {"text": XSL_SMALL}, "as": "s"}, DESTROY], "quick")),
    ("parse", ("inited", [CREATE, {"api": "parse", "xml": {"text": XML_SMALL}, "as": "d"}, DESTROY], "quick")),
    ("streams", ("inited", [CREATE, T({"text": XML_SMALL}, {"text": XSL_SMALL}), DESTROY], "quick")),
    ("files", ("inited", [CREATE, T({"file": "small.xml"}, {"file": "small.xsl"}, "file"), DESTROY], "thorough")),
    ("compiled-parsed", ("inited", [CREATE, {"api": "compile", "xsl": {"text": XSL_SMALL}, "as": "s"},
                                    {"api": "parse", "xml": {"text": XML_SMALL}, "as": "d"},
                                    T({"parsed": "d"}, {"compiled": "s"}, "callback"), T({"parsed": "d"}, {"compiled": "s"}),
                                    {"api": "destroyStylesheet", "ref": "s"}, {"api": "destroyParsedSource", "ref": "d"}, DESTROY], "quick")),
    ("fail-message", ("inited", [CREATE, T({"text": XML_SMALL}, {"text": XSL_MESSAGE}), DESTROY], "quick")),
    ("fail-xpath", ("inited", [CREATE, T({"text": XML_SMALL}, {"text": XSL_XPATHERR}), DESTROY], "thorough")),
    ("fail-compile", ("inited", [CREATE, {"api": "compile", "xsl": {"text": XSL_BAD}, "as": "s"}, T({"text": XML_SMALL}, {"text": XSL_BAD}), DESTROY], "thorough")),
    ("fail-parse", ("inited", [CREATE, {"api": "parse", "xml": {"text": XML_BAD}, "as": "d"}, T({"text": XML_BAD}, {"text": XSL_SMALL}), DESTROY], "thorough")),
    ("rich", ("inited", [CREATE, {"api": "setParam", "name": "par", "expr": "'p'"}, T({"text": XML_RICH}, {"text": XSL_RICH}), DESTROY], "thorough")),
    ("xerces-dom", ("inited", [CREATE, {"api": "parse", "xml": {"text": XML_RICH}, "as": "d", "xerces": True},
                               T({"parsed": "d"}, {"text": XSL_SMALL}), DESTROY], "thorough")),
    ("pi-stylesheet", ("inited", [CREATE, T({"file": "pi.xml"}, {"pi": True}, "callback"), DESTROY], "thorough")),
    ("reuse", ("inited", [CREATE, T({"text": XML_SMALL}, {"text": XSL_MESSAGE}), T({"text": XML_SMALL}, {"text": XSL_SMALL}),
                          T({"text": XML_RICH}, {"text": XSL_SMALL}, "callback"), DESTROY], "thorough")),
    # xsl:import / xsl:include: the imported Stylesheet is a separately owned object while it is being compiled
    ("import", ("inited", [CREATE, {"api": "compile", "xsl": {"file": "imp_main.xsl"}, "as": "s"},
                           T({"file": "in.xml"}, {"compiled": "s"}), DESTROY], "quick")),
    ("import-bad-xpath", ("inited", [CREATE, {"api": "compile", "xsl": {"file": "imp_main_badxpath.xsl"}, "as": "s"}, DESTROY], "quick")),
    ("import-bad-element", ("inited", [CREATE, T({"file": "in.xml"}, {"file": "imp_main_badelem.xsl"}), DESTROY], "thorough")),
    ("include", ("inited", [CREATE, {"api": "compile", "xsl": {"file": "inc_main.xsl"}, "as": "s"},
                            T({"file": "in.xml"}, {"compiled": "s"}), DESTROY], "thorough")),
    # nested xsl:include (three levels, two includes in one module): the stack of module URIs and the include stack are vectors of
    # strings that grow - and are copied element by element - while inner modules are compiled
    ("include-nested", ("inited", [CREATE, {"api": "compile", "xsl": {"file": "inc3_main.xsl"}, "as": "s"},
                                   T({"file": "in.xml"}, {"compiled": "s"}), DESTROY], "quick")),
    ("include-bad-xpath", ("inited", [CREATE, {"api": "compile", "xsl": {"file": "inc_main_badxpath.xsl"}, "as": "s"}, DESTROY], "thorough")),
    # many value objects of every kind alive at once (arenas of several blocks, released out of creation order), exsl:node-set() of
    # strings / numbers / booleans / node-sets
    ("arenas", ("inited", [CREATE, T({"file": "arenas_in.xml"}, {"file": "arenas.xsl"}), DESTROY], "thorough")),
    ("init-terminate", ("raw", [{"api": "initialize"}, {"api": "terminate"}], "thorough")),
    ("shared-manager", ("raw", [{"api": "initialize"}, CREATE, T({"text": XML_SMALL}, {"text": XSL_SMALL}), DESTROY, {"api": "terminate"}], "thorough")),
])
# run-time failing transformations: one stylesheet per failure SITE (corpus/c19/rtfail-<site>.xsl), each failing while
# temporaries of a different instruction are alive; balanced use must hold on every one of them (k = 0) and under
# every refused request
RTFAIL_STRIDE_QUICK = 37
for _f in sorted(os.listdir(os.path.join(ROOT, "corpus", "c19"))):
    # rtfail-*: the transformation fails at that site; rtwarn-*: sites Xalan only warns about (or silently tolerates)
    if (_f.startswith("rtfail-") or _f.startswith("rtwarn-")) and _f.endswith(".xsl"):
        SCENARIOS[_f[:-4]] = ("inited", [CREATE, T({"file": "rt_in.xml"}, {"file": _f}), DESTROY], "thorough")

QUICK_STRIDE = {"import-bad-element": 5, "include": 7, "include-bad-xpath": 7, "files": 9, "fail-xpath": 11, "rich": 17, "shared-manager": 53, "init-terminate": 59, "reuse": 23, "arenas": 131}   # sampled in quick
ASAN_QUICK = {"streams": 7, "compiled-parsed": 13, "fail-message": 11, "import-bad-xpath": 5}          # scenario -> stride of k under ASan (quick)
ASAN_THOROUGH = {"import": 3, "import-bad-xpath": 1, "import-bad-element": 3, "include-bad-xpath": 3, "streams": 1, "compiled-parsed": 1, "fail-message": 1, "rich": 3, "shared-manager": 7, "fail-parse": 3, "fail-compile": 3}

USE_POOL = [T({"text": XML_SMALL}, {"text": XSL_SMALL}),
            {"api": "compile", "xsl": {"text": XSL_SMALL}, "as": "s"},
            {"api": "parse", "xml": {"text": XML_SMALL}, "as": "d"},
            T({"parsed": "d"}, {"compiled": "s"}, "callback"),
            T({"text": XML_SMALL}, {"text": XSL_MESSAGE}),
            T({"text": XML_BAD}, {"text": XSL_SMALL})]


# ------------------------------------------------------------------------------------------ MC
def mc_cfg(spec, nblocks, maxreq, maxcalls, gen=False):
    s = ["SPECIFICATION " + spec, "CONSTANTS", "  NBlocks = %d" % nblocks, "  MaxReq = %d" % maxreq, "  MaxCalls = %d" % maxcalls, "CONSTRAINT Bound"]
    if not gen:
        s += ["VIEW View", "INVARIANT Inv", "INVARIANT RunLemma", "PROPERTY StepIsContract", "POSTCONDITION AllTaken"]
    return "\n".join(s) + "\n"


def ls_cfg(lazy, walks, maxreq):
    s = ["SPECIFICATION Spec", "CONSTANTS", "  Objs <- Obj", "  Walks <- " + walks, "  Lazy = %s" % ("TRUE" if lazy else "FALSE"), "  B <- Blk",
         "  MaxReq = %d" % maxreq, "CONSTRAINT Bound", "INVARIANT OnlyTheDeviationKills", "INVARIANT ReturnedClean",
         "PROPERTY Refinement", "PROPERTY CleanupIsQuiet"]
    s += ["POSTCONDITION DeviationIsReal"] if lazy else ["INVARIANT NeverDead", "POSTCONDITION RepairedNotVacuous"]
    return "\n".join(s) + "\n"


def run_mc(res, wd, quick):
    nb, mr, mc = (3, 3, 5) if quick else (4, 4, 6)
    jobs = []
    cfg = os.path.join(wd, "mc_memmgr.cfg")
    open(cfg, "w").write(mc_cfg("Spec", nb, mr, mc))
    jobs.append((MC_MM, cfg, "c19mc", "MC_MemMgr NBlocks=%d MaxReq=%d MaxCalls=%d (all placements of the refused request)" % (nb, mr, mc)))
    for lazy in (False, True):
        for walks in ("WalksAll", "WalksMixed"):
            cfg = os.path.join(wd, "mc_ls_%s_%s.cfg" % (lazy, walks))
            open(cfg, "w").write(ls_cfg(lazy, walks, 4 if quick else 5))
            jobs.append((MC_LS, cfg, "c19ls%s%s" % (lazy, walks), "MC_ListSentinel Lazy=%s %s: %s" % (
                lazy, walks, "KnownDeviation reaches std::terminate (DeviationIsReal)" if lazy else "repaired list refines MemMgr, never terminates")))
    # POSTCONDITIONs read TLC registers: one worker per run; the runs themselves go in parallel
    with ThreadPoolExecutor(max_workers=len(jobs)) as ex:
        rs = list(ex.map(lambda j: vlib.tlc_mc(j[0], j[1], workers=1, deadlock=True, name=j[2], timeout=1500, extra=["-noGenerateSpecTE"]), jobs))
    for j, r in zip(jobs, rs):
        res.add_mc(r, j[3])


def gen_histories(wd, quick):
    """realisable call histories (all calls succeed) out of MC_MemMgr's state graph"""
    cfg = os.path.join(wd, "gen_memmgr.cfg")
    open(cfg, "w").write(mc_cfg("GenSpec", 1, 1, 5 if quick else 6, gen=True))
    dump = os.path.join(wd, "gen_memmgr")
    r = vlib.tlc(MC_MM, cfg, workers=1, deadlock=True, name="c19gen", timeout=1500, extra=["-dump", dump, "-noGenerateSpecTE"])
    if not r["ok"]:
        raise vlib.Infra("GEN failed: " + r["out"][-3000:])
    hs = set()
    for st in tlaparse.read_dump(dump + ".dump"):
        if st["s"]["done"]:
            hs.add(tuple(st["hist"]))
    out = []
    for h in sorted(hs):
        mode, calls = h[0], h[1:]
        proc, tr, ok = ("elsewhere" if mode == "inited" else "off"), "none", True
        for c in calls:                     # keep the histories in which no call needs to fail
            if c == "initialize":
                ok &= proc == "off" and tr != "alive"; proc = "on"
            elif c == "create":
                ok &= proc != "off" and tr != "alive"; tr = "alive"
            elif c == "use":
                ok &= tr == "alive"
            elif c == "destroy":
                ok &= tr == "alive"; tr = "gone"
            elif c == "terminate":
                ok &= proc == "on" and tr != "alive"; proc = "off"
        if ok and calls and tr != "alive" and proc != "on" and "create" in calls:
            out.append((mode, calls))
    scen = collections.OrderedDict()
    for n, (mode, calls) in enumerate(out):
        steps, u = [], n
        for c in calls:
            if c == "use":
                steps.append(USE_POOL[u % len(USE_POOL)]); u += 1
            else:
                steps.append({"api": c})
        scen["hist-%s-%s" % (mode, "".join(c[0] for c in calls))] = (mode, steps)
    return scen


# ------------------------------------------------------------------------------------------ RUN
HFLAGS = dict(extra_flags=["-rdynamic"], libs=["-ldl"])


def run_cases(exe, cases, wd, tag, mode, timeout):
    """run the harness over `cases` (list of dicts); returns list of per-execution file paths (in case order)"""
    out = os.path.join(wd, "out-" + tag)
    os.makedirs(out, exist_ok=True)
    cpath = os.path.join(wd, "cases-%s.ndjson" % tag)
    vlib.write_ndjson(cpath, cases)
    data = DATA_DIR
    env = dict(os.environ, ASAN_OPTIONS="detect_leaks=0:abort_on_error=0:allocator_may_return_null=1:handle_segv=0:handle_abort=0:handle_sigbus=0:handle_sigfpe=0:handle_sigill=0",
               UBSAN_OPTIONS="print_stacktrace=1:halt_on_error=1")
    jobs = max(2, vlib.NCPU)
    try:
        r = subprocess.run([exe, cpath, out, str(jobs), mode, data], capture_output=True, text=True, timeout=timeout, env=env)
    except subprocess.TimeoutExpired:
        raise vlib.Infra("harness sweep %s did not finish within %d s" % (tag, timeout))
    if r.returncode != 0 or r.stdout.strip() != str(len(cases)):
        raise vlib.Infra("harness sweep %s failed (rc=%d): %s" % (tag, r.returncode, (r.stderr or r.stdout)[-2000:]))
    paths = [os.path.join(out, "%d.nd" % i) for i in range(len(cases))]
    for p in paths:
        if not os.path.exists(p):
            raise vlib.Infra("harness wrote no trace for %s" % p)
    return paths


def request_count(path):
    """N of a counting run: the number of allocate() requests (from the DiscardManager event)"""
    for line in open(path):
        if line.startswith('{"e":"DiscardManager"'):
            return json.loads(line)["requests"]
    return None


# ------------------------------------------------------------------------------------------- TV
def validate_files(paths, tag, wd, shards=None):
    """concatenate the per-execution traces into shards, validate them in parallel.
    returns {index of execution: reject record (line relative to the execution)}, tv state count"""
    shards = max(1, min(shards or vlib.NCPU, (len(paths) + 19) // 20))
    per = (len(paths) + shards - 1) // shards
    jobs = []
    for s in range(shards):
        chunk = paths[s * per:(s + 1) * per]
        if not chunk:
            continue
        sp = os.path.join(wd, "tv-%s-%d.ndjson" % (tag, s))
        starts = []
        with open(sp, "w") as f:
            n = 0
            for p in chunk:
                txt = open(p).read()
                if not txt.endswith("\n") or '{"e":"Exit"' not in txt[-2500:]:
                    raise vlib.Infra("incomplete execution trace %s" % p)
                starts.append(n)
                f.write(txt)
                n += txt.count("\n")
        jobs.append((s * per, sp, starts))

    def one(job):
        base, sp, starts = job
        rej, r = vlib.tlc_validate(TRACE, sp, name="c19tv-%s-%s" % (tag, os.path.basename(sp)), timeout=3000)
        import bisect
        out = {}
        for x in rej:
            e = bisect.bisect_right(starts, x["line"] - 1) - 1
            out[base + e] = {"line": x["line"] - 1 - starts[e], "msg": x["msg"]}
        os.remove(sp)
        return out, r["generated"]

    rejects, gen = {}, 0
    with ThreadPoolExecutor(max_workers=len(jobs)) as ex:
        for o, g in ex.map(one, jobs):
            rejects.update(o); gen += g
    return rejects, gen


# ------------------------------------------------------------------------------ TV self-test
def tv_selftest(wd):
    """negative controls: the trace spec must accept a balanced execution and reject each kind of misbehaviour
    (guards against a vacuous Trace_C19 / MemMgr); raises Infra otherwise"""
    probe = {"e": "Probe", "code": 0, "exception": "none", "out": "<out n=\"2\"><i>1:a</i><i>2:b</i><k>b</k></out>", "outstanding": 0}

    def ex(fail_at=0, use=None, ret="ok", destroy=None, extra=None, probe_ev=None, exit_code=0, reclaimed=0):
        ev = [{"e": "Reset", "scenario": "selftest"}, {"e": "Start", "failAt": fail_at, "procInit": True},
              {"e": "Call", "api": "create"}, {"e": "Mem", "ops": [[1, 1, 3]]},
              {"e": "ApiReturn", "api": "create", "status": "ok", "code": 0, "exception": "none"},
              {"e": "Call", "api": "transform"}]
        ev += use if use is not None else [{"e": "Mem", "ops": [[1, 4, 5], [0, 5, 4]]}]
        ev += [{"e": "ApiReturn", "api": "transform", "status": ret, "code": 0, "exception": "none"}]
        ev += extra or []
        ev += [{"e": "Call", "api": "destroy"}] + (destroy if destroy is not None else [{"e": "Mem", "ops": [[0, 1, 2, 3]]}])
        ev += [{"e": "DestroyTransformer"}, {"e": "DiscardManager", "reclaimed": reclaimed, "requests": 5}, probe_ev or probe, {"e": "Done"},
               {"e": "Exit", "code": exit_code, "signal": 0, "stderr": ""}]
        return ev
    term = {"e": "Terminate", "kind": "std::terminate", "exception": "x", "frames": []}
    cases = [
        ("", ex()),
        ("", ex(fail_at=5, use=[{"e": "Mem", "ops": [[1, 4, 4]]}, {"e": "Fail", "k": 5, "size": 8, "frames": []}], ret="exception",
                destroy=[{"e": "Mem", "ops": [[0, 1, 2, 3]]}], reclaimed=1)),                                      # leak after a refusal: allowed
        ("DOUBLE-FREE", ex(use=[{"e": "Mem", "ops": [[1, 4, 5], [0, 5, 4, 4]]}])),
        ("DOUBLE-FREE", ex(destroy=[{"e": "Mem", "ops": [[0, 1, 2, 3]]}, {"e": "Mem", "ops": [[0, 2]]}])),
        ("DOUBLE-FREE", ex(use=[{"e": "Mem", "ops": [[1, 4, 5], [0, 5, 4]]}], destroy=[{"e": "Mem", "ops": [[0, 1, 2, 3, 5]]}])),
        ("FOREIGN-FREE", ex(use=[{"e": "Mem", "ops": [[1, 4, 5], [0, 5, 0, 4]]}])),
        ("LEAK", ex(destroy=[{"e": "Mem", "ops": [[0, 1, 2]]}], reclaimed=1)),
        ("TERMINATE", ex(use=[{"e": "Mem", "ops": [[1, 4, 5]]}, term])),
        ("NOT-SURFACED", ex(fail_at=5, use=[{"e": "Mem", "ops": [[1, 4, 4]]}, {"e": "Fail", "k": 5, "size": 8, "frames": []}, {"e": "Mem", "ops": [[0, 4]]}], ret="ok")),
        ("PROBE", ex(probe_ev=dict(probe, out="<out/>"))),
        ("PROBE", ex(probe_ev=dict(probe, code=-1))),
        ("EXIT", ex(exit_code=1)),
        ("PROTOCOL", ex(extra=[{"e": "Mem", "ops": [[1, 6, 6]]}])),                                               # allocate() outside any call
    ]
    paths = []
    for i, (_, ev) in enumerate(cases):
        p = os.path.join(wd, "selftest-%d.nd" % i)
        vlib.write_ndjson(p, ev)
        paths.append(p)
    rej, _ = validate_files(paths, "selftest", wd, shards=1)
    bad = []
    for i, (want, _) in enumerate(cases):
        got = rej[i]["msg"].split(":")[0] if i in rej else ""
        if got != want:
            bad.append("case %d: expected %r, trace spec said %r" % (i, want or "accepted", rej.get(i, {}).get("msg", "accepted")[:200]))
    if bad:
        raise vlib.Infra("Trace_C19 self-test failed: " + "; ".join(bad))
    return len(cases)


# ---------------------------------------------------------------------------- call-site signatures
_dem_cache = {}


def demangle(names):
    todo = [n for n in set(names) if n not in _dem_cache]
    if todo:
        r = subprocess.run(["c++filt"], input="\n".join(todo) + "\n", capture_output=True, text=True)
        outs = r.stdout.split("\n")
        for n, d in zip(todo, outs):
            _dem_cache[n] = d
    return [_dem_cache[n] for n in names]


def short_name(d):
    """demangled function -> qualified name without template arguments, parameters, version namespaces"""
    out, depth = [], 0
    for ch in d:
        if ch == "<":
            depth += 1
        elif ch == ">":
            depth -= 1
        elif depth == 0:
            out.append(ch)
    s = "".join(out)
    s = re.sub(r"\(.*$", "", s).strip()
    s = re.sub(r"^.* ", "", s) if " " in s and "operator" not in s else s      # drop a return type
    s = re.sub(r"xalanc_\d+_\d+::", "", s)
    s = re.sub(r"xercesc_\d+_\d+::", "xercesc::", s)
    s = re.sub(r"\b\w+Allocator\b", "*Allocator", s)        # the ~40 arena allocator wrappers are one pattern
    s = re.sub(r"\bXalanEXSLT\w+FunctionsInstaller\b", "XalanEXSLT*FunctionsInstaller", s)
    return s


# frames without a dynamic symbol (static functions of the library) are logged as "module+0xoffset": resolve them with the
# module's symbol table, so that a key never contains an address
LIB_DIRS = []          # directories of the fresh build that hold the shared libraries (set by run()/replay())
_symtabs = {}


def _symtab(module):
    if module not in _symtabs:
        tab = []
        for d in LIB_DIRS:
            path = os.path.join(d, module)
            if os.path.exists(path):
                r = subprocess.run(["nm", "--defined-only", "-n", path], capture_output=True, text=True)
                for line in r.stdout.splitlines():
                    f = line.split()
                    if len(f) == 3 and f[1] in "tTwW":
                        tab.append((int(f[0], 16), f[2]))
                break
        tab.sort()
        _symtabs[module] = tab
    return _symtabs[module]


def resolve_frames(frames):
    import bisect
    out = []
    for f in frames:
        m = re.match(r"^(lib[\w.+-]+?)\+0x([0-9a-f]+)$", f)
        if m and (m.group(1).startswith("libxalan-c") or m.group(1).startswith("libxalanMsg")):
            tab = _symtab(m.group(1))
            i = bisect.bisect_right(tab, (int(m.group(2), 16), "\x7f")) - 1
            if i >= 0:
                f = tab[i][1]
        out.append(f)
    return out


def library_frames(frames):
    frames = resolve_frames(frames)
    dem = demangle(frames)
    return [short_name(d) for f, d in zip(frames, dem) if re.match(r"(xalanc_\d+_\d+|xercesc_\d+_\d+)::", d) or "libxalan-c" in f or "libxerces-c" in f]


def signature(frames, depth=3):
    lib = library_frames(frames)
    return " < ".join(lib[:depth]) if lib else "(no library frame)"


def terminate_key(ev, fail=None):
    kind = "terminate" if ev.get("kind") == "std::terminate" else ev.get("kind", "?")
    lib = library_frames(ev.get("frames", []))
    if kind != "terminate" and fail:
        # a crash after the refusal of a request made by XalanMap::doCreateEntry: the map keeps a half-built entry and
        # whoever walks the map next crashes - the class is the insertion that was interrupted, not the later victim
        fl = library_frames(fail.get("frames", []))
        if fl and fl[0] == "XalanMap::doCreateEntry":
            return "%s after refusal inside: %s" % (kind, " < ".join(fl[:2]))
    if not lib and fail:          # the crash left no usable stack: name the refused request's call site instead
        fl = library_frames(fail.get("frames", []))
        arena = [i for i, f in enumerate(fl) if re.match(r"\*Allocator::create\w*$", f)]
        if arena:                 # ... the object under construction in an arena block, and who asked for it
            return "%s (stack lost) after refusal inside: %s" % (kind, " < ".join(fl[arena[0]:arena[0] + 2]))
        return "%s (stack lost) after refusal at: %s" % (kind, " < ".join(fl[:3]))
    return "%s: %s" % (kind, signature(ev.get("frames", [])))


INIT_COMPONENT = re.compile(r"(Init::|EnsureFunctionsInstallation::|^XalanTransformer::initialize$)")


def classify(events, rj):
    """semantic class of a rejected execution, or None (then it is a violation whatever the lists say).
    - the refused request fell inside XalanTransformer::initialize(): the class is the initialisation stage that was
      interrupted (whatever the later symptom: Probe fails, discarded manager used again, crash);
    - std::terminate / fatal signal: the call site, i.e. the top 3 library frames of the stack that terminated."""
    call, fail, failcall = None, None, None
    for e in events:
        t = e.get("e")
        if t == "Call":
            call = e["api"]
        elif t in ("ApiReturn", "DestroyTransformer", "Shutdown"):
            call = None
        elif t == "Fail":
            fail, failcall = e, call
    sym = rj["msg"].split(":")[0]
    if failcall == "initialize" and sym in ("PROBE", "PROTOCOL", "TERMINATE"):
        lib = library_frames(fail.get("frames", []))
        comp = [f for f in lib if INIT_COMPONENT.search(f)]
        return "init-interrupted: " + (comp[0] if comp else "XalanTransformer::initialize")
    if sym == "NOT-SURFACED" and fail:
        # the refused request was swallowed by a catch-all inside an XPath function implementation
        fn = [f for f in library_frames(fail.get("frames", [])) if re.match(r"^Function\w+::(do)?[eE]xecute$", f)]
        return ("not-surfaced: swallowed inside " + fn[0]) if fn else None
    ev = events[rj["line"]] if rj["line"] < len(events) else {}
    if sym == "TERMINATE" and ev.get("e") == "Terminate":
        return terminate_key(ev, fail)
    return None


# ------------------------------------------------------------------------------------------- run
def run(res, tier, seed):
    quick = tier == "quick"
    wd = vlib.workdir("c19-%d" % os.getpid())
    write_data(wd)
    t0 = time.time()
    res.notes["tv_selftest_cases"] = tv_selftest(wd)
    run_mc(res, wd, quick)
    scen = collections.OrderedDict((k, (v[0], v[1])) for k, v in SCENARIOS.items())
    full_in = {k: v[2] for k, v in SCENARIOS.items()}
    hist = gen_histories(wd, quick)
    scen.update(hist)
    res.notes["t_mc_s"] = round(time.time() - t0, 1)
    exe = vlib.build_harness("c19", "hooks", **HFLAGS)
    exe_asan = vlib.build_harness("c19", "asan", **HFLAGS)
    known = {k["key"]: k for k in vlib.known_findings(PROP)}
    bdir = os.path.dirname(exe)
    LIB_DIRS[:] = [os.path.join(bdir, "src", "xalanc"), os.path.join(bdir, "src", "xalanc", "Utils", "XalanMsgLib")]

    # ---- counting runs: N per scenario (hooks and asan must agree)
    asan_table = dict(ASAN_QUICK if quick else ASAN_THOROUGH)
    for n in scen:
        if n.startswith("rtfail-"):
            asan_table[n] = 331 if quick else 11

    def count(exe_, tag, keep=False):
        ns = {n: (None, None) for n in scen}
        for mode in ("inited", "raw"):
            names = [n for n in scen if scen[n][0] == mode and (tag != "asan" or n in asan_table)]
            if not names:
                continue
            cases = [dict({"scenario": n, "k": 0, "steps": scen[n][1]}, **({"keepFreed": True} if keep else {})) for n in names]
            paths = run_cases(exe_, cases, wd, "count-%s-%s" % (tag, mode), mode, 600)
            for n, p in zip(names, paths):
                ns[n] = (request_count(p), p)
        return ns
    res.notes["t_build_s"] = round(time.time() - t0, 1)
    counts = count(exe, "hooks")
    counts_asan = count(exe_asan, "asan")
    # the no-failure runs once more with returned blocks left intact (plain build): a repeated destruction then shows
    # up as the double free it is instead of crashing on the 0xDD fill
    counts_keep = count(exe, "hooks-keepfreed", keep=True)
    res.notes["t_count_s"] = round(time.time() - t0, 1)
    res.notes["requests_per_scenario"] = {n: counts[n][0] for n in scen}
    sites = {}
    for n in scen:
        if n.startswith("rtfail-") and counts[n][1]:
            r = [e for e in vlib.read_ndjson(counts[n][1]) if e.get("e") == "ApiReturn" and e.get("api") == "transform"]
            sites[n] = (r[0]["status"] + ": " + r[0].get("msg", "")[:70]) if r else "?"
    res.notes["rtfail_sites"] = sites
    res.notes["rtfail_not_failing"] = sorted(n for n, v in sites.items() if not v.startswith("error"))

    big_requests = {}
    for n in scen:
        if counts[n][1]:
            for e in vlib.read_ndjson(counts[n][1]):
                if e.get("e") == "DiscardManager" and "big" in e:
                    big_requests[n] = e["big"]
    res.notes["large_requests_per_scenario"] = {n: len(v) for n, v in big_requests.items() if v}

    # ---- the sweep plan
    def ks_for(name, n, build):
        if n is None:
            return []
        if build == "asan":
            table = asan_table
            if name not in table or counts[name][0] != n:
                return []
            stride = table[name]
            hooks_ks = set(ks_for(name, n, "hooks"))
            return [k for k in range(1 + (seed - 1) % stride, n + 1, stride) if k in hooks_ks]
        elif name.startswith("hist-"):
            stride = 0 if quick else 29            # histories: balance check (k = 0) in quick, sampled failures in thorough
        elif quick and full_in.get(name) != "quick":
            stride = RTFAIL_STRIDE_QUICK if name.startswith("rtfail-") else QUICK_STRIDE.get(name, 0)
        elif name.startswith("rtwarn-"):
            stride = 7
        else:
            stride = 1
        if not stride:
            return []
        off = (seed - 1) % stride
        ks = set(range(1 + off, n + 1, stride))
        if stride > 1 and not name.startswith("hist-"):
            # besides the stride: the requests for LARGE blocks (an arena, a deque or a vector grows there while its objects are alive)
            big = big_requests.get(name, [])
            step_ = max(1, len(big) // 60)
            ks.update(big[(seed - 1) % step_::step_])
        return sorted(k for k in ks if k <= n)

    stats = {"executions": 0, "accepted": 0, "terminate_known": 0, "failures_injected": 0}
    fail_sites = set()
    per_scenario = collections.OrderedDict()
    hooks_terminated = collections.defaultdict(set)       # scenario -> ks that ended in Terminate (hooks)
    candidates = []                                        # (what, events, case, build)

    def process(build, exe_, mode, cases, tag):
        if not cases:
            return
        paths = run_cases(exe_, cases, wd, tag, mode, 900 if quick else 6000)
        rejects, gen = validate_files(paths, tag, wd)
        res.notes["tv_states"] = res.notes.get("tv_states", 0) + gen
        for i, (c, p) in enumerate(zip(cases, paths)):
            stats["executions"] += 1
            ps = per_scenario.setdefault(c["scenario"], {"mode": mode, "N": counts[c["scenario"]][0], "hooks_runs": 0, "asan_runs": 0, "accepted": 0, "known": 0, "violations": 0})
            ps[build + "_runs"] += 1
            txt = None
            if c["k"]:
                # the refused request's call site (one Fail line per execution)
                txt = open(p).read()
                m = re.search(r'^\{"e":"Fail".*$', txt, re.M)
                if m:
                    stats["failures_injected"] += 1
                    fe = json.loads(m.group(0))
                    fail_sites.add((c["scenario"], signature(fe["frames"], 4)))
            if i not in rejects:
                stats["accepted"] += 1; ps["accepted"] += 1
                if len(res.cov["samples"]) < 3 and c["k"] and stats["executions"] % 97 == 5:
                    res.sample(slim(vlib.read_ndjson(p)))
                continue
            rj = rejects[i]
            events = vlib.read_ndjson(p)
            cut = events[:rj["line"] + 1]
            key = classify(events, rj)
            if build == "hooks" and key:
                hooks_terminated[c["scenario"]].add(c["k"])
            if key and key in known:
                res.known(known[key]); stats["terminate_known"] += 1; ps["known"] += 1
                res.notes.setdefault("known_classes_seen", {}).setdefault(key, 0)
                res.notes["known_classes_seen"][key] += 1
            else:
                ps["violations"] += 1
                if key:
                    u = res.notes.setdefault("unlisted_classes", {}).setdefault(key, {"n": 0, "first": [c["scenario"], c["k"], build]})
                    u["n"] += 1
                else:
                    o = res.notes.setdefault("other_rejections", {}).setdefault(re.sub(r"\d+", "#", rj["msg"])[:120], {"n": 0, "first": [c["scenario"], c["k"], build]})
                    o["n"] += 1
                what = rj["msg"][:400] + ((" | class " + key) if key else "")
                candidates.append((what, cut, c, build, mode))

    # counting runs are executions too
    for build, cn, exe_, keep in (("hooks", counts, exe, False), ("asan", counts_asan, exe_asan, False), ("hooks", counts_keep, exe, True)):
        for mode in ("inited", "raw"):
            names = [n for n in scen if scen[n][0] == mode and cn[n][1]]
            if not names:
                continue
            paths = [cn[n][1] for n in names]
            rejects, gen = validate_files(paths, "count-%s-%s-%s" % (build, mode, keep), wd)
            res.notes["tv_states"] = res.notes.get("tv_states", 0) + gen
            for i, n in enumerate(names):
                stats["executions"] += 1
                ps = per_scenario.setdefault(n, {"mode": mode, "N": counts[n][0], "hooks_runs": 0, "asan_runs": 0, "accepted": 0, "known": 0, "violations": 0})
                ps[build + "_runs"] += 1
                if i in rejects:
                    ev = vlib.read_ndjson(paths[i])
                    ps["violations"] += 1
                    key = classify(ev, rejects[i])          # no request was refused: never a listed finding
                    candidates.append((rejects[i]["msg"][:400] + ((" | class " + key) if key else ""), ev[:rejects[i]["line"] + 1],
                                       dict({"scenario": n, "k": 0, "steps": scen[n][1]}, **({"keepFreed": True} if keep else {})), build, mode))
                else:
                    stats["accepted"] += 1; ps["accepted"] += 1
                    if build == "hooks" and n == "streams":
                        res.sample(slim(vlib.read_ndjson(paths[i])))
    for n in scen:
        if counts_asan[n][1] and counts[n][0] != counts_asan[n][0]:
            res.notes.setdefault("count_mismatch", {})[n] = [counts[n][0], counts_asan[n][0]]

    for mode in ("inited", "raw"):
        cases = [{"scenario": n, "k": k, "steps": scen[n][1]} for n in scen if scen[n][0] == mode for k in ks_for(n, counts[n][0], "hooks")]
        process("hooks", exe, mode, cases, "hooks-" + mode)
    for mode in ("inited", "raw"):
        # under ASan the executions that end in a listed std::terminate in the plain build are not repeated
        cases = [{"scenario": n, "k": k, "steps": scen[n][1]} for n in scen if scen[n][0] == mode
                 for k in ks_for(n, counts_asan[n][0], "asan")
                 if not (counts[n][0] == counts_asan[n][0] and k in hooks_terminated[n])]
        process("asan", exe_asan, mode, cases, "asan-" + mode)

    # ---- a candidate violation is reported if it repeats on an immediate re-run
    res.notes["rejected_not_known"] = len(candidates)
    res.notes["t_sweep_s"] = round(time.time() - t0, 1)
    for n, (what, cut, c, build, mode) in enumerate(candidates[:30]):
        if os.environ.get("C19_NO_CONFIRM"):
            cut[0]["case"] = c
            res.violation(what, cut)
            continue
        paths = run_cases(exe if build == "hooks" else exe_asan, [c], wd, "confirm-%d" % n, mode, 300)
        rej2, _ = validate_files(paths, "confirm-%d" % n, wd, shards=1)
        if 0 not in rej2:
            res.notes.setdefault("unrepeatable", []).append(what[:200])
            continue
        cut[0]["case"] = c
        res.violation(what, cut)
    res.cov["evaluations"] = stats["executions"]
    res.cov["traces_validated_against_impl"] = stats["accepted"]
    res.cov["distinct_nontrivial"] = len(fail_sites)
    res.cov["exhaustive"] = False
    res.cov["rule"] = ("one execution = one (scenario, k): the scenario's API calls on a recording MemoryManager whose k-th allocate() throws "
                       "OutOfMemoryException (k = 0: none), in its own process; N = requests of the scenario measured by a counting run; "
                       "%s tier: every k in 1..N for the scenarios marked complete in coverage.scenarios, a stride of k (offset by the seed) for the others, "
                       "k = 0 %sfor every realisable call history (<= %d calls) of MC_MemMgr's state graph; a sample again under ASan/UBSan. "
                       "non-trivial = a request was actually refused; distinct = by (scenario, call site of the refused request: top 4 library frames)"
                       % (tier, "" if quick else "and a stride of k ", 5 if quick else 6))
    res.notes["scenarios"] = per_scenario
    res.notes["sweep"] = stats
    res.notes["complete_scenarios"] = [n for n in SCENARIOS if (not quick) or full_in[n] == "quick"]
    res.assumptions += [
        "the refused request throws xercesc::OutOfMemoryException (what XalanMemoryManagerDefault::allocate throws); exactly one request is refused per execution",
        "only blocks obtained from the supplied manager are observed; input sources / result targets are caller objects on the default manager",
        "process-level data (XalanTransformer::initialize) lives on a separate manager except in the raw-mode scenarios (init-terminate, shared-manager, hist-raw-*)",
        "std::terminate call sites are grouped by the top 3 library frames (template arguments stripped, *Allocator wrappers merged) of the plain -O1 build",
        "the Probe's expected output is a literal in Trace_C19.tla (fixed transformation)",
        "UBSan reports a null-reference binding in XercesDocumentWrapper's constructor on the success path (no refused request): outside C19 (C03), so the xerces-dom scenario runs in the plain build only",
    ]
    if not os.environ.get("VERIF_KEEP"):
        import shutil
        shutil.rmtree(wd, ignore_errors=True)


def slim(events):
    """shorten the Mem streams of a sample execution"""
    out = []
    for e in events:
        if e.get("e") == "Mem":
            ops = e["ops"]
            e = {"e": "Mem", "runs": len(ops), "ops_head": ops[:4]}
        elif "frames" in e:
            e = dict(e, frames=library_frames(e["frames"])[:4])
        out.append(e)
    return out


def replay(path):
    """re-run the recorded case (the Reset event carries it) on the current build and validate; fall back to
    validating the recorded events"""
    events = vlib.read_ndjson(path)
    wd = vlib.workdir("c19-replay-%d" % os.getpid())
    c = events[0].get("case") if events else None
    if c:
        write_data(wd)
        build = events[0].get("build", "hooks")
        mode = "inited" if events[1].get("procInit", True) else "raw"
        exe = vlib.build_harness("c19", build, **HFLAGS)
        bdir = os.path.dirname(exe)
        LIB_DIRS[:] = [os.path.join(bdir, "src", "xalanc"), os.path.join(bdir, "src", "xalanc", "Utils", "XalanMsgLib")]
        paths = run_cases(exe, [c], wd, "replay", mode, 300)
        rej, _ = validate_files(paths, "replay", wd, shards=1)
        evs = vlib.read_ndjson(paths[0])
        for i, r in rej.items():
            print("REJECTED scenario=%s k=%s line %d: %s" % (c["scenario"], c["k"], r["line"], r["msg"]))
            key = classify(evs, r)
            if key:
                print("  class: " + key)
        return 1 if rej else 0
    for e in events:
        e.pop("case", None)
    p = os.path.join(wd, "recorded.nd")
    vlib.write_ndjson(p, events + ([] if events and events[-1].get("e") == "Exit" else [{"e": "Exit", "code": -1, "signal": 0, "stderr": "(recorded slice)"}]))
    rej, _ = validate_files([p], "replay", wd, shards=1)
    for i, r in rej.items():
        print("REJECTED line %d: %s" % (r["line"], r["msg"]))
    return 1 if rej else 0
