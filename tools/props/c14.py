"""C14 - result elements/attributes get the requested expanded names; prefixes resolve.
MC : spec/mc/MC_NsFixup.tla - the transcribed namespace fix-up (spec/impl/NsFixupImpl.tla) satisfies the obligations of
     spec/core/ResultTree.tla on every small nest, except in the named KD_ classes, each shown real by a witness.
GEN: seeded nests of {literal result element, xsl:element, xsl:attribute, attribute sets, xsl:copy, xsl:copy-of} to depth 3
     over prefixes {none, p, q (xml, xmlns, undeclared z rarely)} and URIs {none, urn:u, urn:v, urn:w}; names / namespaces
     static or computed; exclude-result-prefixes and namespace-alias on/off; source nodes with their own namespace nodes.
RUN: harness/c14.cpp - RAW result tree from a recording FormatterListener + the same result through the real XML
     serializer, re-parsed here with expat in namespace mode (second observation).
TV : spec/trace/Trace_C14.tla - ResultTree!Faults(ss, src, raw) = {} for both observations.
Triage (exact): a rejected case is a KNOWN-FINDING only if spec/trace/Trace_C14impl.tla shows that the recorded raw tree is
     exactly what the transcribed (deviating) algorithm emits AND every fault is explained by a KD class it passed through."""
import os, random, json, re, subprocess
from xml.parsers import expat
from xml.sax.saxutils import quoteattr
import vlib, xdm
from vlib import ROOT

PROP = "C14"
TRACE = os.path.join(ROOT, "spec/trace/Trace_C14.tla")
TRACE_IMPL = os.path.join(ROOT, "spec/trace/Trace_C14impl.tla")
MC = os.path.join(ROOT, "spec/mc/MC_NsFixup.tla")
XSL = "http://www.w3.org/1999/XSL/Transform"
URIS = ["urn:u", "urn:v"]


# ------------------------------------------------------------------------------------------ generator
class Gen:
    """stylesheet AST in the form ResultTree.tla reads (see the module header); tracks the declarations in scope only to
    keep the programs legal XSLT - expected names are never computed here"""

    def __init__(self, rng, depth=3, rare=0.06):
        self.r, self.depth, self.rare = rng, depth, rare
        self.nvars = 0

    def pick(self, xs):
        return self.r.choice(xs)

    def chance(self, p):
        return self.r.random() < p

    # -- source document: children of <doc>, each with its own namespace nodes
    def source(self):
        r = self.r
        top = []
        if self.chance(0.3):
            top.append(["s", "urn:s"])
        if self.chance(0.25):
            top.append([self.pick(["p", "q"]), self.pick(URIS)])
        if self.chance(0.15):
            top.append(["", self.pick(URIS)])
        scope = dict((p, u) for p, u in top)

        def elem(scope, d):
            scope = dict(scope)
            nsd = []
            for _ in range(self.pick([0, 0, 1, 1, 2])):
                p = self.pick(["", "p", "q", "p", "q"])
                if any(x[0] == p for x in nsd):
                    continue
                u = self.pick(URIS + ["urn:w"])
                if p == "" and scope.get("", "") != "" and self.chance(0.3):
                    u = ""
                nsd.append([p, u])
                scope[p] = u
            bound = [p for p, u in scope.items() if p != "" and u != ""]
            p = self.pick(bound + [""]) if bound else ""
            u = scope.get(p, "")
            attrs, seen = [], set()
            for _ in range(self.pick([0, 1, 1, 2])):
                ap = self.pick(bound + ["", ""]) if bound else ""
                au = scope[ap] if ap else ""
                al = self.pick(["x", "y"])
                if (au, al) in seen:
                    continue
                seen.add((au, al))
                attrs.append({"p": ap, "l": al, "u": au, "v": self.pick(["s1", "s2"])})
            kids = [elem(scope, d - 1) for _ in range(self.pick([0, 0, 1, 2]) if d > 0 else 0)]
            return {"p": p, "l": self.pick(["k", "m"]), "u": u, "nsd": nsd, "a": attrs, "c": kids}
        return {"nsd": top, "kids": [elem(scope, 1) for _ in range(3)]}

    # -- names
    def name_ns(self, scope, locals_, attr):
        """(p, l, hasNs, ns) for xsl:element / xsl:attribute"""
        bound = [p for p, u in scope.items() if p != "" and u != ""]
        l = self.pick(locals_)
        if self.chance(self.rare):
            k = self.r.random()
            if k < 0.3:
                return "xmlns", l, True, self.pick(URIS)
            if k < 0.5 and attr:
                return "xml", "lang", False, ""
            if k < 0.65 and attr:
                return "xml", "lang", True, self.pick(URIS)
            if k < 0.85:
                return "z", l, True, self.pick(URIS + [""])        # a prefix declared nowhere: legal with a namespace attribute
            return self.pick(bound + [""]) if bound else "", l, True, ""
        if self.chance(0.5):
            p = self.pick(["", "p", "q"])
            ns = self.pick(URIS + ["urn:w"] + ([""] if self.chance(0.3) else []))
            return p, l, True, ns
        p = self.pick(bound + [""]) if bound else ""
        return p, l, False, ""

    def nsd(self, scope, pmax=0.35):
        out = []
        if self.chance(pmax):
            for _ in range(self.pick([1, 1, 2])):
                p = self.pick(["", "p", "q"])
                if any(x[0] == p for x in out):
                    continue
                u = self.pick(URIS + ["urn:w"])
                if p == "" and scope.get("", "") != "" and self.chance(0.4):
                    u = ""
                if p != "" or u != "" or scope.get("", "") != "":
                    out.append([p, u])
        return out

    def attribute(self, scope):
        nsd = self.nsd(scope, 0.1)
        sc = dict(scope); sc.update((p, u) for p, u in nsd)
        p, l, has, ns = self.name_ns(sc, ["x", "y"], True)
        return {"i": "attribute", "p": p, "l": l, "hasNs": has, "ns": ns, "nsd": nsd, "v": self.pick(["1", "2", "3"]),
                "avt": self.chance(0.3)}

    def attr_instr(self, scope):
        k = self.r.random()
        withattrs = [i + 1 for i, e in enumerate(self.src["kids"]) if e["a"]]
        if k < 0.75 or not withattrs:
            return self.attribute(scope)
        n = self.pick(withattrs)
        return {"i": self.pick(["copyattr", "copy-of-attr"]), "node": n, "a": self.r.randrange(len(self.src["kids"][n - 1]["a"])) + 1}

    def body(self, scope, d, in_elem):
        out = []
        if in_elem:
            for _ in range(self.pick([0, 1, 1, 2, 2, 3])):
                out.append(self.attr_instr(scope))
        if d > 0:
            for _ in range(self.pick([0, 1, 1, 2]) if in_elem else self.pick([1, 1, 2])):
                out.append(self.elem_instr(scope, d))
        return out

    def uas(self):
        return [s["name"] for s in self.sets if self.chance(0.3)] if self.sets else []

    def elem_instr(self, scope, d):
        k = self.r.random()
        if k < 0.42:
            nsd = self.nsd(scope)
            sc = dict(scope); sc.update((p, u) for p, u in nsd)
            bound = [p for p, u in sc.items() if p != "" and u != ""]
            p = self.pick(bound + ["", ""]) if bound else ""
            attrs, seen = [], set()
            for _ in range(self.pick([0, 0, 1, 2])):
                ap = self.pick(bound + ["", ""]) if bound else ""
                al = self.pick(["x", "y"])
                key = (self.alias_key(sc[ap]) if ap else "", al)
                if key in seen:
                    continue
                seen.add(key)
                attrs.append({"p": ap, "l": al, "v": self.pick(["a", "b"])})
            if self.chance(self.rare):
                attrs.append({"p": "xml", "l": "lang", "v": "en"})
            excl = [q for q in sc if sc[q] != "" and self.chance(0.15)]
            return {"i": "lre", "p": p, "l": self.pick(["o", "i"]), "nsd": nsd, "excl": excl, "attrs": attrs, "uas": self.uas(),
                    "body": self.body(sc, d - 1, True)}
        if k < 0.72:
            nsd = self.nsd(scope, 0.12)
            sc = dict(scope); sc.update((p, u) for p, u in nsd)
            p, l, has, ns = self.name_ns(sc, ["e", "f"], False)
            return {"i": "element", "p": p, "l": l, "hasNs": has, "ns": ns, "nsd": nsd, "uas": self.uas(), "body": self.body(sc, d - 1, True),
                    "avt": self.chance(0.3)}
        n = self.r.randrange(len(self.src["kids"])) + 1
        if k < 0.86:
            return {"i": "copy", "node": n, "uas": self.uas(), "body": self.body(scope, d - 1, True)}
        return {"i": "copy-of", "node": n}

    def alias_key(self, u):
        return self.aliasmap.get(u, u)

    def stylesheet(self):
        self.src = self.source()
        nsd = []
        if self.chance(0.75):
            nsd.append(["p", self.pick(URIS)])
        if self.chance(0.55):
            nsd.append(["q", self.pick(URIS)])
        if self.chance(0.25):
            nsd.append(["", self.pick(URIS)])
        scope = dict((p, u) for p, u in nsd)
        excl = [p for p, u in nsd if self.chance(0.25)]
        alias = []
        named = [p for p, u in nsd]
        if len(named) >= 2 and self.chance(0.2):
            a, b = self.r.sample(named, 2)
            if scope[a] != scope[b]:
                alias.append([a, b])
        self.aliasmap = {scope[a]: scope[b] for a, b in alias}
        self.sets = []
        sets = []
        for k in range(self.pick([0, 0, 1, 2])):
            sets.append({"name": "s%d" % (k + 1), "use": [], "attrs": [self.attribute(scope) for _ in range(self.pick([1, 1, 2]))]})
        for k, s in enumerate(sets):
            s["use"] = [t["name"] for t in sets[k + 1:] if self.chance(0.4)]
        self.sets = sets
        return {"nsd": nsd, "excl": excl, "alias": alias, "sets": sets, "body": self.body(scope, self.depth, False)}, self.src


# ------------------------------------------------------------------------------------------ systematic small nests
def systematic():
    """the decision-tree leaves by construction: every (stylesheet context) x (outer element kind) x (two attribute
    instructions) over the small pools, so that each run meets every leaf whatever the seed"""
    src = {"nsd": [["s", "urn:s"]], "kids": [
        {"p": "p", "l": "k", "u": "urn:u", "nsd": [["p", "urn:u"]], "a": [{"p": "p", "l": "x", "u": "urn:u", "v": "s1"}, {"p": "", "l": "y", "u": "", "v": "s2"}], "c": []},
        {"p": "", "l": "m", "u": "urn:v", "nsd": [["", "urn:v"], ["q", "urn:u"]], "a": [{"p": "q", "l": "x", "u": "urn:u", "v": "s1"}],
         "c": [{"p": "", "l": "k", "u": "", "nsd": [["", ""]], "a": [], "c": []}]},
        {"p": "", "l": "k", "u": "", "nsd": [], "a": [{"p": "s", "l": "x", "u": "urn:s", "v": "s1"}], "c": []}]}
    ctxs = [{"nsd": [["p", "urn:u"], ["q", "urn:v"]], "excl": [], "alias": []},
            {"nsd": [["p", "urn:u"], ["q", "urn:u"], ["", "urn:v"]], "excl": ["q"], "alias": []},
            {"nsd": [["p", "urn:u"], ["q", "urn:v"]], "excl": ["p"], "alias": [["p", "q"]]}]
    attrs = []
    for p in ["", "p", "q"]:
        attrs.append({"i": "attribute", "p": p, "l": "x", "hasNs": False, "ns": "", "nsd": [], "v": "1", "avt": False})
        for ns in ["urn:u", "urn:v", ""]:
            attrs.append({"i": "attribute", "p": p, "l": "x", "hasNs": True, "ns": ns, "nsd": [], "v": "2", "avt": False})
    attrs.append({"i": "copy-of-attr", "node": 1, "a": 1})
    attrs.append({"i": "copyattr", "node": 3, "a": 1})
    outers = []
    for p in ["", "p", "q"]:
        outers.append({"i": "lre", "p": p, "l": "o", "nsd": [], "excl": [], "attrs": [], "uas": []})
        outers.append({"i": "lre", "p": p, "l": "o", "nsd": [["p", "urn:v"]], "excl": [], "attrs": [{"p": "p", "l": "x", "v": "a"}], "uas": []})
        outers.append({"i": "element", "p": p, "l": "e", "hasNs": False, "ns": "", "nsd": [], "uas": [], "avt": False})
        for ns in ["urn:u", "urn:v", "urn:w", ""]:
            outers.append({"i": "element", "p": p, "l": "e", "hasNs": True, "ns": ns, "nsd": [], "uas": [], "avt": False})
    for n in (1, 2, 3):
        outers.append({"i": "copy", "node": n, "uas": []})
    out = []
    for c in ctxs:
        for o in outers:
            for i, a in enumerate(attrs):
                for b in [None] + attrs[i % 3::3]:
                    body = [a] if b is None else [a, b]
                    inner = dict(o, body=body)
                    out.append((dict(c, sets=[], body=[{"i": "lre", "p": "", "l": "w", "nsd": [["p", "urn:u"]], "excl": [], "attrs": [], "uas": [], "body": [inner]}]), src))
                    if b is None:
                        out.append((dict(c, sets=[], body=[inner]), src))
    # a prefix that merely STARTS with "xml" (xmlp) is a prefix like any other: its attribute needs its declaration (the reserved
    # prefix is "xml", and names beginning with "xmlns" are not prefixes one can bind)
    xctxs = [{"nsd": [["xmlp", "urn:w"], ["p", "urn:u"], ["q", "urn:v"]], "excl": [], "alias": []},
             {"nsd": [["xmlp", "urn:w"], ["p", "urn:u"], ["q", "urn:v"]], "excl": ["xmlp"], "alias": []}]
    xattrs = [{"i": "attribute", "p": "xmlp", "l": "x", "hasNs": False, "ns": "", "nsd": [], "v": "1", "avt": False},
              {"i": "attribute", "p": "xmlp", "l": "x", "hasNs": True, "ns": "urn:u", "nsd": [], "v": "2", "avt": False},
              {"i": "attribute", "p": "xmlp", "l": "y", "hasNs": False, "ns": "", "nsd": [], "v": "3", "avt": True}]
    for c in xctxs:
        for o in outers[:9:2] + outers[-1:]:
            for a in xattrs:
                for b in (None, attrs[0], attrs[4]):
                    body = [a] if b is None else [a, b]
                    out.append((dict(c, sets=[], body=[dict(o, body=body)]), src))
    return out


# ------------------------------------------------------------------------------------------ rendering
def qn(p, l):
    return p + ":" + l if p else l


def nsd_text(nsd):
    return "".join(" xmlns%s=%s" % (":" + p if p else "", quoteattr(u)) for p, u in nsd)


class Render:
    def __init__(self, ss, src):
        self.ss, self.src, self.vars = ss, src, []

    def val(self, s, avt):
        if not avt:
            return quoteattr(s)
        self.vars.append(s)
        return '"{$v%d}"' % len(self.vars)

    def attr_sel(self, ins):
        a = self.src["kids"][ins["node"] - 1]["a"][ins["a"] - 1]
        return "/*/*[%d]/@*[local-name()='%s' and namespace-uri()='%s']" % (ins["node"], a["l"], a["u"])

    def instr(self, x):
        i = x["i"]
        if i == "attribute":
            return "<xsl:attribute name=%s%s%s>%s</xsl:attribute>" % (
                self.val(qn(x["p"], x["l"]), x.get("avt")), (" namespace=%s" % self.val(x["ns"], x.get("avt") and x["ns"] != "")) if x["hasNs"] else "",
                nsd_text(x["nsd"]), x["v"])
        if i == "copyattr":
            return '<xsl:for-each select="%s"><xsl:copy/></xsl:for-each>' % self.attr_sel(x)
        if i == "copy-of-attr":
            return '<xsl:copy-of select="%s"/>' % self.attr_sel(x)
        if i == "copy-of":
            return '<xsl:copy-of select="/*/*[%d]"/>' % x["node"]
        uas = " ".join(x.get("uas", []))
        if i == "copy":
            return '<xsl:for-each select="/*/*[%d]"><xsl:copy%s>%s</xsl:copy></xsl:for-each>' % (
                x["node"], (' use-attribute-sets="%s"' % uas) if uas else "", self.body(x["body"]))
        if i == "element":
            return "<xsl:element name=%s%s%s%s>%s</xsl:element>" % (
                self.val(qn(x["p"], x["l"]), x.get("avt")), (" namespace=%s" % self.val(x["ns"], x.get("avt") and x["ns"] != "")) if x["hasNs"] else "",
                nsd_text(x["nsd"]), (' use-attribute-sets="%s"' % uas) if uas else "", self.body(x["body"]))
        if i == "lre":
            a = nsd_text(x["nsd"])
            if x["excl"]:
                a += ' xsl:exclude-result-prefixes="%s"' % " ".join(p or "#default" for p in x["excl"])
            if uas:
                a += ' xsl:use-attribute-sets="%s"' % uas
            for t in x["attrs"]:
                a += " %s=%s" % (qn(t["p"], t["l"]), quoteattr(t["v"]))
            return "<%s%s>%s</%s>" % (qn(x["p"], x["l"]), a, self.body(x["body"]), qn(x["p"], x["l"]))
        raise ValueError(i)

    def body(self, b):
        return "".join(self.instr(x) for x in b)

    def stylesheet(self):
        ss = self.ss
        tmpl = '<xsl:template match="/">%s</xsl:template>' % self.body(ss["body"])
        sets = "".join('<xsl:attribute-set name="%s"%s>%s</xsl:attribute-set>\n' % (
            s["name"], (' use-attribute-sets="%s"' % " ".join(s["use"])) if s["use"] else "", self.body(s["attrs"])) for s in ss["sets"])
        head = '<xsl:stylesheet version="1.0" xmlns:xsl="%s"%s' % (XSL, nsd_text(ss["nsd"]))
        if ss["excl"]:
            head += ' exclude-result-prefixes="%s"' % " ".join(p or "#default" for p in ss["excl"])
        head += ">\n"
        for a, b in ss["alias"]:
            head += '<xsl:namespace-alias stylesheet-prefix="%s" result-prefix="%s"/>\n' % (a or "#default", b or "#default")
        vs = "".join("<xsl:variable name=\"v%d\" select=\"'%s'\"/>\n" % (k + 1, v) for k, v in enumerate(self.vars))
        return head + vs + sets + tmpl + "\n</xsl:stylesheet>\n"


def src_xml(src):
    def conv(e):
        return xdm.E(e["l"], *[conv(c) for c in e["c"]], a=[xdm.A(a["l"], a["v"], p=a["p"], u=a["u"]) for a in e["a"]], p=e["p"], u=e["u"], nsd=e["nsd"])
    return xdm.render_xml(xdm.R(xdm.E("doc", *[conv(e) for e in src["kids"]], nsd=src["nsd"])))


def spec_ss(x):
    """the AST without the rendering-only flags"""
    if isinstance(x, dict):
        return {k: spec_ss(v) for k, v in x.items() if k != "avt"}
    if isinstance(x, list):
        return [spec_ss(v) for v in x]
    return x


# ------------------------------------------------------------------------------------------ observations
def split(q):
    i = q.find(":")
    return (q[:i], q[i + 1:]) if i >= 0 else ("", q)


def raw_tree(tree):
    out = []
    for n in tree:
        if n["k"] == "elem":
            p, l = split(n["qn"])
            out.append({"p": p, "l": l, "a": [dict(zip(("p", "l"), split(a[0])), v=a[1]) for a in n["a"]], "c": raw_tree(n["c"])})
    return out


def reparse(xml):
    """serialised result -> (raw-shaped forest with the prefixes and declarations expat reports, parser error)"""
    body = re.sub(r"^\s*<\?xml[^>]*\?>", "", xml)
    p = expat.ParserCreate(namespace_separator=" ")
    p.namespace_prefixes = True
    p.ordered_attributes = True
    root = {"c": []}
    stack, pend = [root], []

    def nm(s):
        t = s.split(" ")
        return ("", t[0]) if len(t) == 1 else (t[2] if len(t) > 2 else "", t[1])

    def sns(prefix, uri):
        pend.append({"p": "xmlns", "l": prefix, "v": uri or ""} if prefix else {"p": "", "l": "xmlns", "v": uri or ""})

    def se(name, attrs):
        pp, l = nm(name)
        a = list(pend); del pend[:]
        for i in range(0, len(attrs), 2):
            ap, al = nm(attrs[i])
            a.append({"p": ap, "l": al, "v": attrs[i + 1]})
        e = {"p": pp, "l": l, "a": a, "c": []}
        stack[-1]["c"].append(e); stack.append(e)

    def ee(name):
        stack.pop()
    p.StartNamespaceDeclHandler, p.StartElementHandler, p.EndElementHandler = sns, se, ee
    try:
        p.Parse("<wrap-c14>" + body + "</wrap-c14>", True)
    except expat.ExpatError as ex:
        return [], str(ex).split(":")[0]
    return root["c"][0]["c"], ""


def canon_attrs(forest):
    return [{"p": e["p"], "l": e["l"], "a": sorted((a["p"], a["l"], a["v"]) for a in e["a"]), "c": canon_attrs(e["c"])} for e in forest]


def check_source(src, xml):
    """the generator's claim about the expanded names of the source is checked against expat (input sanity, not an oracle)"""
    p = expat.ParserCreate(namespace_separator=" ")
    got = []
    p.StartElementHandler = lambda n, a: got.append((n, sorted(a.items())))
    p.Parse(xml, True)
    want = []

    def go(e):
        want.append(((e["u"] + " " if e["u"] else "") + e["l"], sorted(((a["u"] + " " if a["u"] else "") + a["l"], a["v"]) for a in e["a"])))
        for c in e["c"]:
            go(c)
    for e in src["kids"]:
        go(e)
    if got[1:] != want:
        raise vlib.Infra("C14 generator: source document does not have the expanded names it claims: %s / %s" % (got[1:], want))


def count_kinds(x, acc):
    if isinstance(x, dict):
        if "i" in x:
            acc.add(x["i"])
        for v in x.values():
            count_kinds(v, acc)
    elif isinstance(x, list):
        for v in x:
            count_kinds(v, acc)


def depth_of(body):
    return max([1 + depth_of(x.get("body", [])) for x in body if x["i"] in ("lre", "element", "copy", "copy-of")] or [0])


# ------------------------------------------------------------------------------------------ model checking
def mc(res, tier, wd):
    """MaxInstr instructions per nest, Pools 1 (lite) / 2 (standard) / 3 (rich); the runs go in parallel, 4 workers each"""
    from concurrent.futures import ThreadPoolExecutor
    runs = [(3, 1, 900), (2, 3, 900)] if tier == "quick" else [(3, 2, 3000), (2, 3, 1500), (3, 1, 1500)]

    def one(run):
        mi, po, to = run
        cfg = os.path.join(wd, "MC_NsFixup-%d-%d.cfg" % (mi, po))
        with open(cfg, "w") as f:
            f.write("SPECIFICATION Spec\nCONSTANTS MaxInstr = %d\n Pools = %d\nINVARIANT EveryFaultExplained\nINVARIANT DeviationsAreReal\n" % (mi, po))
        return vlib.tlc_mc(MC, cfg, workers=4, timeout=to, name="c14mc-%d-%d" % (mi, po))
    with ThreadPoolExecutor(max_workers=len(runs)) as ex:
        for run, r in zip(runs, ex.map(one, runs)):
            res.add_mc(r, "MC_NsFixup/MaxInstr=%d,Pools=%d" % run[:2])
    res.notes["kd_classes"] = sorted(x["key"] for x in vlib.known_findings(PROP))


# ------------------------------------------------------------------------------------------ run
def make_cases(rng, tier, wd):
    quick = tier == "quick"
    progs = systematic()
    nsys = len(progs)
    if quick:
        progs = progs[rng.randrange(8)::8]
        nsys = len(progs)
    n = 1500 if quick else 40000
    for k in range(n):
        g = Gen(rng, depth=3 if k % 3 else 2)
        progs.append(g.stylesheet())
    cases, metas = [], []
    for k, (ss, src) in enumerate(progs):
        cdir = os.path.join(wd, "case%d" % k); os.makedirs(cdir)
        xml = src_xml(src)
        if k % 50 == 0:
            check_source(src, xml)
        open(os.path.join(cdir, "main.xsl"), "w").write(Render(ss, src).stylesheet())
        open(os.path.join(cdir, "in.xml"), "w").write(xml)
        cases.append({"id": k, "dir": cdir})
        metas.append((ss, src))
    # ENGINE-REUSE family: every 6th case once more through one XSLTEngineImpl driven by its own interface that has just run - and
    # reset() after - a transformation aborted while result elements with namespace declarations were open (poison.xsl); the result
    # is held to the same obligations as the XalanTransformer run of the same case
    poison = os.path.join(wd, "poison.xsl")
    open(poison, "w").write(POISON)
    base = len(cases)
    for k in range(0, base, 6):
        cases.append({"id": len(cases), "dir": cases[k]["dir"], "engine": True, "poison": poison, "base": k})
        metas.append(metas[k])
    return cases, metas, nsys


POISON = ('<xsl:stylesheet version="1.0" xmlns:xsl="http://www.w3.org/1999/XSL/Transform">'
          '<xsl:template match="/"><o xmlns:p="urn:u" xmlns:q="urn:v" xmlns:s="urn:s" xmlns:ns0="urn:w" xmlns="urn:v">'
          '<p:i xmlns:q="urn:u" xmlns:p="urn:v" xmlns:ns1="urn:u" xmlns:z="urn:w" xmlns=""><q:j xmlns:r="urn:w" xmlns:ns2="urn:v" xmlns="urn:u" p:x="1">'
          '<xsl:element name="ns3:e" namespace="urn:w"><xsl:attribute name="q:a" namespace="urn:w">v</xsl:attribute>'
          '<k xmlns:p="urn:w" xmlns:q="urn:w" xmlns:s="urn:u"><xsl:message terminate="yes">stop</xsl:message></k>'
          '</xsl:element></q:j></p:i></o></xsl:template></xsl:stylesheet>')


def run_cases(res, cases, metas, wd):
    exe = vlib.build_harness("c14")
    nsh = vlib.NCPU
    procs = []
    for s in range(nsh):
        ch = cases[s::nsh]
        if ch:
            cp = os.path.join(wd, "cases-%d.ndjson" % s); vlib.write_ndjson(cp, ch)
            rp = os.path.join(wd, "trace-%d.ndjson" % s)
            procs.append((ch, rp, subprocess.Popen([exe, cp], stdout=open(rp, "w"), stderr=subprocess.PIPE)))
    events = []
    for ch, rp, p in procs:
        try:
            _, err = p.communicate(timeout=1200)
        except subprocess.TimeoutExpired:
            p.kill(); _, err = p.communicate(); err = b"TIMEOUT " + (err or b"")
        dones = {ev["id"]: ev for ev in vlib.read_ndjson(rp) if ev["e"] == "Done"}
        died = False
        for c in ch:
            ss, src = metas[c["id"]]
            dn = dones.get(c["id"])
            if dn is None:
                if not died:
                    res.violation("transformation process died or hung (rc=%s): %s" % (p.returncode, (err or b"").decode()[-300:]),
                                  [{"xsl": open(os.path.join(c["dir"], "main.xsl")).read(), "xml": open(os.path.join(c["dir"], "in.xml")).read()}])
                    died = True
                continue
            events.append(event_of(c, ss, src, dn))
    events.sort(key=lambda e: e["sample"])
    return events


def event_of(c, ss, src, dn):
    status = dn["status"] if dn["status"] != 0 else dn.get("status2", 0)
    parsed, perr = reparse(dn.get("xml", "")) if dn["status"] == 0 and dn.get("status2") == 0 else ([], "")
    return {"e": "Build", "ss": spec_ss(ss), "src": src, "status": status, "msg": dn["msg"][:300], "warn": dn.get("warn", "")[:300],
            "raw": raw_tree(dn["tree"]), "parsed": parsed, "perr": perr, "sample": c["id"]}


def triage(res, events, rejects, cases, known):
    """exact: known only if the transcribed algorithm emits exactly the recorded tree and its KD classes explain every fault"""
    if not rejects:
        return
    # an engine-reuse run is judged against its XalanTransformer twin: where the twin is rejected too (a known deviation of the fix-up
    # algorithm - the reused engine only invents other prefix names, its counter is not reset) the twin's verdict stands for both;
    # where the twin is accepted, the reuse is what broke the result
    rejected_cases = {events[rj["line"]]["sample"] for rj in rejects}
    keep = []
    for rj in rejects:
        c = cases[events[rj["line"]]["sample"]]
        if c.get("engine"):
            if c["base"] not in rejected_cases:
                ev = events[rj["line"]]
                res.violation("XSLTEngineImpl reused after an aborted transformation + reset(): %s (the same case on a fresh XalanTransformer is accepted)" % rj["msg"][:300],
                              [dict(ev, xsl=open(os.path.join(c["dir"], "main.xsl")).read(), xml=open(os.path.join(c["dir"], "in.xml")).read(), poison=POISON)])
            continue
        keep.append(rj)
    rejects = keep
    if not rejects:
        return
    evs = [dict(events[rj["line"]], mode="triage") for rj in rejects]
    verdicts, _ = vlib.tlc_validate_sharded(TRACE_IMPL, evs, tag="c14triage", stateless=True, timeout=3000)
    by = {v["line"]: v["msg"] for v in verdicts}
    for k, rj in enumerate(rejects):
        ev = events[rj["line"]]
        cdir = cases[ev["sample"]]["dir"]
        msg = by.get(k, "")
        m = re.match(r"KNOWN (\{.*?\}) ", msg)
        keys = re.findall(r'"([^"]+)"', m.group(1)) if m else []
        if keys and all(key in known for key in keys):
            for key in keys:
                res.known(known[key])
        else:
            res.violation("%s | triage: %s" % (rj["msg"][:400], msg[:300]),
                          [dict(ev, xsl=open(os.path.join(cdir, "main.xsl")).read(), xml=open(os.path.join(cdir, "in.xml")).read(), xmlout=ev.get("xmlout", ""))])


def run(res, tier, seed):
    rng = random.Random(seed)
    from concurrent.futures import ThreadPoolExecutor
    wd = vlib.workdir("c14-%d" % os.getpid())
    vlib.build_harness("c14")
    pool = ThreadPoolExecutor(max_workers=1)
    mcjob = pool.submit(mc, res, tier, wd)          # model checking runs beside the conformance pipeline
    cases, metas, nsys = make_cases(rng, tier, wd)
    events = run_cases(res, cases, metas, wd)
    res.cov["evaluations"] = len(events)
    rejects, st = vlib.tlc_validate_sharded(TRACE, events, tag="c14tv", stateless=True, timeout=3000)
    known = {x["key"]: x for x in vlib.known_findings(PROP)}
    triage(res, events, rejects, cases, known)
    res.notes["dropped_unjudged"] = st["dropped"]
    res.notes["rejected_by_abstract_spec"] = len(rejects)
    res.cov["traces_validated_against_impl"] = len(events) - len(rejects) - st["dropped"]
    # how faithful the transcription is: the recorded raw tree against NsFixupImpl's prediction on a sample of ALL cases
    sample = events[::(4 if tier == "quick" else 8)]
    mism, _ = vlib.tlc_validate_sharded(TRACE_IMPL, [dict(e, mode="conf") for e in sample], tag="c14conf", stateless=True, timeout=3000)
    mcjob.result()
    pool.shutdown()
    res.notes["impl_transcription_conformance"] = {"cases": len(sample), "raw_tree_differs_from_NsFixupImpl": len(mism),
                                                   "first": (mism[0]["msg"][:300] if mism else "")}
    kinds, nt, deep = set(), set(), 0
    for ev in events:
        ks = set(); count_kinds(ev["ss"], ks)
        kinds |= ks
        d = depth_of(ev["ss"]["body"])
        if len(ks) >= 3 and d >= 2 and ev["status"] == 0:
            nt.add(vlib.canon_hash([ev["ss"], ev["src"]]))
        deep += d >= 3
    res.notes["instruction_kinds_generated"] = sorted(kinds)
    res.notes["systematic_cases"] = nsys
    res.notes["depth3_cases"] = deep
    res.notes["serialised_results_not_wellformed"] = sum(1 for e in events if e["perr"])
    res.notes["serialised_reparse_differs_from_raw"] = sum(1 for e in events if not e["perr"] and e["status"] == 0 and canon_attrs(e["parsed"]) != canon_attrs(e["raw"]))
    res.cov["distinct_nontrivial"] = len(nt)
    res.cov["rule"] = ("systematic part: 3 stylesheet contexts x 24 outer element constructors x 1-2 attribute constructors from a pool of 14, bare and under an LRE that binds p; "
                       "seeded part: stylesheets with 0-3 namespace declarations, exclude-result-prefixes / namespace-alias / 0-2 attribute sets, bodies nested to depth 3 over "
                       "{lre, element, attribute, copy, copyattr, copy-of, copy-of-attr}, prefixes {none,p,q | xml,xmlns,undeclared z rarely}, URIs {none,urn:u,urn:v,urn:w}, names static or "
                       "from a variable AVT, source elements with their own and inherited namespace nodes; non-trivial = at least 3 instruction kinds, nesting depth >= 2 and a "
                       "successful transformation; distinct by (stylesheet AST, source)")
    for ev in events[nsys:nsys + 2]:
        cdir = cases[ev["sample"]]["dir"]
        res.sample({"xsl": open(os.path.join(cdir, "main.xsl")).read(), "xml": open(os.path.join(cdir, "in.xml")).read(), "raw": ev["raw"]})
    res.assumptions += ["judged on expanded names, attribute values and namespace declarations only; text, comments and the spelling of prefixes are not compared",
                        "presence of the namespace nodes XSLT copies from literal result elements / source nodes is not required (only: no forbidden declaration, every used prefix declared)",
                        "where namespace-alias and exclude-result-prefixes name the same URI the exclusion obligation is not judged (XSLT 1.0 leaves the order open)",
                        "xsl:element/xsl:attribute with namespace='' ask for no namespace (XSLT 1.0 erratum / 2.0 wording)",
                        "Python's expat is the independent namespace-aware parser of the second observation"]


def replay(path):
    events = vlib.read_ndjson(path)
    for ev in events:
        for k in ("xsl", "xml", "xmlout", "mode"):
            ev.pop(k, None)
    rejects, _ = vlib.tlc_validate_sharded(TRACE, events, shards=1, tag="c14replay", stateless=True)
    for r in rejects:
        print("REJECTED: %s" % r["msg"][:2000])
    return 1 if rejects else 0
