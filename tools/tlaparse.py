"""Parse TLC's textual values (as written by `tlc -dump`) into Python: sequences -> list, records ->
dict, sets -> list (sorted by repr), functions (a :> b @@ ...) -> dict with str keys, strings, ints,
booleans."""
import re

_tok = re.compile(r'\s*(<<|>>|\|->|:>|@@|[\[\]{}(),]|"(?:[^"\\]|\\.)*"|-?\d+|[A-Za-z_][A-Za-z0-9_!]*)')


def tokenize(s):
    pos, out = 0, []
    s = s.strip()
    while pos < len(s):
        m = _tok.match(s, pos)
        if not m:
            raise ValueError("cannot tokenize at: " + s[pos:pos + 40])
        out.append(m.group(1))
        pos = m.end()
    return out


class _P:
    def __init__(self, toks):
        self.t, self.i = toks, 0

    def peek(self):
        return self.t[self.i] if self.i < len(self.t) else None

    def next(self):
        x = self.t[self.i]; self.i += 1; return x

    def expect(self, x):
        y = self.next()
        if y != x:
            raise ValueError("expected %s got %s" % (x, y))

    def value(self):
        v = self.atom()
        # function literal  a :> b @@ c :> d
        if self.peek() == ":>":
            d = {}
            k = v
            while True:
                self.expect(":>")
                d[_key(k)] = self.atom()
                if self.peek() == "@@":
                    self.next(); k = self.atom()
                else:
                    break
            return d
        return v

    def atom(self):
        t = self.next()
        if t == "<<":
            out = []
            if self.peek() == ">>":
                self.next(); return out
            while True:
                out.append(self.value())
                if self.peek() == ",":
                    self.next(); continue
                self.expect(">>"); return out
        if t == "{":
            out = []
            if self.peek() == "}":
                self.next(); return out
            while True:
                out.append(self.value())
                if self.peek() == ",":
                    self.next(); continue
                self.expect("}"); return out
        if t == "[":
            d = {}
            while True:
                k = self.next(); self.expect("|->"); d[k] = self.value()
                if self.peek() == ",":
                    self.next(); continue
                self.expect("]"); return d
        if t == "(":
            v = self.value(); self.expect(")"); return v
        if t.startswith('"'):
            return bytes(t[1:-1], "utf8").decode("unicode_escape") if "\\" in t else t[1:-1]
        if t == "TRUE":
            return True
        if t == "FALSE":
            return False
        if re.fullmatch(r"-?\d+", t):
            return int(t)
        return t  # model value


def _key(k):
    return k if isinstance(k, str) else str(k)


def parse_value(s):
    p = _P(tokenize(s))
    v = p.value()
    if p.i != len(p.t):
        raise ValueError("trailing tokens in value")
    return v


def read_dump_lines(lines, only=None):
    """read_dump over the lines of ONE state block (State header + conjuncts) held in memory"""
    import io, tempfile
    cur, name, buf = None, None, []

    def flush():
        nonlocal name, buf
        if name is not None and (only is None or name in only):
            cur[name] = parse_value(" ".join(buf))
        name, buf = None, []

    for line in lines:
        line = line.rstrip("\n")
        if line.startswith("State "):
            cur = {}
            continue
        if cur is None:
            continue
        m = re.match(r"(?:/\\ )?(\w+) = (.*)$", line)
        if m:
            flush()
            name, buf = m.group(1), [m.group(2)]
        elif line.strip():
            buf.append(line.strip())
    if cur is not None:
        flush(); yield cur


def read_dump(path, only=None):
    """yield one dict {var: value} per state of a `tlc -dump` file"""
    cur, name, buf = None, None, []

    def flush():
        nonlocal name, buf
        if name is not None and (only is None or name in only):
            cur[name] = parse_value(" ".join(buf))
        name, buf = None, []

    with open(path) as f:
        for line in f:
            line = line.rstrip("\n")
            if line.startswith("State "):
                if cur is not None:
                    flush(); yield cur
                cur = {}
                continue
            if cur is None:
                continue
            m = re.match(r"(?:/\\ )?(\w+) = (.*)$", line)
            if m:
                flush()
                name, buf = m.group(1), [m.group(2)]
            elif line.strip():
                buf.append(line.strip())
        if cur is not None:
            flush(); yield cur
