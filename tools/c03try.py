#!/usr/bin/env python3
"""ad-hoc driver for harness/c03.cpp:  c03try.py <role> <scenario[,scenario]> [--file F | --hex H | TEXT] [--flavour asan|hooks] [--cls C] [--d N]
prints the recorded events of each execution (triage of findings / minimal inputs)"""
import argparse, json, os, sys
sys.path.insert(0, os.path.dirname(os.path.abspath(__file__)))
sys.path.insert(0, os.path.join(os.path.dirname(os.path.abspath(__file__)), "props"))
import vlib, c03, c03gen

ap = argparse.ArgumentParser()
ap.add_argument("role"); ap.add_argument("scen"); ap.add_argument("text", nargs="?")
ap.add_argument("--file"); ap.add_argument("--hex"); ap.add_argument("--flavour", default="asan"); ap.add_argument("--cls", default="fuzz"); ap.add_argument("--d", type=int, default=0)
ap.add_argument("--validate", action="store_true"); ap.add_argument("--full", action="store_true")
a = ap.parse_args()
b = open(a.file, "rb").read() if a.file else bytes.fromhex(a.hex) if a.hex else (a.text or "").encode("utf-8", "surrogatepass")
wd = vlib.workdir("c03try-%d" % os.getpid())
exe = vlib.build_harness("c03", a.flavour, **c03.HFLAGS)
inputs = [c03gen.DOC_SEEDS[c03gen.SEED_XML].encode(), c03gen.DOC_SEEDS[c03gen.SEED_XSL].encode(), c03gen.PARAM_XSL.encode(), b]
grp = {s: g for r in c03.SCEN.values() for g, s in r}
cases = [{"id": n, "grp": grp[s], "scen": s, "role": a.role, "cls": a.cls, "d": a.d, "in": 3, "timeout": 120, "solo": True, "leak": True, "item": None}
         for n, s in enumerate(a.scen.split(","))]
execs = c03.run_harness(exe, cases, inputs, {"seedXml": 0, "seedXsl": 1, "paramXsl": 2}, wd, "try", a.flavour, batch=1, timeout=900)
for ex in execs:
    for k, ev in enumerate(ex):
        if ev.get("e") == "Abort":
            print("  Abort", ev["why"], ev["detail"], "|", " < ".join(c03.collapse(c03.library_frames(ev["frames"]))[:8]))
            if a.full:
                print(ev.get("report", "").replace("\\n", "\n")[:3000])
        elif ev.get("e") == "LeakCheck":
            print("  LeakCheck", ev["clean"], ev.get("report", "")[:1500].replace("\\n", "\n") if not ev["clean"] else "")
        else:
            print(" ", json.dumps({k2: v for k2, v in ev.items() if k2 not in ("frames", "report", "child")})[:400])
if a.validate:
    rej, _ = c03.validate(execs, wd, "c03try-tv")
    for n, r in sorted(rej.items()):
        print("REJECTED exec %d event %d: %s" % (n, r["k"], r["msg"][:300]))
        print("  key:", c03.symptom_key(execs[n], r["k"]))
vlib.cleanup_workdirs()
