"""Raw lexer for XPath 1.0 expression text (longest match, no disambiguation - that is XPathSyntax.tla's job).
tokens: {"k":"sym","s":"("} | {"k":"name","s":"a:b","cp":[..]} | {"k":"num","cp":[..]} | {"k":"lit","cp":[..]}
returns None on a lexical error (unterminated literal, illegal character)."""
import re

SYMS = ["//", "::", "..", "!=", "<=", ">=", "(", ")", "[", "]", ".", "@", ",", "/", "|", "+", "-", "=", "<", ">", "*", "$"]
_name = re.compile(r"[A-Za-z_][A-Za-z0-9_.\-]*")
_num = re.compile(r"(\d+(\.\d*)?|\.\d+)")


def lex(text):
    i, out = 0, []
    n = len(text)
    while i < n:
        c = text[i]
        if c in " \t\r\n":
            i += 1
            continue
        if c in "'\"":
            j = text.find(c, i + 1)
            if j < 0:
                return None
            out.append({"k": "lit", "s": "", "cp": [ord(x) for x in text[i + 1:j]]})
            i = j + 1
            continue
        m = _num.match(text, i)
        if m and (c.isdigit() or (c == "." and i + 1 < n and text[i + 1].isdigit())):
            out.append({"k": "num", "s": "", "cp": [ord(x) for x in m.group(0)]})
            i = m.end()
            continue
        m = _name.match(text, i)
        if m:
            s = m.group(0)
            j = m.end()
            # QName or prefix:* (but not the '::' of an axis)
            if j < n and text[j] == ":" and not (j + 1 < n and text[j + 1] == ":"):
                if j + 1 < n and text[j + 1] == "*":
                    s += ":*"; j += 2
                else:
                    m2 = _name.match(text, j + 1)
                    if not m2:
                        return None
                    s += ":" + m2.group(0); j = m2.end()
            out.append({"k": "name", "s": s, "cp": [ord(x) for x in s], "xname": s.split(":", 1)[-1]})
            i = j
            continue
        for sy in SYMS:
            if text.startswith(sy, i):
                out.append({"k": "sym", "s": sy, "cp": []})
                i += len(sy)
                break
        else:
            return None
    return out


def untokenize(toks):
    """text of a token list, tokens separated by single spaces (always lexes back to the same list)"""
    parts = []
    for t in toks:
        if t["k"] == "lit":
            s = "".join(chr(c) for c in t["cp"])
            parts.append(("'" + s + "'") if "'" not in s else ('"' + s + '"'))
        elif t["k"] in ("num", "name"):
            parts.append("".join(chr(c) for c in t["cp"]))
        else:
            parts.append(t["s"])
    return " ".join(parts)
