"""Seeded generator of XSLT 1.0 stylesheets as ASTs (the form XSLTSem.tla interprets), with rendering to XSLT text.
Expected results are never computed here."""
import random
from xml.sax.saxutils import escape, quoteattr
import xpgen, xdm
from xpgen import *
from xdm import cps

XSLNS = 'xmlns:xsl="http://www.w3.org/1999/XSL/Transform"'


def P(*steps, **kw):
    return path(list(steps), **kw)


def ch(t, *p):
    return step("child", t, *p)


def at(t, *p):
    return step("attribute", t, *p)


MATCH_POOL = lambda: [P(ch(t_name("a"))), P(ch(t_name("b"))), P(ch(t_name("c"))), P(ch(T_ANY)), P(ch(T_TEXT)), P(at(t_name("x"))), P(at(T_ANY)),
                      P(ch(t_name("a")), ch(t_name("b"))), P(ch(T_ANY, P(at(t_name("x"))))), P(ch(T_COMMENT)), P(ch(t_pi())),
                      bin_("|", P(ch(t_name("b"))), P(ch(t_name("c")))), P(ch(t_name("b"), P(ch(T_ANY)))), P(ch(T_ANY), ch(t_name("c")))]


class XslGen:
    def __init__(self, rng):
        self.r = rng
        self.named = []          # names of named templates generated so far (callable)
        self.modes = ["", "m"]

    # ------------------------------------------------------------------ expressions
    def gen(self, scope):
        vt = {k: ("str" if v == "any" else v) for k, v in scope.items() if v in ("num", "str", "bool", "ns", "any")}
        return xpgen.Gen(self.r, vars_=vt, keys=getattr(self, "keynames", ()), current=True)

    def expr(self, scope, kind="any", d=None):
        g = self.gen(scope)
        d = self.r.choice([0, 1, 1, 2]) if d is None else d
        return {"any": g.any, "ns": g.ns, "num": g.num_, "str": g.str_, "bool": g.bool_}[kind](d)

    def down_ns(self, scope):
        """a node-set expression that only moves downwards (safe for apply-templates recursion)"""
        r = self.r.random()
        t = lambda: self.r.choice([t_name("a"), t_name("b"), t_name("c"), T_ANY, T_NODE, T_TEXT])
        if r < 0.4:
            return P(ch(t()))
        if r < 0.55:
            return P(ch(t()), ch(t()))
        if r < 0.7:
            return P(step("descendant", t(), abbr=False))
        if r < 0.8:
            return P(at(self.r.choice([t_name("x"), T_ANY])))
        if r < 0.9:
            return P(ch(T_ANY, self.r.choice([num(1), fn("last"), P(at(T_ANY))])))
        return bin_("|", P(ch(t())), P(at(T_ANY)))

    @staticmethod
    def stays_below(e):
        """the selected nodes are descendants-or-self of the context node (a relative path over downward axes, or a union of such)"""
        if e.get("op") == "bin" and e["o"] == "|":
            return XslGen.stays_below(e["a"]) and XslGen.stays_below(e["b"])
        if e.get("op") != "path" or e["abs"] or e["start"] != NONE:
            return False
        return all(st["axis"] in ("child", "descendant", "descendant-or-self", "self", "attribute") for st in e["steps"])

    # ------------------------------------------------------------------ instructions
    def sorts(self):
        out = []
        while self.r.random() < 0.3 and len(out) < 2:
            dt = self.r.choice(["text", "number"])
            sel = self.r.choice([P(step("self", T_NODE)), P(at(t_name("x"))), fn("name"), fn("string-length", P(step("self", T_NODE))), fn("count", P(ch(T_NODE)))])
            out.append({"sel": sel, "dtype": dt, "desc": self.r.random() < 0.4})
        return out

    def binding(self, name, scope, d):
        """variable / param / with-param: returns (binding, type)"""
        r = self.r.random()
        if r < 0.65:
            kind = self.r.choice(["num", "str", "bool", "ns"])
            return {"name": name, "hasSel": True, "sel": self.expr(scope, kind), "body": []}, kind
        if r < 0.75:
            return {"name": name, "hasSel": False, "sel": NONE, "body": []}, "str"
        return {"name": name, "hasSel": False, "sel": NONE, "body": self.body(scope, d - 1, allow_attr=False)}, "rtf"

    def avt(self, scope):
        parts = []
        for _ in range(self.r.choice([1, 1, 2, 3])):
            if self.r.random() < 0.5:
                parts.append({"lit": True, "s": cps(self.r.choice(["v", "1", " ", "x-", "a b"]))})
            else:
                parts.append({"lit": False, "e": self.expr(scope, self.r.choice(["str", "num", "ns", "bool"]), d=self.r.choice([0, 1]))})
        return parts

    def body(self, scope, d, allow_attr=True, in_elem=False, text_only=False):
        """text_only: the body of xsl:attribute / xsl:comment / xsl:processing-instruction must create text nodes only
        (anything else is an error in XSLT 1.0 7.1.3 / 7.3 / 7.4), so no template is called from it"""
        scope = dict(scope)
        out = []
        if in_elem and allow_attr and self.r.random() < 0.25:
            # instructions that create NOTHING (an empty string-value is no text node, 7.6.1; an empty node-set, a false test, an empty
            # xsl:text): the start tag of the element is still open for the xsl:attribute instructions that follow
            empty_ns = P(ch(t_name("zz")))
            childless = filt(P(dict(DOS), ch(T_ANY, fn("not", P(ch(T_NODE)))), abs_=True), num(1))      # an element without children: string-value ''
            hollow = [{"i": "value-of", "sel": empty_ns}, {"i": "value-of", "sel": lit("")}, {"i": "value-of", "sel": childless},
                      {"i": "value-of", "sel": fn("string", P(at(t_name("zz"))))}, {"i": "copy-of", "sel": empty_ns}, {"i": "copy-of", "sel": lit("")},
                      {"i": "if", "test": fn("false"), "body": [{"i": "text", "v": cps("no")}]}, {"i": "text", "v": cps("")},
                      {"i": "for-each", "sel": empty_ns, "sorts": [], "body": [{"i": "text", "v": cps("no")}]},
                      {"i": "value-of", "sel": P(ch(T_COMMENT, bin_("=", P(step("self", T_NODE)), lit(""))))}]
            for _ in range(self.r.choice([1, 1, 2])):
                out.append(dict(self.r.choice(hollow)))
            nh = len(out)
            while (self.r.random() < 0.8 or len(out) == nh) and len(out) < nh + 2:
                out.append({"i": "attribute", "name": [{"lit": True, "s": cps(self.r.choice(["p", "q", "x"]))}], "body": [{"i": "text", "v": cps("h")}]})
        elif in_elem and allow_attr:
            while self.r.random() < 0.35 and len(out) < 2:
                out.append({"i": "attribute", "name": [{"lit": True, "s": cps(self.r.choice(["p", "q", "x"]))}],
                            "body": (self.body(scope, 0, allow_attr=False, text_only=True) if self.r.random() < 0.6 else [{"i": "value-of", "sel": self.expr(scope, "any", d=1)}])
                                    + ([{"i": "message"}] if self.r.random() < 0.1 else [])})
        if text_only and self.r.random() < 0.3:
            # a result tree fragment BUILT inside xsl:attribute / xsl:comment / xsl:processing-instruction may hold elements: only what the
            # body finally creates there has to be text (7.1.3); the fragment's string-value is then written
            frag = self.r.choice([[{"i": "lre", "name": cps("e"), "attrs": [], "body": [{"i": "text", "v": cps("F")}]}, {"i": "text", "v": cps("g")}],
                                  [{"i": "copy-of", "sel": P(ch(T_ANY), abs_=True)}, {"i": "text", "v": cps("g")}],
                                  [{"i": "element", "name": [{"lit": True, "s": cps("h")}], "body": [{"i": "value-of", "sel": lit("H")}]}]])
            out.append({"i": "variable", "name": "tf", "hasSel": False, "sel": NONE, "body": frag})
            out.append({"i": "value-of", "sel": var("tf")})
        n = self.r.choice([1, 1, 2, 2, 3]) if d > 0 else self.r.choice([0, 1, 1])
        if self.named and not out and not text_only and getattr(self, "free", 0) == 0 and self.r.random() < 0.12:
            # a call-template as the only child of its parent (Xalan runs such a callee "directly")
            return [self.call_template(scope, allow_params=self.r.random() < 0.4)]
        for _ in range(n):
            out.append(self.instr(scope, d))
            if out[-1]["i"] == "variable":
                scope[out[-1]["name"]] = out[-1].pop("_type")
        if not text_only and self.r.random() < 0.08:
            # xsl:value-of select="." (Xalan streams the current node's string-value without making a value object) on a node whose
            # string-value is empty - an element without children, an empty comment: no text node, the attribute after it still applies
            cur_empty = self.r.choice([filt(P(dict(DOS), ch(T_ANY, fn("not", P(ch(T_NODE)))), abs_=True), num(1)),
                                       P(dict(DOS), ch(T_COMMENT, bin_("=", P(step("self", T_NODE)), lit(""))), abs_=True),
                                       P(dict(DOS), at(T_ANY, bin_("=", P(step("self", T_NODE)), lit(""))), abs_=True)])
            out.append({"i": "for-each", "sel": cur_empty, "sorts": [], "body": [{"i": "lre", "name": cps("hv"), "attrs": [], "body": [
                {"i": "value-of", "sel": P(step("self", T_NODE))},
                {"i": "attribute", "name": [{"lit": True, "s": cps("x")}], "body": [{"i": "text", "v": cps("h")}]}]}]})
        return out

    def call_template(self, scope, allow_params=True):
        params = []
        if allow_params and self.r.random() < 0.5:
            b, _ = self.binding(self.r.choice(["pa", "pb"]), scope, 1)
            params.append(b)
        return {"i": "call-template", "name": self.r.choice(self.named), "params": params}

    def instr(self, scope, d):
        r = self.r.random()
        if d <= 0:
            r = r * 0.3
        if r < 0.1:
            return {"i": "text", "v": cps(self.r.choice(["t", " ", "x y", "1", "-"]))}
        if r < 0.3:
            return {"i": "value-of", "sel": self.expr(scope, "any")}
        if r < 0.42:
            attrs = []
            for nm in self.r.sample(["p", "q", "x"], self.r.choice([0, 0, 1, 2])):
                attrs.append({"name": cps(nm), "avt": self.avt(scope)})
            return {"i": "lre", "name": cps(self.r.choice(["o", "p", "q"])), "attrs": attrs, "body": self.body(scope, d - 1, in_elem=True)}
        if r < 0.48:
            nm = [{"lit": True, "s": cps(self.r.choice(["e", "f"]))}] if self.r.random() < 0.6 else [{"lit": True, "s": cps("n")}, {"lit": False, "e": fn("count", P(ch(T_NODE)))}]
            return {"i": "element", "name": nm, "body": self.body(scope, d - 1, in_elem=True)}
        if r < 0.51:
            return {"i": "if", "test": self.expr(scope, "any"), "body": self.body(scope, d - 1, allow_attr=False)}
        if r < 0.54:
            return {"i": "extfb", "body": self.body(scope, d - 1, allow_attr=False)}
        if r < 0.6:
            whens = [{"test": self.expr(scope, "any"), "body": self.body(scope, d - 1, allow_attr=False)} for _ in range(self.r.choice([1, 2]))]
            return {"i": "choose", "whens": whens, "otherwise": self.body(scope, d - 1, allow_attr=False) if self.r.random() < 0.6 else []}
        if r < 0.7:
            # Termination by construction: every template application moves to a strict descendant of the node the calling template
            # was applied to.  Inside a for-each whose selection can leave that subtree (self.free > 0) no template is applied or called.
            sel = self.expr(scope, "ns", d=self.r.choice([0, 1])) if self.r.random() < 0.6 else self.down_ns(scope)
            srt = self.sorts()
            leaves = not self.stays_below(sel)
            self.free = getattr(self, "free", 0) + (1 if leaves else 0)
            try:
                b = self.body(scope, d - 1, allow_attr=False)
            finally:
                self.free -= 1 if leaves else 0
            return {"i": "for-each", "sel": sel, "sorts": srt, "body": b}
        if 0.7 <= r < 0.85 and getattr(self, "free", 0) > 0:
            return {"i": "value-of", "sel": self.expr(scope, "any")}
        if r < 0.8:
            has = self.r.random() < 0.6
            params = []
            if self.r.random() < 0.4:
                b, _ = self.binding(self.r.choice(["pa", "pb"]), scope, 1)
                params.append(b)
            return {"i": "apply-templates", "hasSel": has, "sel": self.down_ns(scope) if has else NONE, "mode": self.r.choice(self.modes),
                    "sorts": self.sorts(), "params": params}
        if r < 0.85 and self.named:
            return self.call_template(scope)
        if r < 0.9:
            return {"i": "copy", "body": self.body(scope, d - 1, in_elem=True)}
        if r < 0.95:
            rtfs = [k for k, t in scope.items() if t == "rtf"]
            if rtfs and self.r.random() < 0.4:
                return {"i": "copy-of", "sel": var(self.r.choice(rtfs))}
            if self.r.random() < 0.3:       # whole subtrees (3.4: stripped text nodes are not in them), comments and PIs included
                return {"i": "copy-of", "sel": self.r.choice([path([], abs_=True), path([ch(T_ANY)], abs_=True), path([step("self", T_NODE)]), path([step("parent", T_NODE)]),
                                                              path([step("ancestor-or-self", T_ANY, abbr=False)]), path([ch(T_NODE)])])}
            return {"i": "copy-of", "sel": self.expr(scope, self.r.choice(["ns", "ns", "str", "num"]), d=1)}
        if r < 0.955:
            pool = [P(ch(t_name("a"))), P(ch(t_name("b"))), P(ch(T_ANY)), bin_("|", P(ch(t_name("a"))), P(ch(t_name("b")))), P(ch(T_TEXT)), P(ch(T_ANY), ch(t_name("b")))]
            return {"i": "number", "instr": {"level": self.r.choice(["single", "multiple", "any"]), "hasCount": self.r.random() < 0.6, "count": self.r.choice(pool),
                                             "hasFrom": False, "from": pool[0]},
                    "fmt": cps(self.r.choice(["1", "1", "a", "I", "1.1", "(1)"]))}
        if r < 0.97:
            return {"i": self.r.choice(["comment", "pi"]), "name": cps("t"), "body": [{"i": "text", "v": cps("c")}] if self.r.random() < 0.5 else [{"i": "value-of", "sel": self.expr(scope, "str", d=0)}]}
        if r < 0.98:
            return {"i": "message"}          # xsl:message (not terminating): writes nothing to the result tree, wherever it stands
        self.nvar = getattr(self, "nvar", 0) + 1
        name = "v%d" % self.nvar
        # sometimes a local variable carries the name of a parameter that named templates declare
        free = [nm for nm in ("pa", "pb") if nm not in scope]
        if free and self.r.random() < 0.3:
            name = self.r.choice(free)
        b, t = self.binding(name, scope, d)
        b["i"] = "variable"
        b["_type"] = t
        return b

    # ------------------------------------------------------------------ stylesheet
    def stylesheet(self):
        gscope = {}
        gvars = []
        keys = []
        if self.r.random() < 0.4:
            for nm in self.r.sample(["k", "j"], self.r.choice([1, 2])):
                keys.append({"name": nm, "match": self.r.choice([P(ch(T_ANY)), P(ch(t_name("b"))), P(at(T_ANY)), P(ch(T_TEXT))]),
                             "use": self.r.choice([P(at(t_name("x"))), P(step("self", T_NODE)), fn("name"), P(ch(T_TEXT)), fn("count", P(ch(T_NODE)))])})
        self.keynames = [k["name"] for k in keys]
        strip = []
        if self.r.random() < 0.3:
            for _ in range(self.r.choice([1, 2])):
                nm = self.r.choice(["*", "a", "b", "c"])
                strip.append({"strip": self.r.random() < 0.7, "name": nm})
        for i in range(self.r.choice([0, 0, 1, 2])):
            b, t = self.binding("g%d" % i, gscope, 1)
            gvars.append(b)
            gscope[b["name"]] = t
        templates = []
        rid = 0
        # named templates first (no calls among them)
        for i in range(self.r.choice([0, 1, 1, 2])):
            rid += 1
            scope = dict(gscope)
            params = []
            for pn in self.r.sample(["pa", "pb"], self.r.choice([0, 1, 2])):
                b, t = self.binding(pn, scope, 1)
                params.append(b); scope[pn] = "any" if True else t
            templates.append({"rid": rid, "hasMatch": False, "match": NONE, "name": "t%d" % i, "mode": "", "hasPrio": False,
                              "prio": {"k": "fin", "neg": False, "m": 0}, "params": params, "body": self.body(scope, 2)})
        self.named = [t["name"] for t in templates]
        pool = MATCH_POOL()
        for i in range(self.r.randint(1, 5)):
            rid += 1
            scope = dict(gscope)
            params = []
            for pn in self.r.sample(["pa", "pb"], self.r.choice([0, 0, 1, 2])):
                b, t = self.binding(pn, scope, 1)
                params.append(b); scope[pn] = "any"
            pr = self.r.choice([None, None, None, -8, 0, 4, 8])
            templates.append({"rid": rid, "hasMatch": True, "match": self.r.choice(pool), "name": "", "mode": self.r.choice(self.modes), "hasPrio": pr is not None,
                              "prio": {"k": "fin", "neg": (pr or 0) < 0, "m": abs(pr or 0)}, "params": params, "body": self.body(scope, self.r.choice([1, 2, 2, 3]))})
        rid += 1
        templates.append({"rid": rid, "hasMatch": True, "match": P(abs_=True), "name": "", "mode": "", "hasPrio": False, "prio": {"k": "fin", "neg": False, "m": 0},
                          "params": [], "body": [{"i": "lre", "name": cps("out"), "attrs": [], "body": self.body(dict(gscope), 3, in_elem=True)}]})
        return {"templates": templates, "gvars": gvars, "keys": keys, "strip": strip}


def scoping_stylesheet(rng):
    """A family aimed at variable / parameter scoping across template boundaries: a caller holds a variable or parameter named
    like a parameter the callee declares; the callee is reached by call-template or apply-templates, with or without
    xsl:with-param, as the only child of its parent instruction or not, inside if / choose / for-each / a literal element /
    a variable body; the callee prints its parameters, so a value leaking in from (or lost to) the caller's frame shows."""
    P_ = lambda *steps, **kw: path(list(steps), **kw)
    val = lambda: lit(rng.choice(["caller", "c2", "1", ""]))
    def show():      # the callee prints both parameters and the global gq (a top-level variable first referenced in a nested template)
        return [{"i": "text", "v": cps("[")}, {"i": "value-of", "sel": var("pa")}, {"i": "text", "v": cps("|")},
                {"i": "value-of", "sel": var("pb")}, {"i": "text", "v": cps("|")}, {"i": "value-of", "sel": var("gq")}, {"i": "text", "v": cps("]")}]
    def param(name):
        r = rng.random()
        if r < 0.5:
            return {"name": name, "hasSel": True, "sel": lit("d-" + name), "body": []}
        if r < 0.75:
            return {"name": name, "hasSel": False, "sel": NONE, "body": []}
        return {"name": name, "hasSel": False, "sel": NONE, "body": [{"i": "text", "v": cps("rtf-" + name)}]}
    def with_params():
        out = []
        for nm in ("pa", "pb"):
            if rng.random() < 0.35:
                out.append({"name": nm, "hasSel": True, "sel": val(), "body": []})
        return out
    def call():
        if rng.random() < 0.55:
            return {"i": "call-template", "name": "callee", "params": with_params()}
        return {"i": "apply-templates", "hasSel": True, "sel": P_(ch(rng.choice([T_ANY, t_name("b"), T_NODE]))), "mode": "c", "sorts": [], "params": with_params()}
    def wrap(body):
        r = rng.random()
        if r < 0.12:
            return [{"i": "if", "test": fn("true"), "body": body}]
        if r < 0.24:
            return [{"i": "extfb", "body": body}]          # the fallback of an extension element nobody implements: a scope like any other
        if r < 0.35:
            return [{"i": "choose", "whens": [{"test": fn("false"), "body": []}, {"test": num(1), "body": body}], "otherwise": []}]
        if r < 0.5:
            return [{"i": "for-each", "sel": P_(step("self", T_NODE)), "sorts": [], "body": body}]
        if r < 0.65:
            return [{"i": "lre", "name": cps("w"), "attrs": [], "body": body}]
        if r < 0.75:
            return [{"i": "for-each", "sel": P_(ch(T_ANY)), "sorts": [], "body": body}]
        return body
    def caller_body(declared=()):
        pre = []
        scope_names = list(declared)
        for nm in rng.sample(["pa", "pb"], rng.choice([1, 1, 2])):
            if nm not in declared and rng.random() < 0.8:
                pre.append({"i": "variable", "name": nm, "hasSel": True, "sel": val(), "body": []})
                scope_names.append(nm)
        body = [call()]
        if rng.random() < 0.4:
            body = body + [{"i": "text", "v": cps(".")}] if rng.random() < 0.5 else [{"i": "text", "v": cps(".")}] + body
        body = wrap(body)
        if rng.random() < 0.3:
            body = wrap(body)
        post = [{"i": "value-of", "sel": var(nm)} for nm in scope_names]      # the caller's own bindings must survive the call
        return pre + body + post
    # which of the two parameters each callee DECLARES: a passed parameter the template does not declare is ignored (11.6), and
    # $name in it is the top-level variable of that name - also for the later nodes of one xsl:apply-templates, after another
    # template has bound the same passed parameter
    declares = lambda: rng.choice([("pa", "pb"), ("pa", "pb"), ("pa",), ("pb",), ()])
    d1, d2, d5 = declares(), declares(), declares()
    callee_params = [param(nm) for nm in d1]
    templates = [
        {"rid": 1, "hasMatch": False, "match": NONE, "name": "callee", "mode": "", "hasPrio": False, "prio": {"k": "fin", "neg": False, "m": 0},
         "params": callee_params, "body": show()},
        {"rid": 2, "hasMatch": True, "match": P_(ch(T_NODE)), "name": "", "mode": "c", "hasPrio": False, "prio": {"k": "fin", "neg": False, "m": 0},
         "params": [param(nm) for nm in d2], "body": show()},
        {"rid": 3, "hasMatch": True, "match": P_(ch(T_ANY)), "name": "", "mode": "", "hasPrio": False, "prio": {"k": "fin", "neg": False, "m": 0},
         "params": [], "body": []},
        {"rid": 4, "hasMatch": True, "match": P_(abs_=True), "name": "", "mode": "", "hasPrio": False, "prio": {"k": "fin", "neg": False, "m": 0},
         "params": [], "body": [{"i": "lre", "name": cps("out"), "attrs": [], "body": caller_body() + [{"i": "apply-templates", "hasSel": False, "sel": NONE, "mode": "", "sorts": [], "params": with_params()}]}]},
    ]
    templates.append({"rid": 5, "hasMatch": True, "match": P_(ch(t_name("b"))), "name": "", "mode": "c", "hasPrio": False, "prio": {"k": "fin", "neg": False, "m": 0},
                      "params": [param(nm) for nm in d5], "body": [{"i": "text", "v": cps("b")}] + show()})
    if rng.random() < 0.5:
        templates[2]["params"] = [param("pa")]
        templates[2]["body"] = [{"i": "lre", "name": cps("e"), "attrs": [], "body": caller_body(declared=("pa",))}]
    else:
        templates[2]["body"] = [{"i": "lre", "name": cps("e"), "attrs": [], "body": caller_body()}]
    gvars = []
    for nm in ("pa", "pb"):
        if not all(nm in d for d in (d1, d2, d5)) or (nm == "pb" and rng.random() < 0.3):
            gvars.append({"name": nm, "hasSel": True, "sel": lit("global-" + nm), "body": []})
    # 11.4: a top-level variable sees the root node as current node in a current node list of just the root node
    gq = rng.choice([fn("position"), fn("last"), bin_("+", fn("position"), fn("last")), fn("count", P_(ch(T_NODE))), fn("name", P_(ch(T_ANY))), lit("g")])
    if rng.random() < 0.3:
        gvars.append({"name": "gq", "hasSel": False, "sel": NONE, "body": [{"i": "value-of", "sel": gq}]})
    else:
        gvars.append({"name": "gq", "hasSel": True, "sel": gq, "body": []})
    return {"templates": templates, "gvars": gvars, "keys": [], "strip": []}


def sorting_stylesheet(rng):
    """The sorting family: for-each / apply-templates over tie-prone selections with 1-3 sort keys (name(), @x, child count,
    string length, text; text / number; ascending / descending mixed), whose body prints position(), last() and the node's
    name and @id - several keys only matter when nodes tie on the earlier ones, which these keys make the normal case."""
    P_ = lambda *steps, **kw: path(list(steps), **kw)
    def key():
        sel, dt = rng.choice([(fn("name"), "text"), (P_(at(t_name("x"))), "text"), (P_(at(t_name("x"))), "number"), (fn("count", P_(ch(T_NODE))), "number"),
                              (fn("string-length", P_(step("self", T_NODE))), "number"), (fn("count", P_(at(T_ANY))), "number"),
                              (P_(step("self", T_NODE)), "text"), (fn("local-name", P_(step("parent", T_NODE, abbr=False))), "text")])
        return {"sel": sel, "dtype": dt, "desc": rng.random() < 0.5}
    def sorts():
        return [key() for _ in range(rng.choice([1, 2, 2, 3]))]
    show = [{"i": "text", "v": cps("[")}, {"i": "value-of", "sel": fn("position")}, {"i": "text", "v": cps("/")}, {"i": "value-of", "sel": fn("last")},
            {"i": "text", "v": cps(":")}, {"i": "value-of", "sel": fn("name")}, {"i": "text", "v": cps("#")}, {"i": "value-of", "sel": P_(at(t_name("id")))},
            {"i": "text", "v": cps("]")}]
    sel = lambda: rng.choice([P_(step("descendant", T_ANY)), P_(ch(T_ANY), ch(T_ANY)), P_(step("descendant", T_NODE)), P_(ch(T_ANY), ch(T_NODE)),
                              bin_("|", P_(step("descendant", T_ANY)), P_(step("descendant", T_ANY), at(T_ANY)))])
    body = []
    for _ in range(rng.choice([1, 2])):
        if rng.random() < 0.5:
            body.append({"i": "lre", "name": cps("f"), "attrs": [], "body": [{"i": "for-each", "sel": sel(), "sorts": sorts(), "body": show}]})
        else:
            body.append({"i": "lre", "name": cps("a"), "attrs": [], "body": [{"i": "apply-templates", "hasSel": True, "sel": sel(), "mode": "s", "sorts": sorts(), "params": []}]})
    z = {"k": "fin", "neg": False, "m": 0}
    templates = [
        {"rid": 1, "hasMatch": True, "match": P_(abs_=True), "name": "", "mode": "", "hasPrio": False, "prio": z, "params": [],
         "body": [{"i": "lre", "name": cps("out"), "attrs": [], "body": body}]},
        {"rid": 2, "hasMatch": True, "match": bin_("|", P_(ch(T_NODE)), P_(at(T_ANY))), "name": "", "mode": "s", "hasPrio": False, "prio": z, "params": [], "body": show},
    ]
    return {"templates": templates, "gvars": [], "keys": [], "strip": []}


def stripcopy_stylesheet(rng):
    """The strip / copy family (3.4 with 7.5 and 11.3): strip-space / preserve-space declarations and every way a subtree reaches
    the result - xsl:copy-of of the root, of elements, of node lists; the identity rule (xsl:copy + apply-templates over
    node() and @*); value-of of string values; counts of text nodes - the stripped text nodes are in none of them."""
    P_ = lambda *steps, **kw: path(list(steps), **kw)
    z = {"k": "fin", "neg": False, "m": 0}
    strip = [{"strip": rng.random() < 0.75, "name": nm} for nm in rng.sample(["*", "a", "b", "c"], rng.choice([1, 2, 2]))]
    subtree = lambda: rng.choice([P_(abs_=True), P_(ch(T_ANY), abs_=True), P_(ch(T_ANY), ch(T_ANY), abs_=True), P_(DOS, ch(t_name("a")), abs_=True),
                                  P_(DOS, ch(t_name("b")), abs_=True), P_(ch(T_ANY), ch(T_NODE), abs_=True), P_(DOS, ch(T_TEXT), abs_=True),
                                  P_(DOS, ch(T_ANY, num(1)), abs_=True)])
    body = []
    for _ in range(rng.choice([1, 2, 3])):
        r = rng.random()
        if r < 0.4:
            body.append({"i": "lre", "name": cps("c"), "attrs": [], "body": [{"i": "copy-of", "sel": subtree()}]})
        elif r < 0.6:
            body.append({"i": "lre", "name": cps("i"), "attrs": [], "body": [{"i": "apply-templates", "hasSel": True, "sel": subtree(), "mode": "id", "sorts": [], "params": []}]})
        elif r < 0.8:
            body.append({"i": "lre", "name": cps("f"), "attrs": [], "body": [{"i": "for-each", "sel": subtree(), "sorts": [], "body": [
                {"i": "text", "v": cps("[")}, {"i": "value-of", "sel": fn("count", P_(ch(T_NODE)))}, {"i": "text", "v": cps(":")},
                {"i": "copy-of", "sel": P_(step("self", T_NODE))}, {"i": "text", "v": cps("]")}]}]})
        else:
            body.append({"i": "lre", "name": cps("n"), "attrs": [], "body": [{"i": "value-of", "sel": fn("count", P_(DOS, ch(T_TEXT), abs_=True))}, {"i": "text", "v": cps("|")},
                                                                             {"i": "value-of", "sel": fn("string-length", P_(ch(T_ANY), abs_=True))}]})
    templates = [
        {"rid": 1, "hasMatch": True, "match": P_(abs_=True), "name": "", "mode": "", "hasPrio": False, "prio": z, "params": [],
         "body": [{"i": "lre", "name": cps("out"), "attrs": [], "body": body}]},
        {"rid": 2, "hasMatch": True, "match": bin_("|", P_(ch(T_NODE)), P_(at(T_ANY))), "name": "", "mode": "id", "hasPrio": False, "prio": z, "params": [],
         "body": [{"i": "copy", "body": [{"i": "apply-templates", "hasSel": True, "sel": bin_("|", P_(ch(T_NODE)), P_(at(T_ANY))), "mode": "id", "sorts": [], "params": []}]}]},
    ]
    return {"templates": templates, "gvars": [], "keys": [], "strip": strip}


def rtfcompare_stylesheet(rng):
    """Result tree fragments as operands (XSLT 11.1: a fragment behaves like a node-set holding just its root node): a top-level
    and a local variable with content, compared with node-sets, strings, numbers, booleans and each other by every operator, and
    used as string / number / boolean.  Meant for a document whose text values look like numbers ('0.5', ' 4 ', '-2', 'abc')."""
    P_ = lambda *steps, **kw: path(list(steps), **kw)
    z = {"k": "fin", "neg": False, "m": 0}
    texts = ["4", "0.50", "-2.0", "abc", "", " 4 ", "0.5", "-2", "10"]
    def frag(name):
        t = rng.choice(texts)
        body = [{"i": "text", "v": cps(t)}] if t else []
        if rng.random() < 0.3:
            body = [{"i": "lre", "name": cps("w"), "attrs": [], "body": body}]
        return {"name": name, "hasSel": False, "sel": NONE, "body": body}
    ns = lambda: rng.choice([P_(DOS, ch(t_name("b")), abs_=True), P_(DOS, ch(T_TEXT), abs_=True), P_(DOS, at(t_name("x")), abs_=True), P_(ch(T_ANY), ch(T_ANY, num(2)), abs_=True)])
    other = lambda: rng.choice([ns(), ns(), lit(rng.choice(texts)), num(4), num8(4), fn("true"), fn("false"), var("g"), var("l")])
    items = []
    for _ in range(rng.choice([4, 6, 8])):
        o = rng.choice(["=", "!=", "<", "<=", ">", ">="])
        f = var(rng.choice(["g", "l"]))
        e = bin_(o, f, other()) if rng.random() < 0.5 else bin_(o, other(), f)
        items += [{"i": "value-of", "sel": e}, {"i": "text", "v": cps(",")}]
    items += [{"i": "value-of", "sel": fn("string-length", var("g"))}, {"i": "text", "v": cps(",")}, {"i": "value-of", "sel": bin_("+", var("l"), num(1))},
              {"i": "text", "v": cps(",")}, {"i": "value-of", "sel": fn("boolean", var("g"))}, {"i": "text", "v": cps(",")}, {"i": "value-of", "sel": fn("not", var("l"))}]
    templates = [{"rid": 1, "hasMatch": True, "match": P_(abs_=True), "name": "", "mode": "", "hasPrio": False, "prio": z, "params": [],
                  "body": [{"i": "lre", "name": cps("out"), "attrs": [], "body": [dict(frag("l"), i="variable")] + items}]}]
    return {"templates": templates, "gvars": [frag("g")], "keys": [], "strip": []}


def imports_stylesheet(rng):
    """The imports family (2.6.2, 5.5, 5.6): modules main(1) imports A(2) then B(3); A imports A1(4).  Template rules with overlapping
    patterns, modes and priorities are spread over the modules; bodies print the rule id, may continue with xsl:apply-imports (never
    inside xsl:for-each), xsl:apply-templates (children; with or without parameters) or call a named template that several modules
    define; contiguous runs of rules may live in xsl:include'd files.  Import precedence, lowest first: A1 < A < B < main."""
    P_ = lambda *steps, **kw: path(list(steps), **kw)
    z = {"k": "fin", "neg": False, "m": 0}
    mods = [{"id": 1, "imports": [2, 3]}, {"id": 2, "imports": [4]}, {"id": 3, "imports": []}, {"id": 4, "imports": []}]
    if rng.random() < 0.3:
        mods = [{"id": 1, "imports": [2]}, {"id": 2, "imports": [3, 4]}, {"id": 3, "imports": []}, {"id": 4, "imports": []}]
    pats = [P_(ch(t_name("a"))), P_(ch(t_name("b"))), P_(ch(T_ANY)), P_(ch(T_NODE)), P_(ch(T_TEXT)), P_(ch(t_name("a")), ch(t_name("b"))),
            bin_("|", P_(ch(t_name("a"))), P_(ch(t_name("c")))), P_(ch(T_ANY, P_(at(T_ANY)))), P_(ch(t_name("b"), num(1)))]
    templates, rid = [], 0
    def tag(txt):
        return {"i": "text", "v": cps(txt)}
    def cont(mode, in_main):
        r = rng.random()
        if r < 0.45:
            return [{"i": "apply-imports"}]
        if r < 0.7:
            ps = [{"name": "pa", "hasSel": True, "sel": lit("w"), "body": []}] if rng.random() < 0.4 else []
            return [{"i": "apply-templates", "hasSel": False, "sel": NONE, "mode": mode, "sorts": [], "params": ps}]
        if r < 0.8:
            return [{"i": "call-template", "name": "nt", "params": []}]
        if r < 0.9:
            return [{"i": "lre", "name": cps("w"), "attrs": [], "body": [{"i": "apply-imports"}]}, {"i": "apply-templates", "hasSel": False, "sel": NONE, "mode": mode, "sorts": [], "params": []}]
        return []
    for mid in (1, 2, 3, 4):
        for _ in range(rng.choice([1, 2, 2, 3])):
            rid += 1
            mode = rng.choice(["", "", "m"])
            pr = rng.choice([None, None, None, -8, 0, 4, 8])
            params = [{"name": "pa", "hasSel": True, "sel": lit("d%d" % rid), "body": []}] if rng.random() < 0.4 else []
            body = [tag("[%d" % rid)] + ([{"i": "value-of", "sel": var("pa")}] if params else []) + [tag(":")] + cont(mode, mid == 1) + [tag("]")]
            templates.append({"rid": rid, "hasMatch": True, "match": rng.choice(pats), "name": "", "mode": mode, "hasPrio": pr is not None,
                              "prio": {"k": "fin", "neg": (pr or 0) < 0, "m": abs(pr or 0)}, "params": params, "body": body, "mod": mid})
        if rng.random() < 0.5:
            rid += 1
            templates.append({"rid": rid, "hasMatch": False, "match": NONE, "name": "nt", "mode": "", "hasPrio": False, "prio": z, "params": [],
                              # xsl:call-template does not change the current template rule (5.6): apply-imports in the called template
                              # continues from the CALLING rule, in the caller's mode
                              "body": [tag("<nt%d>" % mid)] + ([{"i": "apply-imports"}, tag("</nt>")] if rng.random() < 0.4 else []), "mod": mid})
    if not any(t["name"] == "nt" for t in templates):
        rid += 1
        templates.append({"rid": rid, "hasMatch": False, "match": NONE, "name": "nt", "mode": "", "hasPrio": False, "prio": z, "params": [],
                          "body": [tag("<nt>")], "mod": rng.choice([1, 2, 3, 4])})
    # xsl:include: some contiguous runs of rules live in included files (same import precedence, position of the include element)
    ninc = 0
    for mid in (1, 2, 3, 4):
        idx = [j for j, t in enumerate(templates) if t["mod"] == mid]
        if len(idx) >= 2 and rng.random() < 0.4:
            a = rng.randrange(len(idx)); b = rng.randrange(a, len(idx))
            ninc += 1
            for j in idx[a:b + 1]:
                templates[j]["inc"] = ninc
    # top-level variables ga / gb bound in several modules (11.4: the binding with the highest import precedence counts); the
    # imported ones are closed expressions, the principal module's gb may refer to ga
    gvars = []
    for mid in (4, 3, 2):
        for nm in ("ga", "gb"):
            if mid == 4 or rng.random() < 0.5:
                gvars.append({"name": nm, "hasSel": True, "sel": lit("%s@%d" % (nm, mid)), "body": [], "mod": mid})
    if rng.random() < 0.4:
        gvars.append({"name": "gb", "hasSel": True, "sel": fn("concat", var("ga"), lit("+main")), "body": [], "mod": 1})
    rid += 1
    start = [{"i": "lre", "name": cps("g"), "attrs": [], "body": [{"i": "value-of", "sel": var("ga")}, tag("|"), {"i": "value-of", "sel": var("gb")}]},
             {"i": "apply-templates", "hasSel": False, "sel": NONE, "mode": "", "sorts": [], "params": []},
             {"i": "lre", "name": cps("m"), "attrs": [], "body": [{"i": "apply-templates", "hasSel": True, "sel": P_(step("descendant", T_ANY, abbr=False)), "mode": "m", "sorts": [], "params": []}]}]
    templates.append({"rid": rid, "hasMatch": True, "match": P_(abs_=True), "name": "", "mode": "", "hasPrio": False, "prio": z, "params": [],
                      "body": [{"i": "lre", "name": cps("out"), "attrs": [], "body": start}], "mod": 1})
    return {"templates": templates, "gvars": gvars, "keys": [], "strip": [], "mods": mods}


def multidoc_stylesheet(rng):
    """The multi-document family (12.1): document('d2.xml') / document('d3.xml') name two further source documents.  Node identity of a
    loaded document, keys, id(), xsl:number, sorting and template application inside a loaded document, strip-space applied to it,
    comparisons across documents.  Node-sets spanning several documents are only counted, never iterated (their relative order is
    implementation-dependent); templates for the loaded documents live in mode x, so the rule for "/" is not re-entered."""
    P_ = lambda *steps, **kw: path(list(steps), **kw)
    z = {"k": "fin", "neg": False, "m": 0}
    D = lambda k: fn("document", lit("d%d.xml" % k))
    def inD(k, *steps):
        return path(list(steps), start=D(k))
    tag = lambda t: {"i": "text", "v": cps(t)}
    vo = lambda e: {"i": "value-of", "sel": e}
    t = lambda: rng.choice([t_name("a"), t_name("b"), t_name("c"), T_ANY])
    show = [tag("["), vo(fn("position")), tag("/"), vo(fn("last")), tag(":"), vo(fn("name")), tag("#"), vo(P_(at(t_name("id")))), tag("]")]
    pieces = [
        lambda k: [tag("n="), vo(fn("count", inD(k, DOS, ch(T_NODE))))],
        lambda k: [tag("same="), vo(fn("count", bin_("|", D(k), D(k)))), tag(","), vo(fn("count", bin_("|", D(2), D(3)))), tag(","),
                   vo(fn("count", bin_("|", P_(abs_=True), D(k))))],
        lambda k: [{"i": "for-each", "sel": inD(k, DOS, ch(t())), "sorts": [], "body": show + [tag("k="), vo(fn("count", fn("key", lit("k"), P_(at(t_name("x"))))))]}],
        lambda k: [{"i": "for-each", "sel": inD(k, DOS, ch(t())), "sorts": [{"sel": fn("name"), "dtype": "text", "desc": rng.random() < 0.5},
                                                                               {"sel": fn("count", P_(ch(T_NODE))), "dtype": "number", "desc": rng.random() < 0.5}], "body": show}],
        lambda k: [{"i": "for-each", "sel": D(k), "sorts": [], "body": [tag("key="), vo(fn("count", fn("key", lit("k"), lit("1")))), tag(" id="), vo(fn("name", fn("id", lit("i2")))),
                                                                        tag(" root="), vo(fn("count", P_(abs_=True))), vo(fn("name", P_(ch(T_ANY), abs_=True)))]}],
        lambda k: [{"i": "apply-templates", "hasSel": True, "sel": inD(k, ch(T_ANY)), "mode": "x", "sorts": [], "params": []}],
        lambda k: [{"i": "apply-templates", "hasSel": True, "sel": inD(k, DOS, ch(t())), "mode": "x",
                    "sorts": [{"sel": P_(at(t_name("x"))), "dtype": rng.choice(["text", "number"]), "desc": rng.random() < 0.5}], "params": []}],
        lambda k: [{"i": "variable", "name": "d", "hasSel": True, "sel": D(k), "body": []},
                   vo(fn("count", bin_("|", path([DOS, ch(t_name("a"))], start=var("d")), path([DOS, ch(t_name("b"))], start=var("d"))))),
                   {"i": "copy-of", "sel": path([ch(T_ANY), ch(T_ANY, num(1))], start=var("d"))}],
        lambda k: [tag("eq="), vo(bin_("=", P_(DOS, ch(t_name("b")), abs_=True), inD(k, DOS, ch(t_name("b"))))), tag(" ws="), vo(fn("count", inD(k, DOS, ch(T_TEXT))))],
        lambda k: [{"i": "for-each", "sel": inD(k, DOS, ch(t())), "sorts": [], "body": [tag("("), {"i": "number", "instr": {"level": rng.choice(["single", "multiple", "any"]),
                    "hasCount": True, "count": bin_("|", P_(ch(t_name("a"))), P_(ch(t_name("b")))), "hasFrom": False, "from": P_(ch(t_name("a")))}, "fmt": cps("1.1")}, tag(")")]}],
    ]
    # key() / id() / lang() asked from context nodes of the loaded document while the CURRENT node stays in the main document
    pieces += [
        lambda k: [tag("xk="), vo(fn("count", inD(k, DOS, ch(T_ANY, bin_(">", fn("count", fn("key", lit("k"), P_(at(t_name("x"))))), num(0))))))],
        lambda k: [tag("xid="), vo(fn("count", inD(k, DOS, ch(T_ANY, bin_("=", fn("count", bin_("|", P_(step("self", T_NODE)), fn("id", lit("i1 i2 i3")))), num(3)))))),
                   tag(","), vo(fn("name", inD(k, DOS, ch(T_ANY, bin_("=", fn("generate-id"), fn("generate-id", fn("id", lit("i2"))))))))],
        lambda k: [tag("cur="), vo(fn("count", inD(k, DOS, ch(T_ANY, bin_("=", fn("name"), fn("name", path([ch(T_ANY)], start=fn("current"))))))))],
    ]
    body = []
    for _ in range(rng.choice([2, 3, 4])):
        body.append({"i": "lre", "name": cps(rng.choice(["p", "q"])), "attrs": [], "body": rng.choice(pieces)(rng.choice([2, 3]))})
    # document() with a NODE-SET argument (the main document then is the one whose nodes name d2.xml / d3.xml, some of them twice): the
    # result is a union - each named document once
    refs = rng.random() < 0.4
    if refs:
        NS_ARGS = [P_(DOS, ch(t_name("b")), abs_=True), bin_("|", P_(DOS, ch(t_name("b")), abs_=True), P_(DOS, at(T_ANY), abs_=True)), P_(DOS, ch(t_name("c")), at(T_ANY), abs_=True),
                   P_(DOS, ch(T_ANY), ch(T_ANY), abs_=True), P_(DOS, ch(t_name("b"), num(1)), abs_=True), bin_("|", P_(DOS, ch(t_name("b"), num(1)), abs_=True), P_(DOS, ch(t_name("b"), num(3)), abs_=True))]
        for a_ in rng.sample(NS_ARGS, 3):
            dn = fn("document", a_)
            body.append({"i": "lre", "name": cps("r"), "attrs": [], "body": [tag("n="), vo(fn("count", dn)), tag(" e="), vo(fn("count", path([ch(T_ANY)], start=dn))),
                         {"i": "for-each", "sel": dn, "sorts": [], "body": [tag("["), vo(fn("position")), tag("/"), vo(fn("last")), tag("]")]}]})
    templates = [
        {"rid": 1, "hasMatch": True, "match": P_(ch(T_ANY)), "name": "", "mode": "x", "hasPrio": False, "prio": z, "params": [],
         "body": show + ([{"i": "apply-templates", "hasSel": False, "sel": NONE, "mode": "x", "sorts": [], "params": []}] if rng.random() < 0.6 else [])},
        {"rid": 2, "hasMatch": True, "match": P_(ch(T_TEXT)), "name": "", "mode": "x", "hasPrio": False, "prio": z, "params": [],
         "body": [tag("{"), vo(fn("string-length", P_(step("self", T_NODE)))), tag("}")]},
        {"rid": 3, "hasMatch": True, "match": P_(abs_=True), "name": "", "mode": "", "hasPrio": False, "prio": z, "params": [],
         "body": [{"i": "lre", "name": cps("out"), "attrs": [], "body": body}]},
    ]
    keys = [{"name": "k", "match": rng.choice([P_(ch(T_ANY)), P_(ch(t_name("b")))]), "use": rng.choice([P_(at(t_name("x"))), fn("count", P_(ch(T_NODE)))])}]
    strip = [{"strip": True, "name": rng.choice(["*", "a", "b"])}] if rng.random() < 0.5 else []
    return {"templates": templates, "gvars": [], "keys": keys, "strip": strip, "ndocs": 2, "refs": refs}


def attrsets_stylesheet(rng):
    """The attribute-set family (7.1.4, 7.5): sets s0..s2 defined in the principal module and in an imported one (merged by import
    precedence), sets using sets, use-attribute-sets on literal result elements, xsl:element and xsl:copy - also when the node copied is
    the root, a text node or an attribute (the sets are then NOT used) - overridden by literal attributes and xsl:attribute children;
    the attribute templates read the current node and a top-level variable."""
    P_ = lambda *steps, **kw: path(list(steps), **kw)
    z = {"k": "fin", "neg": False, "m": 0}
    tag = lambda t: {"i": "text", "v": cps(t)}
    vo = lambda e: {"i": "value-of", "sel": e}
    nm = lambda t: [{"lit": True, "s": cps(t)}]
    def attr(name, body):
        return {"name": nm(name), "body": body}
    vals = [lambda: [tag(rng.choice(["low", "v", ""]))], lambda: [vo(fn("name"))], lambda: [vo(fn("position"))], lambda: [vo(var("gs"))],
            lambda: [vo(fn("count", P_(ch(T_NODE))))], lambda: [tag("n"), vo(P_(at(t_name("x"))))]]
    attrsets = []
    for sname, mods_ in (("s0", [2, 1]), ("s1", [2]), ("s2", [1])):
        for mid in mods_:
            if len(mods_) > 1 and mid == 1 and rng.random() < 0.3:
                continue
            names = rng.sample(["p", "q", "x"], rng.choice([1, 2]))
            uses = []
            if sname == "s1" and rng.random() < 0.7: uses = ["s0"]
            if sname == "s2" and rng.random() < 0.6: uses = rng.sample(["s0", "s1"], rng.choice([1, 2]))
            attrsets.append({"name": sname, "uses": uses, "attrs": [attr(n_, rng.choice(vals)()) for n_ in names], "mod": mid})
    def uses():
        return rng.sample(["s0", "s1", "s2"], rng.choice([1, 1, 2]))
    def own_attrs():
        return [{"i": "attribute", "name": nm(rng.choice(["p", "q", "y"])), "body": [tag("own")]}] if rng.random() < 0.5 else []
    def user(d):
        r = rng.random()
        inner = [user(d - 1)] if d > 0 and rng.random() < 0.4 else [tag("t")]
        if r < 0.35:
            lits = [{"name": cps(n_), "avt": nm("lit")} for n_ in rng.sample(["p", "q", "x"], rng.choice([0, 1]))]
            return {"i": "lre", "name": cps(rng.choice(["e", "f"])), "attrs": lits, "uses": uses(), "body": own_attrs() + inner}
        if r < 0.6:
            return {"i": "element", "name": nm(rng.choice(["g", "h"])), "uses": uses(), "body": own_attrs() + inner}
        return {"i": "copy", "uses": uses(), "body": own_attrs() + inner}
    copy_any = {"i": "for-each", "sel": rng.choice([bin_("|", P_(abs_=True), P_(ch(T_ANY))), bin_("|", P_(ch(T_NODE)), P_(at(T_ANY))), P_(step("self", T_NODE)),
                                                    bin_("|", P_(abs_=True), P_(DOS, ch(T_TEXT), abs_=True))]),
                "sorts": [], "body": [{"i": "copy", "uses": uses(), "body": [tag("c")] if rng.random() < 0.5 else []}]}
    templates = [
        {"rid": 1, "hasMatch": True, "match": P_(ch(T_ANY)), "name": "", "mode": "", "hasPrio": False, "prio": z, "params": [],
         # a LOCAL variable with the name of the top-level one the attribute templates read: they must not see it (7.1.4)
         "body": ([{"i": "variable", "name": "gs", "hasSel": True, "sel": lit("L"), "body": []}] if rng.random() < 0.5 else []) + [user(1)]
                 + ([{"i": "apply-templates", "hasSel": False, "sel": NONE, "mode": "", "sorts": [], "params": []}] if rng.random() < 0.7 else []), "mod": 1},
        {"rid": 2, "hasMatch": True, "match": P_(ch(T_TEXT)), "name": "", "mode": "", "hasPrio": False, "prio": z, "params": [], "body": [{"i": "copy", "uses": uses(), "body": []}], "mod": 1},
        {"rid": 3, "hasMatch": True, "match": P_(abs_=True), "name": "", "mode": "", "hasPrio": False, "prio": z, "params": [],
         "body": [{"i": "lre", "name": cps("out"), "attrs": [], "uses": uses() if rng.random() < 0.5 else [], "body": [
                      {"i": "lre", "name": cps("w"), "attrs": [], "body": [copy_any]},
                      {"i": "apply-templates", "hasSel": False, "sel": NONE, "mode": "", "sorts": [], "params": []}]}], "mod": 1},
    ]
    gvars = [{"name": "gs", "hasSel": True, "sel": lit("G"), "body": [], "mod": 1}]
    return {"templates": templates, "gvars": gvars, "keys": [], "strip": [], "mods": [{"id": 1, "imports": [2]}, {"id": 2, "imports": []}], "attrsets": attrsets}


# ------------------------------------------------------------------------------------------ rendering
def exec_doc(depth=5):
    """the source document of the executor family: every element has the children (element, comment, element) and an id attribute that
    spells its path, so that the i-th selected node of an instruction executed at node p is recognisable in the output"""
    def el(path, d):
        kids = [] if d == 0 else [el(path + "1", d - 1), xdm.C("c" + path), el(path + "3", d - 1)]
        return xdm.E("e", *kids, a=[xdm.A("id", "n" + path)])
    return xdm.R(el("", depth))


def exec_stylesheet(prog):
    """an abstract program of spec/impl/ExecImpl.tla ([n, el]: element i = el[i-1]) as a stylesheet:
    template 1 matches '/', a template reached by call-template is named t<i>, one reached by apply-templates matches node() in mode m<i>;
    for-each over 2 nodes selects '*', over none 'zz'; apply-templates over (rule, none, rule) selects node() = (element, comment, element),
    over (none) comment(), over () zz; value-of prints the current node's id; a text that is the only child of xsl:comment is written bare."""
    el = prog["el"]
    E = lambda i: el[i - 1]
    P_ = lambda *steps, **kw: path(list(steps), **kw)
    called = {e["target"] for e in el if e["kind"] == "call"}
    applied = {e["target"] for e in el if e["kind"] == "apply"}
    NODESEL = {0: P_(ch(t_name("zz"))), 1: P_(ch(T_COMMENT)), 2: P_(ch(T_ANY)), 3: P_(ch(T_NODE))}

    def body(i):
        out = []
        for k in E(i)["kids"]:
            out.extend(instr(k))
        return out

    def params(i):
        return [{"name": "w%d" % k, "hasSel": True, "sel": lit("p"), "body": []} for k in E(i)["kids"]]

    def instr(i):
        e = E(i); k = e["kind"]
        if k == "text":
            bare = E(e["parent"])["kind"] == "comment" and len(E(e["parent"])["kids"]) == 1
            return [dict({"i": "text", "v": cps("t%d" % i)}, **({"bare": True} if bare else {}))]
        if k == "valueof":
            return [{"i": "value-of", "sel": fn("concat", lit("["), P_(at(t_name("id"))), lit("]"))}]
        if k == "lre":
            return [{"i": "lre", "name": cps("l%d" % i), "attrs": [], "body": body(i)}]
        if k == "foreach":
            return [{"i": "for-each", "sel": NODESEL[len(e["nodes"])] if len(e["nodes"]) != 1 else P_(ch(t_name("e"), num(1))), "sorts": [], "body": body(i)}]
        if k == "apply":
            return [{"i": "apply-templates", "hasSel": True, "sel": NODESEL[len(e["nodes"])], "mode": "m%d" % e["target"], "sorts": [], "params": params(i)}]
        if k == "call":
            return [{"i": "call-template", "name": "t%d" % e["target"], "params": params(i)}]
        if k == "if":
            return [{"i": "if", "test": fn("true" if e["b"] else "false"), "body": body(i)}]
        if k == "choose":
            whens = [{"test": fn("true" if E(w)["b"] else "false"), "body": body(w)} for w in e["kids"] if E(w)["kind"] == "when"]
            oth = [w for w in e["kids"] if E(w)["kind"] == "otherwise"]
            ob = body(oth[0]) if oth else []
            if oth and not ob:
                ob = [{"i": "text", "v": cps("")}]          # an xsl:otherwise without content must still be written (it ends the choice)
            return [{"i": "choose", "whens": whens, "otherwise": ob}]
        if k == "var":
            return [{"i": "variable", "name": "v%d" % i, "hasSel": False, "sel": NONE, "body": body(i)}]
        if k == "copyvar":
            return [{"i": "text", "v": cps("{")}, {"i": "copy-of", "sel": var("v%d" % e["ref"])}, {"i": "text", "v": cps("}")}]
        if k == "comment":
            return [{"i": "comment", "body": body(i)}]
        raise ValueError(k)

    templates = []
    for i, e in enumerate(el, 1):
        if e["kind"] != "template":
            continue
        t = {"rid": i, "hasMatch": False, "match": NONE, "name": "", "mode": "", "hasPrio": False, "prio": {"k": "fin", "neg": False, "m": 0}, "params": [], "body": body(i)}
        if i == 1:
            t["hasMatch"], t["match"] = True, P_(abs_=True)
        else:
            if i in called:
                t["name"] = "t%d" % i
            if i in applied:
                t["hasMatch"], t["match"], t["mode"] = True, P_(ch(T_ANY)), "m%d" % i
        templates.append(t)
    return {"templates": templates, "gvars": [], "keys": [], "strip": []}


def s(cp):
    return "".join(chr(c) for c in cp)


def r_avt(parts):
    out = ""
    for p in parts:
        if p["lit"]:
            out += s(p["s"]).replace("{", "{{").replace("}", "}}")
        else:
            out += "{" + xpgen.render(p["e"]) + "}"
    return quoteattr(out)


def r_binding(tag, b):
    if b["hasSel"]:
        return '<xsl:%s name="%s" select=%s/>' % (tag, b["name"], quoteattr(xpgen.render(b["sel"])))
    if not b["body"]:
        return '<xsl:%s name="%s"/>' % (tag, b["name"])
    return '<xsl:%s name="%s">%s</xsl:%s>' % (tag, b["name"], r_body(b["body"]), tag)


def r_sorts(sorts):
    return "".join('<xsl:sort select=%s data-type="%s" order="%s"/>' % (quoteattr(xpgen.render(k["sel"])), k["dtype"], "descending" if k["desc"] else "ascending") for k in sorts)


def r_body(body):
    return "".join(r_instr(x) for x in body)


def r_instr(x):
    i = x["i"]
    if i == "text":
        if x.get("bare"):
            return escape(s(x["v"]))             # literal text of the template itself (an ElemTextLiteral child, no xsl:text around it)
        return "<xsl:text>%s</xsl:text>" % escape(s(x["v"]))
    if i == "value-of":
        return "<xsl:value-of select=%s/>" % quoteattr(xpgen.render(x["sel"]))
    if i == "lre":
        a = (' xsl:use-attribute-sets="%s"' % " ".join(x["uses"]) if x.get("uses") else "") + "".join(" %s=%s" % (s(at_["name"]), r_avt(at_["avt"])) for at_ in x["attrs"])
        return "<%s%s>%s</%s>" % (s(x["name"]), a, r_body(x["body"]), s(x["name"]))
    if i == "element":
        return "<xsl:element name=%s%s>%s</xsl:element>" % (r_avt(x["name"]), ' use-attribute-sets="%s"' % " ".join(x["uses"]) if x.get("uses") else "", r_body(x["body"]))
    if i == "attribute":
        return "<xsl:attribute name=%s>%s</xsl:attribute>" % (r_avt(x["name"]), r_body(x["body"]))
    if i == "comment":
        return "<xsl:comment>%s</xsl:comment>" % r_body(x["body"])
    if i == "pi":
        return '<xsl:processing-instruction name="%s">%s</xsl:processing-instruction>' % (s(x["name"]), r_body(x["body"]))
    if i == "if":
        return "<xsl:if test=%s>%s</xsl:if>" % (quoteattr(xpgen.render(x["test"])), r_body(x["body"]))
    if i == "extfb":
        return "<xfb:nonesuch><xsl:fallback>%s</xsl:fallback></xfb:nonesuch>" % r_body(x["body"])
    if i == "choose":
        o = "<xsl:choose>" + "".join("<xsl:when test=%s>%s</xsl:when>" % (quoteattr(xpgen.render(w["test"])), r_body(w["body"])) for w in x["whens"])
        if x["otherwise"]:
            o += "<xsl:otherwise>%s</xsl:otherwise>" % r_body(x["otherwise"])
        return o + "</xsl:choose>"
    if i == "for-each":
        return "<xsl:for-each select=%s>%s%s</xsl:for-each>" % (quoteattr(xpgen.render(x["sel"])), r_sorts(x["sorts"]), r_body(x["body"]))
    if i == "apply-templates":
        a = (" select=%s" % quoteattr(xpgen.render(x["sel"])) if x["hasSel"] else "") + (' mode="%s"' % x["mode"] if x["mode"] else "")
        return "<xsl:apply-templates%s>%s%s</xsl:apply-templates>" % (a, r_sorts(x["sorts"]), "".join(r_binding("with-param", b) for b in x["params"]))
    if i == "call-template":
        return '<xsl:call-template name="%s">%s</xsl:call-template>' % (x["name"], "".join(r_binding("with-param", b) for b in x["params"]))
    if i == "apply-imports":
        return "<xsl:apply-imports/>"
    if i == "copy":
        return "<xsl:copy%s>%s</xsl:copy>" % (' use-attribute-sets="%s"' % " ".join(x["uses"]) if x.get("uses") else "", r_body(x["body"]))
    if i == "copy-of":
        return "<xsl:copy-of select=%s/>" % quoteattr(xpgen.render(x["sel"]))
    if i == "variable":
        return r_binding("variable", x)
    if i == "number":
        ins = x["instr"]
        a = ' level="%s"' % ins["level"]
        if ins["hasCount"]:
            a += " count=%s" % quoteattr(xpgen.render(ins["count"]))
        if ins["hasFrom"]:
            a += " from=%s" % quoteattr(xpgen.render(ins["from"]))
        if s(x["fmt"]) != "1":
            a += " format=%s" % quoteattr(s(x["fmt"]))
        return "<xsl:number%s/>" % a
    if i == "message":
        return "<xsl:message>m</xsl:message>"
    raise ValueError(i)


def r_template(t):
    a = ""
    if t["hasMatch"]:
        a += " match=%s" % quoteattr(xpgen.render(t["match"]))
    if t["name"]:
        a += ' name="%s"' % t["name"]
    if t["mode"]:
        a += ' mode="%s"' % t["mode"]
    if t["hasPrio"]:
        m = t["prio"]["m"]
        a += ' priority="%s%s"' % ("-" if t["prio"]["neg"] else "", xpgen.num_text(m))
    return "<xsl:template%s>%s%s</xsl:template>" % (a, "".join(r_binding("param", b) for b in t["params"]), r_body(t["body"]))


def module_file(mid):
    return "main.xsl" if mid == 1 else "m%d.xsl" % mid


def render_modules(ss):
    """{file name: text}: main.xsl is the principal module (id 1); module k > 1 is m<k>.xsl"""
    mods = ss.get("mods") or [{"id": 1, "imports": []}]
    out = {}
    import json as _json
    # an element of a namespace that is designated as an extension namespace and that no processor implements: its xsl:fallback children
    # are instantiated (XSLT 15)
    HDR = XSLNS + (' xmlns:xfb="urn:c01:no-such-extension" extension-element-prefixes="xfb"' if '"i": "extfb"' in _json.dumps(ss) else "")
    for m in mods:
        lines = ['<xsl:stylesheet version="1.0" %s>' % HDR]
        for im in m["imports"]:
            lines.append('<xsl:import href="%s"/>' % module_file(im))
        if m["id"] == 1:
            for k in ss.get("keys", []):
                lines.append('<xsl:key name="%s" match=%s use=%s/>' % (k["name"], quoteattr(xpgen.render(k["match"])), quoteattr(xpgen.render(k["use"]))))
            for d in ss.get("strip", []):
                lines.append('<xsl:%s-space elements="%s"/>' % ("strip" if d["strip"] else "preserve", d["name"]))
        for a_ in ss.get("attrsets", []):
            if a_.get("mod", 1) == m["id"]:
                lines.append('<xsl:attribute-set name="%s"%s>%s</xsl:attribute-set>' % (
                    a_["name"], ' use-attribute-sets="%s"' % " ".join(a_["uses"]) if a_["uses"] else "",
                    "".join("<xsl:attribute name=%s>%s</xsl:attribute>" % (r_avt(t["name"]), r_body(t["body"])) for t in a_["attrs"])))
        for g in ss["gvars"]:
            if g.get("mod", 1) == m["id"]:
                lines.append(r_binding("variable", {k: v for k, v in g.items() if k != "mod"}))
        # templates of this module in stylesheet order; a contiguous run marked "inc": k lives in the file inc<k>.xsl, pulled in by an
        # xsl:include at that position (2.6.1: the included rules are treated as if they stood where the xsl:include element is)
        prev_inc = None
        for t in ss["templates"]:
            if t.get("mod", 1) != m["id"]:
                continue
            k = t.get("inc")
            if k is None:
                lines.append(r_template(t)); prev_inc = None
            else:
                fname = "inc%d.xsl" % k
                if prev_inc != k:
                    lines.append('<xsl:include href="%s"/>' % fname)
                    out[fname] = '<xsl:stylesheet version="1.0" %s>\n' % HDR
                out[fname] += r_template(t) + "\n"
                prev_inc = k
        lines.append("</xsl:stylesheet>")
        out[module_file(m["id"])] = "\n".join(lines) + "\n"
    for f in out:
        if f.startswith("inc"):
            out[f] += "</xsl:stylesheet>\n"
    return out


def render(ss):
    """the principal module's text (the whole stylesheet when there are no imports)"""
    return render_modules(ss)["main.xsl"]


def spec_stylesheet(ss):
    """the stylesheet as XSLTSem.tla sees it"""
    out = spec_form({"templates": [dict(t, mod=t.get("mod", 1)) for t in ss["templates"]], "gvars": [dict(g, mod=g.get("mod", 1)) for g in ss["gvars"]]})
    out["mods"] = ss.get("mods") or [{"id": 1, "imports": []}]
    out["attrsets"] = spec_form([dict(a_, mod=a_.get("mod", 1)) for a_ in ss.get("attrsets", [])])
    # document() documents: d2.xml, d3.xml, ... are documents 2, 3, ... of the forest the spec is given
    out["docs"] = [{"uri": cps("d%d.xml" % (j + 2)), "idx": j + 2} for j in range(ss.get("ndocs", 0))]
    out["keys"] = [{"name": cps(k["name"]), "match": spec_form(k["match"]), "use": spec_form(k["use"])} for k in ss.get("keys", [])]
    out["strip"] = [{"strip": d["strip"], "prec": 1,
                     "test": {"t": "any"} if d["name"] == "*" else {"t": "name", "uri": [], "local": cps(d["name"])}} for d in ss.get("strip", [])]
    return out


def spec_form(x):
    """AST as XSLTSem.tla sees it: strings become code point lists where the spec compares them with document strings"""
    if isinstance(x, dict):
        return {k: spec_form(v) for k, v in x.items() if k not in ("abbr", "prefix", "_type", "inc", "bare")}
    if isinstance(x, list):
        return [spec_form(v) for v in x]
    return x
