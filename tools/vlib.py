"""Common orchestration for /verif/tools/check: building /repo and the harness, running TLC
(model checking, behaviour export, trace validation), known findings, evidence files."""
import hashlib, json, os, re, shutil, subprocess, sys, time, glob

ROOT = os.path.dirname(os.path.dirname(os.path.abspath(__file__)))
REPO = os.environ.get("VERIF_REPO", "/repo")
WORK = os.path.join(ROOT, ".work")
SPEC = os.path.join(ROOT, "spec")
SPEC_DIRS = [os.path.join(SPEC, d) for d in ("core", "impl", "system", "mc", "trace")]
JARS = "/opt/veriftools/tla/tla2tools.jar:/opt/veriftools/tla/CommunityModules-deps.jar"
NCPU = os.cpu_count() or 4


class Infra(Exception):
    """infrastructure error: exit 2, never a VIOLATION"""


def log(*a):
    print(*a, file=sys.stderr, flush=True)


def sh(cmd, **kw):
    return subprocess.run(cmd, shell=isinstance(cmd, str), **kw)


_CREATED = []


def workdir(name):
    d = os.path.join(WORK, name)
    shutil.rmtree(d, ignore_errors=True)
    os.makedirs(d, exist_ok=True)
    _CREATED.append(d)
    return d


def cleanup_workdirs():
    if os.environ.get("VERIF_KEEP"):
        return
    for d in _CREATED:
        shutil.rmtree(d, ignore_errors=True)


# ------------------------------------------------------------------------------------------ build
def build_repo(flavour="hooks"):
    env = dict(os.environ, VERIF_REPO=REPO)
    r = sh([os.path.join(ROOT, "tools", "build_repo"), flavour], capture_output=True, text=True, env=env)
    if r.returncode != 0:
        raise Infra("build of %s (%s) failed:\n%s" % (REPO, flavour, r.stderr[-3000:]))
    return r.stdout.strip().splitlines()[-1]


def _newer(a, b):
    return os.path.getmtime(a) > os.path.getmtime(b)


def build_harness(name, flavour="hooks", extra_flags=(), libs=()):
    """compile harness/<name>.cpp against the fresh build of the working tree"""
    bdir = build_repo(flavour)
    src = os.path.join(ROOT, "harness", name + ".cpp")
    exe = os.path.join(bdir, "xv_" + name)
    lib = os.path.join(bdir, "src", "xalanc", "libxalan-c.so")
    deps = [src, lib] + glob.glob(os.path.join(ROOT, "harness", "*.hpp"))
    if os.path.exists(exe) and all(not _newer(d, exe) for d in deps):
        return exe
    inc = [REPO + "/src", bdir + "/src", bdir + "/src/xalanc/NLS/include", bdir + "/src/xalanc/PlatformSupport",
           bdir + "/src/xalanc/NLS/gen", os.path.join(ROOT, "harness")]
    flags = ["-std=c++14", "-O1", "-g1", "-DNDEBUG", "-DAPACHE_XALAN_C_VERIF", "-Wno-deprecated-declarations"]
    if flavour == "asan":
        flags += ["-fsanitize=address,undefined,float-cast-overflow", "-fno-sanitize-recover=undefined,float-cast-overflow", "-fno-sanitize=vptr", "-fno-omit-frame-pointer"]
    cmd = ["c++"] + flags + list(extra_flags) + ["-I" + i for i in inc] + [src, "-o", exe + ".tmp",
           "-L" + bdir + "/src/xalanc", "-L" + bdir + "/src/xalanc/Utils/XalanMsgLib",
           "-Wl,-rpath," + bdir + "/src/xalanc", "-Wl,-rpath," + bdir + "/src/xalanc/Utils/XalanMsgLib",
           "-lxalan-c", "-lxalanMsg", "-lxerces-c", "-licuuc", "-licui18n", "-lpthread"] + list(libs)
    r = sh(cmd, capture_output=True, text=True)
    if r.returncode != 0:
        raise Infra("harness %s does not compile against %s:\n%s" % (name, REPO, r.stderr[-4000:]))
    os.replace(exe + ".tmp", exe)
    return exe


# -------------------------------------------------------------------------------------------- TLC
def tlc(module, cfg=None, workers=1, env=None, timeout=900, simulate=None, depth=None, seed=None,
        xmx="8g", extra=(), name=None, deadlock=False, depthfirst=False):
    """module: path of the root .tla; returns dict(rc, out, generated, distinct, ok)"""
    mdir = os.path.dirname(os.path.abspath(module))
    base = os.path.splitext(os.path.basename(module))[0]
    cfg = cfg or os.path.join(mdir, base + ".cfg")
    meta = workdir("tlc-" + (name or base) + "-" + str(os.getpid()))
    libs = ":".join(d for d in SPEC_DIRS if os.path.abspath(d) != mdir)
    java = ["java", "-XX:+UseParallelGC", "-Xss64m", "-Xmx" + xmx, "-DTLA-Library=" + libs]
    if depthfirst:
        java.append("-Dtlc2.tool.queue.IStateQueue=StateDeque")
    cmd = java + ["-cp", JARS, "tlc2.TLC", "-workers", str(workers), "-metadir", meta, "-config", cfg]
    if not deadlock:
        cmd.append("-deadlock")
    if simulate:
        cmd += ["-simulate", "num=%d" % simulate]
        if depth:
            cmd += ["-depth", str(depth)]
    if seed is not None:
        cmd += ["-seed", str(seed)]
    cmd += list(extra) + [module]
    e = dict(os.environ)
    e.pop("JAVA_TOOL_OPTIONS", None)
    if env:
        e.update({k: str(v) for k, v in env.items()})
    t0 = time.time()
    try:
        r = subprocess.run(cmd, cwd=mdir, env=e, capture_output=True, text=True, timeout=timeout)
        out, rc = r.stdout + r.stderr, r.returncode
    except subprocess.TimeoutExpired as ex:
        out, rc = ((ex.stdout or b"").decode("utf8", "replace") if isinstance(ex.stdout, bytes) else (ex.stdout or "")) + "\nTIMEOUT", 124
    shutil.rmtree(meta, ignore_errors=True)
    res = {"rc": rc, "out": out, "wall": time.time() - t0, "generated": 0, "distinct": 0, "cmd": " ".join(cmd)}
    m = re.findall(r"(\d+) states generated, (\d+) distinct states found", out)
    if m:
        res["generated"], res["distinct"] = int(m[-1][0]), int(m[-1][1])
    m = re.findall(r"The depth of the complete state graph search is (\d+)", out)
    if m:
        res["depth"] = int(m[-1])
    res["ok"] = (rc == 0)
    return res


def tlc_mc(module, cfg=None, **kw):
    """model-check; raises Infra unless TLC finishes without error"""
    kw.setdefault("workers", NCPU)
    r = tlc(module, cfg, **kw)
    if not r["ok"]:
        raise Infra("model checking %s failed (rc=%s):\n%s" % (module, r["rc"], r["out"][-4000:]))
    return r


def write_ndjson(path, records):
    with open(path, "w") as f:
        for r in records:
            f.write(json.dumps(r, separators=(",", ":")) + "\n")


def read_ndjson(path):
    out = []
    with open(path) as f:
        for line in f:
            line = line.strip()
            if line:
                out.append(json.loads(line))
    return out


def tlc_validate(trace_module, trace_path, env=None, timeout=1800, name=None, xmx="6g"):
    """Run a Trace_*.tla over one ndjson trace.  Returns list of reject records (possibly empty).
    The trace spec's Finish action writes $REJECTS with a first record {"done":true,"lines":N}."""
    rej = trace_path + ".rejects"
    if os.path.exists(rej):
        os.remove(rej)
    e = {"TRACE": trace_path, "REJECTS": rej}
    if env:
        e.update(env)
    r = tlc(trace_module, workers=1, env=e, timeout=timeout, name=name, xmx=xmx)
    if not os.path.exists(rej):
        errs = re.findall(r"(?s)Error: .*?(?=\nState \d+:|\Z)", r["out"])
        raise Infra("trace validation did not complete (%s, rc=%s, trace %s):\n%s\n...\n%s" % (
            trace_module, r["rc"], trace_path, "\n".join(e[:1500] for e in errs[:3]), r["out"][-600:]))
    recs = read_ndjson(rej)
    if not recs or not recs[0].get("done"):
        raise Infra("trace validation wrote no completion marker: %s" % rej)
    nlines = sum(1 for _ in open(trace_path))
    if recs[0].get("lines") != nlines:
        raise Infra("trace validation consumed %s of %s lines" % (recs[0].get("lines"), nlines))
    r["dropped"] = [x for x in recs[1:] if x.get("msg") == "DROP"]
    return [x for x in recs[1:] if x.get("msg") != "DROP"], r


def split_executions(events):
    """split an event list into executions at Reset events (each execution starts with its Reset)"""
    execs, cur = [], []
    for ev in events:
        if ev.get("e") == "Reset" and cur:
            execs.append(cur); cur = []
        cur.append(ev)
    if cur:
        execs.append(cur)
    return execs


def tlc_validate_sharded(trace_module, events, shards=None, tag="tv", env=None, timeout=1800, xmx="4g", stateless=False):
    """events: list of dicts (executions separated by Reset events).  Shards on execution boundaries,
    validates the shards in parallel, returns (rejects with global 'line' (0-based index into events), stats)."""
    from concurrent.futures import ThreadPoolExecutor
    execs = [[ev] for ev in events] if stateless else split_executions(events)
    shards = max(1, min(shards or NCPU, len(execs)))
    wd = workdir(tag + "-" + str(os.getpid()))
    keep = os.environ.get("VERIF_KEEP")
    per = (len(execs) + shards - 1) // shards
    jobs, off = [], 0
    for s in range(shards):
        chunk = execs[s * per:(s + 1) * per]
        if not chunk:
            continue
        flat = [ev for ex in chunk for ev in ex]
        p = os.path.join(wd, "trace-%d.ndjson" % s)
        write_ndjson(p, flat)
        jobs.append((p, off, len(flat)))
        off += len(flat)

    def one(job):
        p, o, n = job
        rej, r = tlc_validate(trace_module, p, env=env, timeout=timeout, name=tag + os.path.basename(p), xmx=xmx)
        return [dict(x, line=x["line"] - 1 + o) for x in rej], r

    rejects, gen, dropped = [], 0, 0
    with ThreadPoolExecutor(max_workers=shards) as ex:
        for rj, r in ex.map(one, jobs):
            rejects += rj
            gen += r["generated"]
            dropped += len(r["dropped"])
    if not keep:
        shutil.rmtree(wd, ignore_errors=True)
    return rejects, {"tv_states": gen, "shards": len(jobs), "dropped": dropped}


# ------------------------------------------------------------------------------- known findings
def known_findings(prop):
    paths = [os.path.join(ROOT, "known_findings.jsonl")] + sorted(glob.glob(os.path.join(ROOT, "known_findings.d", "*.jsonl")))
    out = []
    for path in paths:
        if os.path.exists(path):
            for r in read_ndjson(path):
                if r.get("property") == prop and r.get("status") == "known":
                    out.append(r)
    return out


# ------------------------------------------------------------------------------------- evidence
# evidence / replay files of a run against a scratch copy (VERIF_REPO set: seeded changes) never overwrite those of /repo
EVDIR = os.path.join(ROOT, "evidence") if REPO == "/repo" else os.path.join(ROOT, ".work", "seed-evidence")


class Result:
    """collects what one check run covered and decides the exit code"""

    def __init__(self, prop, tier, seed, level="model_checking"):
        self.prop, self.tier, self.seed, self.level = prop, tier, seed, level
        self.t0 = time.time()
        self.cov = {"states": 0, "transitions": 0, "traces_validated_against_impl": 0, "samples": [],
                    "evaluations": 0, "distinct_nontrivial": 0, "rule": ""}
        self.assumptions = []
        self.violations = []      # (what, replay path)
        self.known_hits = {}      # key -> count
        self.notes = {}
        for old in glob.glob(os.path.join(EVDIR, "replay", prop + "-*.ndjson")):
            os.remove(old)

    def add_mc(self, r, label=None):
        self.cov["states"] += r["distinct"]
        self.cov["transitions"] += r["generated"]
        self.notes.setdefault("mc_runs", []).append({"model": label or "", "distinct": r["distinct"], "generated": r["generated"], "wall_s": round(r["wall"], 1)})

    def sample(self, x, limit=5):
        if len(self.cov["samples"]) < limit:
            self.cov["samples"].append(x)

    def violation(self, what, events):
        d = os.path.join(EVDIR, "replay")
        os.makedirs(d, exist_ok=True)
        p = os.path.join(d, "%s-%d.ndjson" % (self.prop, len(self.violations) + 1))
        write_ndjson(p, events)
        self.violations.append((what, p))

    def known(self, finding):
        k = finding["key"]
        self.known_hits[k] = self.known_hits.get(k, 0) + 1
        self.notes.setdefault("known_findings", {})[k] = finding.get("what", "")

    def finish(self):
        ev = {"property_id": self.prop, "tier": self.tier, "seed": self.seed, "level": self.level,
              "coverage": dict(self.cov, **self.notes), "assumptions": self.assumptions,
              "wall_s": round(time.time() - self.t0, 1), "violations": len(self.violations)}
        if not ev["coverage"]["samples"]:
            ev["coverage"]["samples"] = ["(none)"]
        os.makedirs(EVDIR, exist_ok=True)
        with open(os.path.join(EVDIR, self.prop + ".json"), "w") as f:
            json.dump(ev, f, indent=1, sort_keys=True)
            f.write("\n")
        for k, n in sorted(self.known_hits.items()):
            print("KNOWN-FINDING: property=%s %s (%d cases; key=%s)" % (self.prop, self.notes["known_findings"][k], n, k))
        for what, p in self.violations[:20]:
            print("VIOLATION property=%s replay=%s  # %s" % (self.prop, p, what))
        if len(self.violations) > 20:
            print("... %d more violations" % (len(self.violations) - 20))
        print("%s %s: %d evaluations, %d distinct non-trivial, %d traces validated, %d model states, %d violations, %.1fs" % (
            self.prop, self.tier, self.cov["evaluations"], self.cov["distinct_nontrivial"],
            self.cov["traces_validated_against_impl"], self.cov["states"], len(self.violations), time.time() - self.t0))
        return 1 if self.violations else 0


def canon_hash(x):
    return hashlib.sha1(json.dumps(x, sort_keys=True, separators=(",", ":")).encode()).hexdigest()
