#!/usr/bin/env python3
import json, sys
for p in sys.argv[1:]:
    ev = json.loads(open(p).readline())
    print("=" * 30, p)
    for k in ("xsl", "xml", "text"):
        if k in ev:
            print(ev[k])
    def show(t, ind=0):
        for n in t:
            if n["k"] == "elem":
                print(" " * ind + "<%s %s>" % ("".join(map(chr, n["name"])), " ".join("%s=%r" % ("".join(map(chr, a[0])), "".join(map(chr, a[1]))) for a in n["attrs"])))
                show(n["kids"], ind + 2)
            else:
                print(" " * ind + n["k"] + ":" + repr("".join(map(chr, n.get("v", [])))))
    if "tree" in ev:
        print("GOT status", ev.get("status"), ev.get("msg")); show(ev["tree"])
