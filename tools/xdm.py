"""XDM documents: the single source form (nested JSON tree), rendering to XML text for the
implementation and flattening to the record XDM.tla works on.

tree node forms
  {"k":"root","c":[...]}
  {"k":"elem","p":prefix,"l":local,"u":uri,"nsd":[[prefix,uri],...],"a":[{"p","l","u","v"}...],"c":[...]}
  {"k":"text","v":str}   {"k":"comment","v":str}   {"k":"pi","l":target,"v":str}

flat form (ids 1..n in document order; namespace nodes do not take ids, they are <<elem, k>>):
  {"n":N,"kind":[..],"parent":[..],"local":[[cp..]..],"uri":[..],"prefix":[..],"value":[..],
   "ins":[ [[prefixcps,uricps],...] per node (elements only, sorted by prefix; else []) ],
   "ids":[ [idvalue cps...] per node ]   # ID-typed attribute values (DTD) - unused unless dtd given
  }
"""
import itertools, random
from xml.sax.saxutils import escape, quoteattr

XML_NS = "http://www.w3.org/XML/1998/namespace"


def cps(s):
    return [ord(c) for c in s]


def E(l, *c, a=None, p="", u="", nsd=None):
    return {"k": "elem", "p": p, "l": l, "u": u, "nsd": nsd or [], "a": a or [], "c": list(c)}


def A(l, v, p="", u=""):
    return {"p": p, "l": l, "u": u, "v": v}


def T(v):
    return {"k": "text", "v": v}


def C(v):
    return {"k": "comment", "v": v}


def PI(t, v=""):
    return {"k": "pi", "l": t, "v": v}


def R(*c):
    return {"k": "root", "c": list(c)}


def qn(p, l):
    return (p + ":" + l) if p else l


def _esc_text(s):
    return escape(s).replace("\r", "&#13;")


def _esc_attr(s):
    out = []
    for ch in s:
        if ch == "&": out.append("&amp;")
        elif ch == "<": out.append("&lt;")
        elif ch == '"': out.append("&quot;")
        elif ch in "\t\n\r": out.append("&#%d;" % ord(ch))
        else: out.append(ch)
    return '"' + "".join(out) + '"'


def render_xml(node, decl=False, doctype=None):
    out = []
    if decl:
        out.append('<?xml version="1.0" encoding="UTF-8"?>')
    if doctype:
        out.append(doctype)

    def go(n):
        k = n["k"]
        if k == "root":
            for c in n["c"]:
                go(c)
        elif k == "elem":
            out.append("<" + qn(n.get("p", ""), n["l"]))
            for (p, u) in n.get("nsd", []):
                out.append(" xmlns" + (":" + p if p else "") + "=" + _esc_attr(u))
            for a in n.get("a", []):
                out.append(" " + qn(a.get("p", ""), a["l"]) + "=" + _esc_attr(a["v"]))
            if n["c"]:
                out.append(">")
                for c in n["c"]:
                    go(c)
                out.append("</" + qn(n.get("p", ""), n["l"]) + ">")
            else:
                out.append("/>")
        elif k == "text":
            out.append(_esc_text(n["v"]))
        elif k == "comment":
            out.append("<!--" + n["v"] + "-->")
        elif k == "pi":
            out.append("<?" + n["l"] + ((" " + n["v"]) if n["v"] else "") + "?>")
    go(node)
    return "".join(out)


def flatten(tree, id_attrs=()):
    """id_attrs: set of (elemLocal, attrLocal) declared ID in the DTD."""
    kind, parent, local, uri, prefix, value, ins, isid = [], [], [], [], [], [], [], []

    def add(k, par, l="", u="", p="", v="", scope=None, idf=False):
        kind.append(k); parent.append(par); local.append(cps(l)); uri.append(cps(u))
        prefix.append(cps(p)); value.append(cps(v)); isid.append(idf)
        ins.append([[cps(a), cps(b)] for a, b in sorted(scope.items())] if scope is not None else [])
        return len(kind)

    def go(n, par, scope):
        k = n["k"]
        if k == "root":
            me = add("root", 0)
            for c in n["c"]:
                go(c, me, scope)
        elif k == "elem":
            sc = dict(scope)
            for (p, u) in n.get("nsd", []):
                if u == "" and p == "":
                    sc.pop("", None)
                else:
                    sc[p] = u
            me = add("elem", par, n["l"], n.get("u", ""), n.get("p", ""), "", sc)
            for a in n.get("a", []):
                add("attr", me, a["l"], a.get("u", ""), a.get("p", ""), a["v"],
                    idf=((n["l"], a["l"]) in id_attrs and not n.get("p") and not a.get("p")))      # DTDs declare QNames
            for c in n["c"]:
                go(c, me, sc)
        elif k == "text":
            add("text", par, v=n["v"])
        elif k == "comment":
            add("comment", par, v=n["v"])
        elif k == "pi":
            add("pi", par, l=n["l"], v=n["v"])
    go(tree, 0, {"xml": XML_NS})
    return {"n": len(kind), "kind": kind, "parent": parent, "local": local, "uri": uri,
            "prefix": prefix, "value": value, "ins": ins, "isid": isid}


def count_nodes(tree):
    return flatten(tree)["n"]


# ---------------------------------------------------------------------------------------------
# bounded families

def enum_children(budget, names, attrs, texts, extras, depth):
    """all child sequences using exactly <= budget nodes; yields (list, used)"""
    yield [], 0
    if budget <= 0:
        return
    for first, used in enum_node(budget, names, attrs, texts, extras, depth):
        for rest, used2 in enum_children(budget - used, names, attrs, texts, extras, depth):
            if first["k"] == "text" and rest and rest[0]["k"] == "text":
                continue
            yield [first] + rest, used + used2


def enum_node(budget, names, attrs, texts, extras, depth):
    if budget <= 0:
        return
    for t in texts:
        yield T(t), 1
    for x in extras:
        yield x, 1
    if depth <= 0:
        return
    for nm in names:
        for na in range(0, min(len(attrs), budget - 1) + 1):
            for asel in itertools.combinations(attrs, na):
                al = [A(a, v) for (a, v) in asel]
                for ch, used in enum_children(budget - 1 - na, names, attrs, texts, extras, depth - 1):
                    yield E(nm, *ch, a=al), 1 + na + used


def enum_docs(maxnodes, names=("a", "b"), attrs=(("x", "1"),), texts=("t", " "), extras=(), depth=3):
    """all documents with one document element and <= maxnodes nodes (root included)"""
    for nm in names:
        for na in range(0, len(attrs) + 1):
            for asel in itertools.combinations(attrs, na):
                al = [A(a, v) for (a, v) in asel]
                for ch, used in enum_children(maxnodes - 2 - na, names, attrs, texts, extras, depth - 1):
                    yield R(E(nm, *ch, a=al))


def random_doc(rng, maxnodes=12, names=("a", "b", "c"), attrs=("x", "y", "id"), texts=("t", " ", "u", "1", "2"),
               avalues=("1", "2", "t", ""), comments=True, pis=True, ns=False, depth=4):
    budget = [rng.randint(3, maxnodes) - 1]
    # with ns: prefixed names, names in a DEFAULT namespace (unprefixed, yet not in no namespace: an unprefixed name test must not
    # match them), the default namespace undeclared again further in, and prefixed attributes
    nsopts = [("", ""), ("", ""), ("p", "urn:u"), ("q", "urn:v"), ("", "urn:u"), ("", "urn:d")] if ns else [("", "")]

    def mk_elem(d, dflt=""):
        budget[0] -= 1
        p, u = rng.choice(nsopts)
        al = []
        pa = None
        for a in attrs:
            if budget[0] > 0 and rng.random() < 0.3:
                budget[0] -= 1
                if ns and a != "id" and rng.random() < 0.25:
                    pa = rng.choice([("p", "urn:u"), ("q", "urn:v")]) if pa is None else pa
                    al.append(A(a, rng.choice(avalues), p=pa[0], u=pa[1]))
                else:
                    al.append(A(a, rng.choice(avalues)))
        mine = u if not p else dflt          # the default namespace in scope inside this element
        ch = []
        if d > 0:
            while budget[0] > 0 and rng.random() < 0.75:
                r = rng.random()
                if r < 0.55:
                    ch.append(mk_elem(d - 1, mine))
                elif r < 0.8:
                    if ch and ch[-1]["k"] == "text":
                        continue
                    budget[0] -= 1
                    ch.append(T(rng.choice(texts)))
                elif r < 0.9 and comments:
                    budget[0] -= 1
                    ch.append(C(rng.choice(["c", ""])))
                elif pis:
                    budget[0] -= 1
                    ch.append(PI(rng.choice(["t", "u"]), rng.choice(["d", ""])))
        nsd = []
        if p:
            nsd = [[p, u]]
        elif u != dflt:
            nsd = [["", u]]                  # declares, or (u = "") undeclares, the default namespace
        if pa is not None and [pa[0], pa[1]] not in nsd:
            nsd.append([pa[0], pa[1]])
        return E(rng.choice(names), *ch, a=al, p=p, u=u, nsd=nsd)

    top = []
    if comments and rng.random() < 0.15:
        top.append(C("top"))
    top.append(mk_elem(depth))
    if pis and rng.random() < 0.15:
        top.append(PI("end", ""))
    return R(*top)
