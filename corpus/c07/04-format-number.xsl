<?xml version="1.0" encoding="UTF-8"?>
<xsl:stylesheet version="1.0" xmlns:xsl="http://www.w3.org/1999/XSL/Transform"
  xmlns:xalan="http://xml.apache.org/xalan" xmlns:exsl="http://exslt.org/common"
  xmlns:set="http://exslt.org/sets" xmlns:math="http://exslt.org/math" xmlns:str="http://exslt.org/strings"
  xmlns:dyn="http://exslt.org/dynamic" xmlns:data="urn:c07:data"
  exclude-result-prefixes="xalan exsl set math str dyn data">
<xsl:output method="xml" indent="no" encoding="UTF-8"/>
<!--DECL-->
<xsl:decimal-format name="eu" decimal-separator="," grouping-separator="." NaN="keine Zahl" infinity="unendlich" minus-sign="-"/>
<xsl:decimal-format name="odd" digit="D" zero-digit="0" pattern-separator="|" percent="%" per-mille="&#x2030;"/>
<xsl:decimal-format decimal-separator="." grouping-separator="," NaN="nan"/>
<xsl:template name="f-formatnumber">
  <formatted>
    <xsl:for-each select="//item[position() &lt; 25]">
      <f><xsl:value-of select="format-number(price, '#,##0.00')"/>|<xsl:value-of select="format-number(price * 1000.5, '#.##0,000', 'eu')"/>|<xsl:value-of select="format-number(price div 100, 'DD0.0%', 'odd')"/>|<xsl:value-of select="format-number(-price, '0.0;(0.0)')"/></f>
    </xsl:for-each>
    <special><xsl:value-of select="format-number(number('x'), '0')"/>|<xsl:value-of select="format-number(1 div 0, '0', 'eu')"/>|<xsl:value-of select="format-number(number('y'), '0', 'eu')"/>|<xsl:value-of select="format-number(0.5, '#&#x2030;', 'odd')"/></special>
    <sum><xsl:value-of select="format-number(sum(//price), '###,###,##0.###')"/></sum>
  </formatted>
</xsl:template>
<!--/DECL-->
<xsl:template match="/"><out><xsl:call-template name="f-formatnumber"/></out></xsl:template>
</xsl:stylesheet>
