<?xml version="1.0" encoding="UTF-8"?>
<xsl:stylesheet version="1.0" xmlns:xsl="http://www.w3.org/1999/XSL/Transform"
  xmlns:xalan="http://xml.apache.org/xalan" xmlns:exsl="http://exslt.org/common"
  xmlns:set="http://exslt.org/sets" xmlns:math="http://exslt.org/math" xmlns:str="http://exslt.org/strings"
  xmlns:dyn="http://exslt.org/dynamic" xmlns:data="urn:c07:data"
  exclude-result-prefixes="xalan exsl set math str dyn data">
<xsl:output method="xml" indent="no" encoding="UTF-8"/>
<!--DECL-->
<xsl:param name="depth" select="6"/>
<xsl:template name="f-named">
  <named>
    <xsl:call-template name="fact"><xsl:with-param name="n" select="$depth"/></xsl:call-template>
    <xsl:call-template name="join"><xsl:with-param name="nodes" select="//item[position() &lt; 10]/name"/><xsl:with-param name="sep" select="'; '"/></xsl:call-template>
    <xsl:call-template name="join"><xsl:with-param name="nodes" select="//section/@n"/></xsl:call-template>
    <xsl:apply-templates select="//chapter" mode="named"><xsl:with-param name="prefix" select="'ch'"/></xsl:apply-templates>
    <xsl:apply-templates select="//item[3]"/>
  </named>
</xsl:template>
<xsl:template name="fact">
  <xsl:param name="n" select="1"/><xsl:param name="acc" select="1"/>
  <xsl:choose>
    <xsl:when test="$n &lt;= 1"><fact><xsl:value-of select="$acc"/></fact></xsl:when>
    <xsl:otherwise><xsl:call-template name="fact"><xsl:with-param name="n" select="$n - 1"/><xsl:with-param name="acc" select="$acc * $n"/></xsl:call-template></xsl:otherwise>
  </xsl:choose>
</xsl:template>
<xsl:template name="join">
  <xsl:param name="nodes"/><xsl:param name="sep" select="','"/>
  <j><xsl:for-each select="$nodes"><xsl:value-of select="."/><xsl:if test="position() != last()"><xsl:value-of select="$sep"/></xsl:if></xsl:for-each></j>
</xsl:template>
<xsl:template match="chapter" mode="named">
  <xsl:param name="prefix"/><xsl:param name="unset" select="'dflt'"/>
  <ch id="{$prefix}-{position()}-{$unset}"><xsl:apply-templates select="section[1]" mode="named"><xsl:with-param name="prefix" select="concat($prefix, '/s')"/></xsl:apply-templates></ch>
</xsl:template>
<xsl:template match="section" mode="named"><xsl:param name="prefix"/><s p="{$prefix}" cur="{count(current()/para)}" last="{last()}"/></xsl:template>
<xsl:template match="item[@cat='a']" priority="2"><ia/></xsl:template>
<xsl:template match="item | ref" priority="1"><ib><xsl:value-of select="name(.)"/></ib></xsl:template>
<xsl:template match="catalog/item"><ic/></xsl:template>
<!--/DECL-->
<xsl:template match="/"><out><xsl:call-template name="f-named"/></out></xsl:template>
</xsl:stylesheet>
