<?xml version="1.0" encoding="UTF-8"?>
<xsl:stylesheet version="1.0" xmlns:xsl="http://www.w3.org/1999/XSL/Transform"
  xmlns:xalan="http://xml.apache.org/xalan" xmlns:exsl="http://exslt.org/common"
  xmlns:set="http://exslt.org/sets" xmlns:math="http://exslt.org/math" xmlns:str="http://exslt.org/strings"
  xmlns:dyn="http://exslt.org/dynamic" xmlns:data="urn:c07:data"
  exclude-result-prefixes="xalan exsl set math str dyn data">
<xsl:output method="xml" indent="no" encoding="UTF-8"/>
<!--DECL-->
<xsl:key name="by-cat" match="item" use="@cat"/>
<xsl:key name="by-first" match="item" use="substring(name, 1, 1)"/>
<xsl:key name="by-price" match="item[price &gt; 20]" use="floor(price div 10)"/>
<xsl:key name="para-by-sec" match="para" use="../@n"/>
<xsl:template name="f-keys">
  <keys>
    <xsl:for-each select="//item[generate-id() = generate-id(key('by-cat', @cat)[1])]">
      <group cat="{@cat}" n="{count(key('by-cat', @cat))}">
        <xsl:for-each select="key('by-cat', @cat)">
          <i><xsl:value-of select="name"/></i>
        </xsl:for-each>
      </group>
    </xsl:for-each>
    <first n="{count(key('by-first', 'a'))}" m="{count(key('by-first', //item/@cat))}"/>
    <price><xsl:for-each select="key('by-price', 3) | key('by-price', 4)"><xsl:value-of select="concat(@sku, ' ')"/></xsl:for-each></price>
    <paras><xsl:value-of select="count(key('para-by-sec', '2'))"/>/<xsl:value-of select="count(key('para-by-sec', //section/@n))"/></paras>
    <none><xsl:value-of select="count(key('by-cat', 'no-such-category'))"/></none>
  </keys>
</xsl:template>
<!--/DECL-->
<xsl:template match="/"><out><xsl:call-template name="f-keys"/></out></xsl:template>
</xsl:stylesheet>
