<?xml version="1.0" encoding="UTF-8"?>
<xsl:stylesheet version="1.0" xmlns:xsl="http://www.w3.org/1999/XSL/Transform"
  xmlns:xalan="http://xml.apache.org/xalan" xmlns:exsl="http://exslt.org/common"
  xmlns:set="http://exslt.org/sets" xmlns:math="http://exslt.org/math" xmlns:str="http://exslt.org/strings"
  xmlns:dyn="http://exslt.org/dynamic" xmlns:data="urn:c07:data"
  exclude-result-prefixes="xalan exsl set math str dyn data">
<xsl:output method="xml" indent="no" encoding="UTF-8"/>
<!--DECL-->
<!-- every formatting path of xsl:number, for every item of the source: per-call scratch state of the formatter
     (digit buffers, roman/alphabetic tables, grouping) is exercised thousands of times per transformation -->
<xsl:template name="f-numformats">
  <numformats>
    <xsl:for-each select="//item">
      <xsl:variable name="p" select="position()"/>
      <n><xsl:number value="$p" format="a"/>|<xsl:number value="$p * 37" format="A"/>|<xsl:number value="$p" format="i"/>|<xsl:number value="$p + 1000" format="I"/>|<xsl:number value="$p" format="0001"/>|<xsl:number value="$p * 1234567" grouping-separator="," grouping-size="3"/>|<xsl:number value="$p * 29" format="&#x3b1;" letter-value="traditional"/>|<xsl:number value="$p * 31" format="&#x3b1;" letter-value="alphabetic"/>|<xsl:number value="$p * 7" format="&#x391;" letter-value="alphabetic"/></n>
    </xsl:for-each>
    <xsl:for-each select="//item[position() mod 3 = 0]">
      <m><xsl:number level="single" count="item" format="a) "/><xsl:number level="any" count="item|ref" format="(A) "/><xsl:number level="multiple" count="catalog|item" format="I.a.1 "/><xsl:number level="single" count="item" format="[i] "/></m>
    </xsl:for-each>
    <xsl:for-each select="//para">
      <q><xsl:number level="multiple" count="chapter|section|para" format="A.a.i"/>:<xsl:number level="any" count="para" format="aa"/>:<xsl:number level="any" from="chapter" count="para" format="I"/></q>
    </xsl:for-each>
  </numformats>
</xsl:template>
<!--/DECL-->
<xsl:template match="/"><out><xsl:call-template name="f-numformats"/></out></xsl:template>
</xsl:stylesheet>
