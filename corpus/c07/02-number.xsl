<?xml version="1.0" encoding="UTF-8"?>
<xsl:stylesheet version="1.0" xmlns:xsl="http://www.w3.org/1999/XSL/Transform"
  xmlns:xalan="http://xml.apache.org/xalan" xmlns:exsl="http://exslt.org/common"
  xmlns:set="http://exslt.org/sets" xmlns:math="http://exslt.org/math" xmlns:str="http://exslt.org/strings"
  xmlns:dyn="http://exslt.org/dynamic" xmlns:data="urn:c07:data"
  exclude-result-prefixes="xalan exsl set math str dyn data">
<xsl:output method="xml" indent="no" encoding="UTF-8"/>
<!--DECL-->
<xsl:template name="f-number">
  <numbers>
    <xsl:for-each select="//section/para[position() &lt; 6]">
      <p>
        <xsl:number level="single" count="para" format="1. "/>
        <xsl:number level="multiple" count="section|para" format="1.a "/>
        <xsl:number level="any" count="para" format="i "/>
        <xsl:number level="any" count="para" from="section" format="A "/>
        <xsl:number level="multiple" count="chapter|section|para" format="I-1-a"/>
      </p>
    </xsl:for-each>
    <xsl:for-each select="//item[position() mod 7 = 1]">
      <n><xsl:number level="any" count="item" format="001"/>:<xsl:number value="position() * 1234" grouping-separator="," grouping-size="3"/>:<xsl:number value="position()" format="a" lang="en" letter-value="alphabetic"/>:<xsl:number value="position() + 40" format="&#x3b1;" letter-value="traditional"/></n>
    </xsl:for-each>
    <xsl:apply-templates select="//chapter" mode="number"/>
  </numbers>
</xsl:template>
<xsl:template match="chapter" mode="number">
  <c><xsl:number format="1"/><xsl:apply-templates select="section" mode="number"/></c>
</xsl:template>
<xsl:template match="section" mode="number">
  <s><xsl:number level="multiple" count="chapter|section" format="1.1"/></s>
</xsl:template>
<!--/DECL-->
<xsl:template match="/"><out><xsl:call-template name="f-number"/></out></xsl:template>
</xsl:stylesheet>
