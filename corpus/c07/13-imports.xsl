<?xml version="1.0" encoding="UTF-8"?>
<xsl:stylesheet version="1.0" xmlns:xsl="http://www.w3.org/1999/XSL/Transform"
  xmlns:xalan="http://xml.apache.org/xalan" xmlns:exsl="http://exslt.org/common"
  xmlns:set="http://exslt.org/sets" xmlns:math="http://exslt.org/math" xmlns:str="http://exslt.org/strings"
  xmlns:dyn="http://exslt.org/dynamic" xmlns:data="urn:c07:data"
  exclude-result-prefixes="xalan exsl set math str dyn data">
<!--IMPORT-->
<xsl:import href="inc-common.xsl"/>
<!--/IMPORT-->
<xsl:output method="xml" indent="no" encoding="UTF-8"/>
<!--DECL-->
<xsl:include href="inc-included.xsl"/>
<xsl:namespace-alias stylesheet-prefix="data" result-prefix="xsl"/>
<xsl:template match="item" mode="imp"><overriding sku="{@sku}"><xsl:apply-imports/></overriding></xsl:template>
<xsl:template name="f-imports">
  <imports>
    <xsl:apply-templates select="//item[position() &lt; 4] | //section[1] | //ref[1]" mode="imp"/>
    <xsl:call-template name="imp-named"><xsl:with-param name="x" select="system-property('xsl:version')"/></xsl:call-template>
    <data:template match="aliased"><data:value-of select="."/></data:template>
    <xsl:comment>c-<xsl:value-of select="count(//comment())"/></xsl:comment>
    <xsl:processing-instruction name="pi">p <xsl:value-of select="name(//processing-instruction()[1])"/></xsl:processing-instruction>
    <lang en="{count(//para[lang('en')])}" de="{count(//para[lang('de')])}"/>
    <xsl:if test="function-available('data:such')"><never/></xsl:if>
    <nope xsl:version="3.0"><xsl:nosuch><xsl:fallback><fell-back/></xsl:fallback></xsl:nosuch></nope>
    <builtin><xsl:apply-templates select="//chapter[1]/section[1]/para[1]"/></builtin>
    <text><xsl:text disable-output-escaping="yes">&lt;raw/&gt;</xsl:text><xsl:value-of select="translate(//item[1]/name, 'abcdefghij', 'ABCDEFGHIJ')"/></text>
  </imports>
</xsl:template>
<!--/DECL-->
<xsl:template match="/"><out><xsl:call-template name="f-imports"/></out></xsl:template>
</xsl:stylesheet>
