<?xml version="1.0" encoding="UTF-8"?>
<xsl:stylesheet version="1.0" xmlns:xsl="http://www.w3.org/1999/XSL/Transform"
  xmlns:xalan="http://xml.apache.org/xalan" xmlns:exsl="http://exslt.org/common"
  xmlns:set="http://exslt.org/sets" xmlns:math="http://exslt.org/math" xmlns:str="http://exslt.org/strings"
  xmlns:dyn="http://exslt.org/dynamic" xmlns:data="urn:c07:data"
  exclude-result-prefixes="xalan exsl set math str dyn data">
<xsl:output method="xml" indent="no" encoding="UTF-8"/>
<!--DECL-->
<xsl:strip-space elements="*"/>
<xsl:preserve-space elements="para note"/>
<xsl:template name="f-strip">
  <stripped t="{count(//text())}" w="{count(//text()[normalize-space(.) = ''])}" c="{count(/*/node())}" p="{count(//para/text())}">
    <xsl:for-each select="//section[1]/node()"><n t="{name()}" l="{string-length(.)}"/></xsl:for-each>
    <xsl:apply-templates select="/*/chapter[1]" mode="strip"/>
  </stripped>
</xsl:template>
<xsl:template match="*" mode="strip"><xsl:copy><xsl:apply-templates select="node()[position() &lt; 4]" mode="strip"/></xsl:copy></xsl:template>
<xsl:template match="text()" mode="strip">[<xsl:value-of select="string-length(.)"/>]</xsl:template>
<!--/DECL-->
<xsl:template match="/"><out><xsl:call-template name="f-strip"/></out></xsl:template>
</xsl:stylesheet>
