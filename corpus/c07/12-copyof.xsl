<?xml version="1.0" encoding="UTF-8"?>
<xsl:stylesheet version="1.0" xmlns:xsl="http://www.w3.org/1999/XSL/Transform"
  xmlns:xalan="http://xml.apache.org/xalan" xmlns:exsl="http://exslt.org/common"
  xmlns:set="http://exslt.org/sets" xmlns:math="http://exslt.org/math" xmlns:str="http://exslt.org/strings"
  xmlns:dyn="http://exslt.org/dynamic" xmlns:data="urn:c07:data"
  exclude-result-prefixes="xalan exsl set math str dyn data">
<xsl:output method="xml" indent="no" encoding="UTF-8"/>
<!--DECL-->
<xsl:template name="f-copyof">
  <copies>
    <whole><xsl:copy-of select="/"/></whole>
    <catalog><xsl:copy-of select="//catalog"/></catalog>
    <attrs><x><xsl:copy-of select="//item[position() &lt; 4]/@*"/></x></attrs>
    <identity><xsl:apply-templates select="/*/chapter" mode="identity"/></identity>
    <mixed><xsl:copy-of select="//comment() | //processing-instruction()"/></mixed>
  </copies>
</xsl:template>
<xsl:template match="@* | node()" mode="identity"><xsl:copy><xsl:apply-templates select="@* | node()" mode="identity"/></xsl:copy></xsl:template>
<!--/DECL-->
<xsl:template match="/"><out><xsl:call-template name="f-copyof"/></out></xsl:template>
</xsl:stylesheet>
