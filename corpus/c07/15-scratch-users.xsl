<?xml version="1.0" encoding="UTF-8"?>
<xsl:stylesheet version="1.0" xmlns:xsl="http://www.w3.org/1999/XSL/Transform"
  xmlns:xalan="http://xml.apache.org/xalan" xmlns:exsl="http://exslt.org/common"
  xmlns:set="http://exslt.org/sets" xmlns:math="http://exslt.org/math" xmlns:str="http://exslt.org/strings"
  xmlns:dyn="http://exslt.org/dynamic" xmlns:data="urn:c07:data"
  exclude-result-prefixes="xalan exsl set math str dyn data">
<xsl:output method="xml" indent="no" encoding="UTF-8"/>
<!--DECL-->
<!-- other users of per-call scratch state, over every item: format-number with decimal formats, sorting with
     lang / case-order, generate-id, first use of keys, id() -->
<xsl:decimal-format name="sc-eu" decimal-separator="," grouping-separator="." minus-sign="-" NaN="nix" infinity="viel"/>
<xsl:decimal-format name="sc-x" digit="D" zero-digit="0" pattern-separator="|" percent="%" per-mille="&#x2030;"/>
<xsl:key name="sc-by-cat" match="item" use="@cat"/>
<xsl:key name="sc-by-initial" match="item" use="translate(substring(name, 1, 1), 'ABCDEFGHIJKLMNOPQRSTUVWXYZ', 'abcdefghijklmnopqrstuvwxyz')"/>
<xsl:key name="sc-by-decade" match="item" use="floor(price div 10)"/>
<xsl:template name="f-scratch">
  <scratch>
    <fmt><xsl:for-each select="//item"><f><xsl:value-of select="format-number(price * 1000.125, '#.##0,00', 'sc-eu')"/>|<xsl:value-of select="format-number(price div 100, 'DD0.0%', 'sc-x')"/>|<xsl:value-of select="format-number(-price, '#,##0.000;(#,##0.000)')"/>|<xsl:value-of select="format-number(position() div 7, '0.0####')"/></f></xsl:for-each></fmt>
    <sorted1><xsl:for-each select="//item"><xsl:sort select="name" lang="en" case-order="upper-first"/><xsl:sort select="price" data-type="number" order="descending"/><xsl:value-of select="@sku"/><xsl:text> </xsl:text></xsl:for-each></sorted1>
    <sorted2><xsl:for-each select="//item"><xsl:sort select="name" lang="de" case-order="lower-first" order="descending"/><xsl:sort select="@sku"/><xsl:value-of select="substring(name, 1, 2)"/></xsl:for-each></sorted2>
    <gen distinct="{count(//item[generate-id() != generate-id(../item[1])])}"><xsl:for-each select="//item[position() mod 50 = 1]"><g same="{generate-id() = generate-id(key('sc-by-cat', @cat)[@sku = current()/@sku])}"/></xsl:for-each></gen>
    <keys><xsl:for-each select="//item[position() mod 11 = 0]"><k c="{count(key('sc-by-cat', @cat))}" i="{count(key('sc-by-initial', 'a'))}" d="{count(key('sc-by-decade', floor(price div 10)))}"/></xsl:for-each></keys>
    <ids n="{count(id(//ref/@to))}"><xsl:for-each select="//item[position() mod 13 = 0]"><i f="{count(id(@id))}" g="{count(id(concat(@id, ' i1 i2')))}"/></xsl:for-each></ids>
  </scratch>
</xsl:template>
<!--/DECL-->
<xsl:template match="/"><out><xsl:call-template name="f-scratch"/></out></xsl:template>
</xsl:stylesheet>
