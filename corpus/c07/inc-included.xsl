<?xml version="1.0" encoding="UTF-8"?>
<xsl:stylesheet version="1.0" xmlns:xsl="http://www.w3.org/1999/XSL/Transform">
<xsl:key name="inc-key" match="ref" use="@to"/>
<xsl:template match="ref" mode="imp"><included to="{@to}" k="{count(key('inc-key', @to))}"/></xsl:template>
</xsl:stylesheet>
