<?xml version="1.0" encoding="UTF-8"?>
<xsl:stylesheet version="1.0" xmlns:xsl="http://www.w3.org/1999/XSL/Transform"
  xmlns:xalan="http://xml.apache.org/xalan" xmlns:exsl="http://exslt.org/common"
  xmlns:set="http://exslt.org/sets" xmlns:math="http://exslt.org/math" xmlns:str="http://exslt.org/strings"
  xmlns:dyn="http://exslt.org/dynamic" xmlns:data="urn:c07:data"
  exclude-result-prefixes="xalan exsl set math str dyn data">
<xsl:output method="xml" indent="no" encoding="UTF-8"/>
<!--DECL-->
<xsl:template name="f-id">
  <ids>
    <one><xsl:value-of select="id('i3')/name"/></one>
    <many n="{count(id('i1 i2 i5 nope'))}"/>
    <refs><xsl:for-each select="//ref"><r to="{@to}" found="{count(id(@to))}"><xsl:value-of select="id(@to)/name"/></r></xsl:for-each></refs>
    <nodeset n="{count(id(//ref/@to))}"/>
    <path><xsl:value-of select="count(id('i2')/following-sibling::item[1]/price)"/></path>
    <gen same="{generate-id(//item[1]) = generate-id(//item[1])}" differ="{generate-id(//item[1]) != generate-id(//item[2])}"/>
    <xsl:for-each select="//item[position() &lt; 10]"><g><xsl:value-of select="count(id(@id))"/></g></xsl:for-each>
  </ids>
</xsl:template>
<!--/DECL-->
<xsl:template match="/"><out><xsl:call-template name="f-id"/></out></xsl:template>
</xsl:stylesheet>
