<?xml version="1.0" encoding="UTF-8"?>
<xsl:stylesheet version="1.0" xmlns:xsl="http://www.w3.org/1999/XSL/Transform">
<xsl:variable name="imported-var" select="'from-import'"/>
<xsl:template match="item" mode="imp"><imported sku="{@sku}"/></xsl:template>
<xsl:template match="section" mode="imp"><imported-section n="{@n}"/></xsl:template>
<xsl:template name="imp-named"><xsl:param name="x"/><imp-named x="{$x}" v="{$imported-var}"/></xsl:template>
</xsl:stylesheet>
