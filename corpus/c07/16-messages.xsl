<?xml version="1.0" encoding="UTF-8"?>
<xsl:stylesheet version="1.0" xmlns:xsl="http://www.w3.org/1999/XSL/Transform"
  xmlns:xalan="http://xml.apache.org/xalan" xmlns:exsl="http://exslt.org/common"
  xmlns:set="http://exslt.org/sets" xmlns:math="http://exslt.org/math" xmlns:str="http://exslt.org/strings"
  xmlns:dyn="http://exslt.org/dynamic" xmlns:data="urn:c07:data"
  exclude-result-prefixes="xalan exsl set math str dyn data">
<xsl:output method="xml" indent="no" encoding="UTF-8"/>
<!--DECL-->
<!-- what a transformation REPORTS (xsl:message, warnings) goes to its own transformer's warning stream and is part of what is compared:
     the texts are formatted through the process-wide message catalogue -->
<xsl:template name="f-messages">
  <messages>
    <xsl:for-each select="//*[position() mod 2 = 1]">
      <xsl:message>note <xsl:value-of select="name()"/>-<xsl:value-of select="position()"/>-<xsl:value-of select="count(@*)"/></xsl:message>
      <m n="{position()}"/>
    </xsl:for-each>
    <xsl:for-each select="(//@*)[position() &lt; 40]">
      <xsl:message>attribute <xsl:value-of select="name()"/>=<xsl:value-of select="."/></xsl:message>
    </xsl:for-each>
    <w><xsl:value-of select="format-number(count(//*), '#', 'nonesuch')"/></w>
  </messages>
</xsl:template>
<!--/DECL-->
<xsl:template match="/"><out><xsl:call-template name="f-messages"/></out></xsl:template>
</xsl:stylesheet>
