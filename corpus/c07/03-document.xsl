<?xml version="1.0" encoding="UTF-8"?>
<xsl:stylesheet version="1.0" xmlns:xsl="http://www.w3.org/1999/XSL/Transform"
  xmlns:xalan="http://xml.apache.org/xalan" xmlns:exsl="http://exslt.org/common"
  xmlns:set="http://exslt.org/sets" xmlns:math="http://exslt.org/math" xmlns:str="http://exslt.org/strings"
  xmlns:dyn="http://exslt.org/dynamic" xmlns:data="urn:c07:data"
  exclude-result-prefixes="xalan exsl set math str dyn data">
<xsl:output method="xml" indent="no" encoding="UTF-8"/>
<!--DECL-->
<data:table>
  <data:row k="a">alpha</data:row><data:row k="b">beta</data:row><data:row k="c">gamma</data:row><data:row k="d">delta</data:row>
</data:table>
<xsl:key name="row-by-k" match="data:row" use="@k"/>
<xsl:variable name="self" select="document('')"/>
<xsl:template name="f-document">
  <documents>
    <self n="{count($self//data:row)}" root="{name($self/*)}"/>
    <xsl:for-each select="//item[position() &lt; 12]">
      <xsl:variable name="c" select="@cat"/>
      <m cat="{$c}"><xsl:value-of select="$self/*/data:table/data:row[@k = $c]"/></m>
    </xsl:for-each>
    <xsl:for-each select="document('lookup.xml')/lookup/entry">
      <e k="{@key}"><xsl:value-of select="."/></e>
    </xsl:for-each>
    <xsl:for-each select="document('')">
      <keyed><xsl:value-of select="key('row-by-k', 'c')"/></keyed>
    </xsl:for-each>
    <multi n="{count(document(//ref/@href)/*)}"/>
    <again same="{generate-id(document('lookup.xml')) = generate-id(document('lookup.xml'))}"/>
  </documents>
</xsl:template>
<!--/DECL-->
<xsl:template match="/"><out><xsl:call-template name="f-document"/></out></xsl:template>
</xsl:stylesheet>
