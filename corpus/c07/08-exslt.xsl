<?xml version="1.0" encoding="UTF-8"?>
<xsl:stylesheet version="1.0" xmlns:xsl="http://www.w3.org/1999/XSL/Transform"
  xmlns:xalan="http://xml.apache.org/xalan" xmlns:exsl="http://exslt.org/common"
  xmlns:set="http://exslt.org/sets" xmlns:math="http://exslt.org/math" xmlns:str="http://exslt.org/strings"
  xmlns:dyn="http://exslt.org/dynamic" xmlns:data="urn:c07:data"
  exclude-result-prefixes="xalan exsl set math str dyn data">
<xsl:output method="xml" indent="no" encoding="UTF-8"/>
<!--DECL-->
<xsl:template name="f-exslt">
  <exslt>
    <set d="{count(set:distinct(//item/@cat))}" diff="{count(set:difference(//item, //item[@cat='a']))}"
         int="{count(set:intersection(//item[price &gt; 10], //item[@cat='b']))}"
         lead="{count(set:leading(//item, //item[5]))}" trail="{count(set:trailing(//item, //item[5]))}"
         same="{set:has-same-node(//item[1], //item)}"/>
    <math max="{math:max(//price)}" min="{math:min(//price)}" hi="{count(math:highest(//price))}" lo="{count(math:lowest(//price))}"
          abs="{math:abs(-3.5)}" sqrt="{math:sqrt(16)}" pow="{math:power(2, 10)}" pi="{substring(math:constant('PI', 8), 1, 6)}"/>
    <str pad="{str:padding(5, 'ab')}" al="{str:align('x', '-----', 'right')}" cat="{str:concat(//item[position() &lt; 4]/@cat)}" enc="{str:encode-uri('a b/c', true())}"/>
    <common t1="{exsl:object-type(//item)}" t2="{exsl:object-type('s')}" t3="{exsl:object-type(1)}" t4="{exsl:object-type(true())}"/>
    <xal d="{count(xalan:distinct(//item/@cat))}" diff="{count(xalan:difference(//item, //item[@cat='c']))}"
         int="{count(xalan:intersection(//item[price &gt; 10], //item[@cat='c']))}" same="{xalan:hasSameNodes(//item, //item)}"
         ev="{xalan:evaluate('count(//item) + 1')}"/>
    <dyn e="{dyn:evaluate('count(//section)')}"/>
    <avail f="{function-available('set:distinct')}" g="{function-available('nope:nope')}" e="{element-available('xsl:number')}"/>
  </exslt>
</xsl:template>
<!--/DECL-->
<xsl:template match="/"><out><xsl:call-template name="f-exslt"/></out></xsl:template>
</xsl:stylesheet>
