<?xml version="1.0" encoding="UTF-8"?>
<xsl:stylesheet version="1.0" xmlns:xsl="http://www.w3.org/1999/XSL/Transform"
  xmlns:xalan="http://xml.apache.org/xalan" xmlns:exsl="http://exslt.org/common"
  xmlns:set="http://exslt.org/sets" xmlns:math="http://exslt.org/math" xmlns:str="http://exslt.org/strings"
  xmlns:dyn="http://exslt.org/dynamic" xmlns:data="urn:c07:data"
  exclude-result-prefixes="xalan exsl set math str dyn data">
<xsl:output method="xml" indent="no" encoding="UTF-8"/>
<!--DECL-->
<xsl:attribute-set name="base"><xsl:attribute name="class">base</xsl:attribute><xsl:attribute name="n"><xsl:value-of select="count(*)"/></xsl:attribute></xsl:attribute-set>
<xsl:attribute-set name="derived" use-attribute-sets="base"><xsl:attribute name="class">derived</xsl:attribute><xsl:attribute name="pos"><xsl:value-of select="position()"/></xsl:attribute></xsl:attribute-set>
<xsl:attribute-set name="other"><xsl:attribute name="data:x" namespace="urn:c07:data">ns</xsl:attribute></xsl:attribute-set>
<xsl:attribute-set name="base"><xsl:attribute name="merged">yes</xsl:attribute></xsl:attribute-set>
<xsl:template name="f-attrsets">
  <attrsets xsl:use-attribute-sets="base">
    <xsl:for-each select="//item[position() &lt; 9]">
      <xsl:element name="{concat('e-', @cat)}" use-attribute-sets="derived other"><xsl:value-of select="@sku"/></xsl:element>
    </xsl:for-each>
    <xsl:for-each select="//section[position() &lt; 4]"><xsl:copy use-attribute-sets="derived"><xsl:attribute name="pos">overridden</xsl:attribute></xsl:copy></xsl:for-each>
    <lit xsl:use-attribute-sets="other base" class="literal"/>
  </attrsets>
</xsl:template>
<!--/DECL-->
<xsl:template match="/"><out><xsl:call-template name="f-attrsets"/></out></xsl:template>
</xsl:stylesheet>
