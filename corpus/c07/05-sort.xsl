<?xml version="1.0" encoding="UTF-8"?>
<xsl:stylesheet version="1.0" xmlns:xsl="http://www.w3.org/1999/XSL/Transform"
  xmlns:xalan="http://xml.apache.org/xalan" xmlns:exsl="http://exslt.org/common"
  xmlns:set="http://exslt.org/sets" xmlns:math="http://exslt.org/math" xmlns:str="http://exslt.org/strings"
  xmlns:dyn="http://exslt.org/dynamic" xmlns:data="urn:c07:data"
  exclude-result-prefixes="xalan exsl set math str dyn data">
<xsl:output method="xml" indent="no" encoding="UTF-8"/>
<!--DECL-->
<xsl:template name="f-sort">
  <sorted>
    <a><xsl:for-each select="//item"><xsl:sort select="name" lang="en" case-order="upper-first"/><xsl:value-of select="concat(name, ' ')"/></xsl:for-each></a>
    <b><xsl:for-each select="//item"><xsl:sort select="name" lang="en" case-order="lower-first" order="descending"/><xsl:value-of select="concat(@sku, ' ')"/></xsl:for-each></b>
    <c><xsl:for-each select="//item"><xsl:sort select="@cat"/><xsl:sort select="price" data-type="number" order="descending"/><xsl:value-of select="concat(@cat, price, ' ')"/></xsl:for-each></c>
    <d><xsl:for-each select="//item"><xsl:sort select="name" lang="de"/><xsl:sort select="@sku" data-type="text"/><xsl:value-of select="concat(@sku, ' ')"/></xsl:for-each></d>
    <e><xsl:apply-templates select="//section" mode="sort"><xsl:sort select="count(para)" data-type="number"/><xsl:sort select="@n" data-type="number" order="descending"/></xsl:apply-templates></e>
  </sorted>
</xsl:template>
<xsl:template match="section" mode="sort"><s n="{@n}" p="{count(para)}"/></xsl:template>
<!--/DECL-->
<xsl:template match="/"><out><xsl:call-template name="f-sort"/></out></xsl:template>
</xsl:stylesheet>
