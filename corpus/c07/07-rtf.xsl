<?xml version="1.0" encoding="UTF-8"?>
<xsl:stylesheet version="1.0" xmlns:xsl="http://www.w3.org/1999/XSL/Transform"
  xmlns:xalan="http://xml.apache.org/xalan" xmlns:exsl="http://exslt.org/common"
  xmlns:set="http://exslt.org/sets" xmlns:math="http://exslt.org/math" xmlns:str="http://exslt.org/strings"
  xmlns:dyn="http://exslt.org/dynamic" xmlns:data="urn:c07:data"
  exclude-result-prefixes="xalan exsl set math str dyn data">
<xsl:output method="xml" indent="no" encoding="UTF-8"/>
<!--DECL-->
<xsl:variable name="global-rtf"><g><x>1</x><x>2</x><y k="v">3</y></g></xsl:variable>
<xsl:param name="global-param"><p><q/></p></xsl:param>
<xsl:variable name="global-count" select="count(//item)"/>
<xsl:template name="f-rtf">
  <rtfs>
    <xsl:variable name="local"><l><xsl:for-each select="//item[position() &lt; 8]"><it cat="{@cat}"><xsl:value-of select="name"/></it></xsl:for-each></l></xsl:variable>
    <copy><xsl:copy-of select="$local"/></copy>
    <str><xsl:value-of select="$local"/>|<xsl:value-of select="string($global-rtf)"/>|<xsl:value-of select="$global-count"/></str>
    <ns1 n="{count(xalan:nodeset($local)/l/it)}"><xsl:for-each select="xalan:nodeset($local)/l/it[@cat = 'a']"><xsl:value-of select="."/>,</xsl:for-each></ns1>
    <ns2 n="{count(exsl:node-set($global-rtf)/g/x)}" s="{sum(exsl:node-set($global-rtf)/g/*)}" t="{exsl:object-type($global-rtf)}"/>
    <ns3 n="{count(xalan:nodeset($global-param)//*)}"/>
    <xsl:variable name="nested"><xsl:copy-of select="xalan:nodeset($local)/l/it[1]"/><xsl:copy-of select="$global-rtf"/></xsl:variable>
    <nested n="{count(exsl:node-set($nested)/*)}"><xsl:copy-of select="exsl:node-set($nested)/g/y"/></nested>
    <xsl:call-template name="rtf-param"><xsl:with-param name="p"><w>with</w></xsl:with-param></xsl:call-template>
  </rtfs>
</xsl:template>
<xsl:template name="rtf-param">
  <xsl:param name="p"><w>default</w></xsl:param>
  <xsl:param name="q"><w>default-q</w></xsl:param>
  <pp><xsl:value-of select="$p"/>/<xsl:value-of select="exsl:node-set($q)/w"/></pp>
</xsl:template>
<!--/DECL-->
<xsl:template match="/"><out><xsl:call-template name="f-rtf"/></out></xsl:template>
</xsl:stylesheet>
