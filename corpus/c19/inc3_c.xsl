<xsl:stylesheet version='1.0' xmlns:xsl='http://www.w3.org/1999/XSL/Transform'><xsl:template name='deepest'><e/></xsl:template></xsl:stylesheet>
