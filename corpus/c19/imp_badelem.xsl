<xsl:stylesheet version='1.0' xmlns:xsl='http://www.w3.org/1999/XSL/Transform'><xsl:template match='item'><i><xsl:frobnicate select='.'/></i></xsl:template></xsl:stylesheet>
