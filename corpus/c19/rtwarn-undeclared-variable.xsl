<?xml version="1.0"?>
<!-- a reference to a variable that is declared nowhere: Xalan warns, evaluates the reference to an object of type "unknown"
     (XUnknown, an XObject kind that nothing else creates) and goes on; the object is released during the transformation -->
<xsl:stylesheet version="1.0" xmlns:xsl="http://www.w3.org/1999/XSL/Transform">
<xsl:output method="xml" omit-xml-declaration="yes"/>
<xsl:template match="/">
<out><xsl:for-each select="//*"><i><xsl:if test="count(@*) &lt; $limit">!</xsl:if><xsl:value-of select="string($nowhere)"/><xsl:value-of select="name()"/></i></xsl:for-each>
<v><xsl:value-of select="concat('a', $missing, 'b')"/></v><xsl:variable name="w" select="$other"/><w><xsl:copy-of select="$w"/></w></out>
</xsl:template>
</xsl:stylesheet>
