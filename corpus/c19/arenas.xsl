<?xml version="1.0"?>
<!-- many value objects of every kind alive at once (the object factory keeps each kind in arenas of fixed-size blocks, the variables
     stack and the result-tree-fragment pools grow block by block), released in an order that is not the order of creation;
     exsl:node-set() of values that are not fragments -->
<xsl:stylesheet version="1.0" xmlns:xsl="http://www.w3.org/1999/XSL/Transform" xmlns:exsl="http://exslt.org/common" exclude-result-prefixes="exsl">
<xsl:output method="xml" omit-xml-declaration="yes"/>
<xsl:variable name="s1" select="'s1'"/>
<xsl:variable name="s2" select="'s2'"/>
<xsl:variable name="s3" select="'s3'"/>
<xsl:variable name="s4" select="'s4'"/>
<xsl:variable name="s5" select="'s5'"/>
<xsl:variable name="s6" select="'s6'"/>
<xsl:variable name="s7" select="'s7'"/>
<xsl:variable name="s8" select="'s8'"/>
<xsl:variable name="s9" select="'s9'"/>
<xsl:variable name="s10" select="'s10'"/>
<xsl:variable name="s11" select="'s11'"/>
<xsl:variable name="s12" select="'s12'"/>
<xsl:variable name="s13" select="'s13'"/>
<xsl:variable name="s14" select="'s14'"/>
<xsl:variable name="s15" select="'s15'"/>
<xsl:variable name="s16" select="'s16'"/>
<xsl:variable name="s17" select="'s17'"/>
<xsl:variable name="s18" select="'s18'"/>
<xsl:variable name="s19" select="'s19'"/>
<xsl:variable name="s20" select="'s20'"/>
<xsl:variable name="s21" select="'s21'"/>
<xsl:variable name="s22" select="'s22'"/>
<xsl:variable name="s23" select="'s23'"/>
<xsl:variable name="s24" select="'s24'"/>
<xsl:variable name="s25" select="'s25'"/>
<xsl:variable name="s26" select="'s26'"/>
<xsl:variable name="n1" select="1"/>
<xsl:variable name="n2" select="2"/>
<xsl:variable name="n3" select="3"/>
<xsl:variable name="n4" select="4"/>
<xsl:variable name="n5" select="5"/>
<xsl:variable name="n6" select="6"/>
<xsl:variable name="n7" select="7"/>
<xsl:variable name="n8" select="8"/>
<xsl:variable name="n9" select="9"/>
<xsl:variable name="n10" select="10"/>
<xsl:variable name="n11" select="11"/>
<xsl:variable name="n12" select="12"/>
<xsl:variable name="n13" select="13"/>
<xsl:variable name="n14" select="14"/>
<xsl:variable name="n15" select="15"/>
<xsl:variable name="n16" select="16"/>
<xsl:variable name="n17" select="17"/>
<xsl:variable name="n18" select="18"/>
<xsl:variable name="n19" select="19"/>
<xsl:variable name="n20" select="20"/>
<xsl:variable name="n21" select="21"/>
<xsl:variable name="n22" select="22"/>
<xsl:variable name="n23" select="23"/>
<xsl:variable name="n24" select="24"/>
<xsl:variable name="n25" select="25"/>
<xsl:variable name="n26" select="26"/>
<xsl:variable name="e1" select="/doc/item[2]"/>
<xsl:variable name="e2" select="/doc/item[3]"/>
<xsl:variable name="e3" select="/doc/item[1]"/>
<xsl:variable name="e4" select="/doc/item[2]"/>
<xsl:variable name="e5" select="/doc/item[3]"/>
<xsl:variable name="e6" select="/doc/item[1]"/>
<xsl:variable name="e7" select="/doc/item[2]"/>
<xsl:variable name="e8" select="/doc/item[3]"/>
<xsl:variable name="e9" select="/doc/item[1]"/>
<xsl:variable name="e10" select="/doc/item[2]"/>
<xsl:variable name="e11" select="/doc/item[3]"/>
<xsl:variable name="e12" select="/doc/item[1]"/>
<xsl:variable name="e13" select="/doc/item[2]"/>
<xsl:variable name="e14" select="/doc/item[3]"/>
<xsl:variable name="e15" select="/doc/item[1]"/>
<xsl:variable name="e16" select="/doc/item[2]"/>
<xsl:variable name="e17" select="/doc/item[3]"/>
<xsl:variable name="e18" select="/doc/item[1]"/>
<xsl:variable name="e19" select="/doc/item[2]"/>
<xsl:variable name="e20" select="/doc/item[3]"/>
<xsl:variable name="e21" select="/doc/item[1]"/>
<xsl:variable name="e22" select="/doc/item[2]"/>
<xsl:variable name="e23" select="/doc/item[3]"/>
<xsl:variable name="e24" select="/doc/item[1]"/>
<xsl:variable name="e25" select="/doc/item[2]"/>
<xsl:variable name="e26" select="/doc/item[3]"/>
<xsl:variable name="b1" select="true()"/>
<xsl:variable name="b2" select="not(/doc)"/>
<xsl:variable name="b3" select="true()"/>
<xsl:variable name="b4" select="not(/doc)"/>
<xsl:variable name="b5" select="true()"/>
<xsl:variable name="b6" select="not(/doc)"/>
<xsl:variable name="b7" select="true()"/>
<xsl:variable name="b8" select="not(/doc)"/>
<xsl:variable name="b9" select="true()"/>
<xsl:variable name="b10" select="not(/doc)"/>
<xsl:variable name="b11" select="true()"/>
<xsl:variable name="b12" select="not(/doc)"/>
<xsl:variable name="b13" select="true()"/>
<xsl:variable name="b14" select="not(/doc)"/>
<xsl:variable name="b15" select="true()"/>
<xsl:variable name="b16" select="not(/doc)"/>
<xsl:variable name="b17" select="true()"/>
<xsl:variable name="b18" select="not(/doc)"/>
<xsl:variable name="b19" select="true()"/>
<xsl:variable name="b20" select="not(/doc)"/>
<xsl:variable name="b21" select="true()"/>
<xsl:variable name="b22" select="not(/doc)"/>
<xsl:variable name="b23" select="true()"/>
<xsl:variable name="b24" select="not(/doc)"/>
<xsl:variable name="b25" select="true()"/>
<xsl:variable name="b26" select="not(/doc)"/>
<xsl:variable name="f1"><f>1</f></xsl:variable>
<xsl:variable name="f2"><f>2</f></xsl:variable>
<xsl:variable name="f3"><f>3</f></xsl:variable>
<xsl:variable name="f4"><f>4</f></xsl:variable>
<xsl:variable name="f5"><f>5</f></xsl:variable>
<xsl:variable name="f6"><f>6</f></xsl:variable>
<xsl:variable name="f7"><f>7</f></xsl:variable>
<xsl:variable name="f8"><f>8</f></xsl:variable>
<xsl:variable name="f9"><f>9</f></xsl:variable>
<xsl:variable name="f10"><f>10</f></xsl:variable>
<xsl:variable name="f11"><f>11</f></xsl:variable>
<xsl:variable name="f12"><f>12</f></xsl:variable>
<xsl:template match="/"><out>
<s><xsl:value-of select="concat($s1, $s2, $s3, $s4, $s5, $s6, $s7, $s8, $s9, $s10, $s11, $s12, $s13, $s14, $s15, $s16, $s17, $s18, $s19, $s20, $s21, $s22, $s23, $s24, $s25, $s26)"/></s>
<n><xsl:value-of select="$n1 + $n2 + $n3 + $n4 + $n5 + $n6 + $n7 + $n8 + $n9 + $n10 + $n11 + $n12 + $n13 + $n14 + $n15 + $n16 + $n17 + $n18 + $n19 + $n20 + $n21 + $n22 + $n23 + $n24 + $n25 + $n26"/></n>
<e><xsl:value-of select="count($e1 | $e2 | $e3 | $e4 | $e5 | $e6 | $e7 | $e8 | $e9 | $e10 | $e11 | $e12 | $e13 | $e14 | $e15 | $e16 | $e17 | $e18 | $e19 | $e20 | $e21 | $e22 | $e23 | $e24 | $e25 | $e26)"/></e>
<b><xsl:value-of select="$b1 and $b3 and $b5 and $b7 and $b9 and $b11 and $b13 and $b15 and $b17 and $b19 and $b21 and $b23 and $b25"/></b>
<f><xsl:copy-of select="$f1"/><xsl:copy-of select="$f2"/><xsl:copy-of select="$f3"/><xsl:copy-of select="$f4"/><xsl:copy-of select="$f5"/><xsl:copy-of select="$f6"/><xsl:copy-of select="$f7"/><xsl:copy-of select="$f8"/><xsl:copy-of select="$f9"/><xsl:copy-of select="$f10"/><xsl:copy-of select="$f11"/><xsl:copy-of select="$f12"/></f>
<xsl:call-template name="deep"><xsl:with-param name="d" select="number(doc/num/@d)"/><xsl:with-param name="s" select="'x'"/></xsl:call-template>
<ns><xsl:value-of select="count(exsl:node-set('str'))"/>|<xsl:value-of select="exsl:node-set(12)"/>|<xsl:value-of select="exsl:node-set(true())"/>|<xsl:value-of select="count(exsl:node-set($f1)/node())"/>|<xsl:value-of select="count(exsl:node-set(/doc/item))"/>|<xsl:for-each select="exsl:node-set(concat(doc/item[1], '+', doc/item[2]))">[<xsl:value-of select="."/>]</xsl:for-each></ns>
</out></xsl:template>
<xsl:template name="deep"><xsl:param name="d"/><xsl:param name="s"/><xsl:param name="n" select="0"/><xsl:param name="e" select="/.."/><xsl:param name="f" select="''"/>
<xsl:variable name="rtf"><r><xsl:value-of select="$d"/></r></xsl:variable>
<xsl:variable name="early" select="'early'"/>
<xsl:if test="$d &gt; 0">
<xsl:call-template name="deep"><xsl:with-param name="d" select="$d - 1"/><xsl:with-param name="s" select="'y'"/><xsl:with-param name="n" select="$d * 2"/>
<xsl:with-param name="e" select="/doc/item[$d mod 3 + 1]"/><xsl:with-param name="f" select="$rtf"/></xsl:call-template>
</xsl:if>
<u><xsl:value-of select="concat($s, $n, count($e), $f, $early)"/></u>
</xsl:template>
</xsl:stylesheet>
